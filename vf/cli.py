"""Command line: ./check <ID|all> [quick|thorough] [--repo DIR]"""
import importlib
import json
import os
import sys
import time
import traceback

from .model import Program, AnalysisError
from .report import Check, VERIF

ALL = ['C%02d' % i for i in range(1, 21)]


class _Unconfirmed(AnalysisError):
    pass


def _unexpected_gaps(mod):
    """Modelling gaps of this run that the property's check does not account for itself
    (EXPECTED_GAPS of the check module: exact (kind, what) pairs or (kind, '*'))."""
    from . import interp as _interp
    expected = set(getattr(mod, 'EXPECTED_GAPS', ()))
    return sorted({g for g in _interp.GAP_EVENTS
                   if (g[0], g[1]) not in expected and (g[0], '*') not in expected})


def run_one(pid, tier, repo, quiet=False, out_dir=None):
    ck = Check(pid, tier, repo, out_dir=out_dir, quiet=quiet)
    from . import interp as _interp
    _interp.GAP_EVENTS.clear()
    _interp.WORK[0] = 0
    # safety net against path / term explosion on unfamiliar code: exit 2, never a hang
    _interp.DEADLINE[0] = time.monotonic() + float(os.environ.get(
        'VERIF_TIME_CAP', '300' if tier == 'quick' else '1500'))
    try:
        mod = importlib.import_module('vf.props.' + pid.lower())
        prog = Program(repo)
        mod.run(ck, prog, tier)
        gaps = _unexpected_gaps(mod)
        ck.extra['interpreted_statements'] = _interp.WORK[0]
        ck.extra['modelling_gaps'] = ['%s %s at %s' % g for g in gaps][:20]
        structural = [v for v in ck.violations if v['rule'] in ck.structural_rules]
        if gaps and structural:
            # rules decided on the source text stand; value-based mismatches are dropped
            dropped = [v for v in ck.violations if v not in structural]
            if dropped:
                ck.extra['unconfirmed_mismatches'] = sorted({v['rule'] for v in dropped})
            ck.violations = structural
            ck.floor_failures = []
        elif gaps and ck.violations:
            # a mismatch downstream of a construct the interpreter does not model is not evidence
            rules = sorted({v['rule'] for v in ck.violations})
            raise _Unconfirmed(
                '%d rule(s) did not hold on the abstract values (%s), but the analysis met '
                'constructs it does not model (%s): values downstream of those are '
                'over-approximations, so the mismatch is not evidence of a defect; cannot conclude'
                % (len(rules), ', '.join(rules[:6]), '; '.join('%s %s at %s' % g for g in gaps[:4])))
        if tier == 'thorough' and not os.environ.get('VERIF_NO_AUDIT'):
            # mutation-adequacy audit: the property's self-test variants applied to scratch copies
            # of the current tree (recorded in the evidence; never changes the verdict)
            from . import selftest
            try:
                a = selftest.audit(pid, repo)
                ck.extra['mutation_audit'] = a
                if a.get('variants'):
                    print('%s audit: %d variants of the current tree: %d breaking ones reported, %d '
                          'preserving ones silent, %d stale, %d unexpected' % (
                              pid, a['variants'], a['breaking_variants_reported'],
                              a['preserving_variants_silent'], a['stale'], len(a['unexpected'])))
            except Exception as exc:  # the audit is auxiliary
                ck.extra['mutation_audit'] = {'error': '%s: %s' % (type(exc).__name__, exc)}
        return ck.finish()
    except _Unconfirmed as exc:
        print('ANALYSIS-ERROR property=%s %s' % (pid, exc))
        _error_evidence(ck, str(exc))
        return 2
    except AnalysisError as exc:
        gaps = _unexpected_gaps(sys.modules.get('vf.props.' + pid.lower()))
        structural = [v for v in ck.violations if v['rule'] in ck.structural_rules]
        if gaps and structural:
            ck.violations = structural
        elif ck.violations and gaps:
            print('ANALYSIS-ERROR property=%s %s (and %d unconfirmed mismatch(es) downstream of '
                  'unmodelled constructs: %s)' % (pid, exc, len(ck.violations),
                                                  '; '.join('%s %s at %s' % g for g in gaps[:3])))
            _error_evidence(ck, str(exc))
            return 2
        if ck.violations:
            # violations already established stay valid; the analyser merely could not finish the
            # remaining rules (often because of the very construct that was reported)
            print('NOTE property=%s analysis stopped early: %s' % (pid, exc))
            ck.extra['analysis_stopped_early'] = str(exc)
            ck.floor_failures = []
            try:
                return ck.finish()
            except AnalysisError:
                pass
        print('ANALYSIS-ERROR property=%s %s' % (pid, exc))
        _error_evidence(ck, str(exc))
        return 2
    except Exception as exc:  # any traceback is a checker problem, never a violation
        print('ANALYSIS-ERROR property=%s internal error: %s: %s' % (pid, type(exc).__name__, exc))
        traceback.print_exc()
        _error_evidence(ck, '%s: %s' % (type(exc).__name__, exc))
        return 2


def _error_evidence(ck, msg):
    os.makedirs(ck.out_dir, exist_ok=True)
    with open(os.path.join(ck.out_dir, ck.pid + '.json'), 'w') as fh:
        json.dump({'property_id': ck.pid, 'tier': ck.tier, 'seed': 0, 'level': 'other',
                   'coverage': {'explanation': 'ANALYSIS-ERROR: the analyser could not conclude: '
                                + msg, 'obligations': len(ck.obligations),
                                'discharged': sum(1 for o in ck.obligations if o['ok']),
                                'analysis_error': msg},
                   'wall_s': round(time.time() - ck.t0, 3), 'violations': 0}, fh, indent=1)


def main(argv):
    args = [a for a in argv if not a.startswith('--')]
    repo = os.environ.get('VERIF_REPO', '/repo')
    out_dir = None
    quiet = False
    i = 0
    while i < len(argv):
        if argv[i] == '--repo':
            repo = argv[i + 1]
            args = [a for a in args if a != repo]
            i += 1
        elif argv[i] == '--out':
            out_dir = argv[i + 1]
            args = [a for a in args if a != out_dir]
            i += 1
        elif argv[i] == '--quiet':
            quiet = True
        i += 1
    if not args:
        print(__doc__)
        return 2
    what = args[0]
    if what == 'selftest':
        from . import selftest
        return selftest.main([a for a in argv[1:] if a != repo and a != '--repo'], repo)
    tier = args[1] if len(args) > 1 else os.environ.get('VERIF_TIER', 'quick')
    if tier not in ('quick', 'thorough'):
        print('unknown tier %r' % tier)
        return 2
    if what == 'all':
        worst = 0
        for pid in ALL:
            if os.path.exists(os.path.join(VERIF, 'vf', 'props', pid.lower() + '.py')):
                worst = max(worst, run_one(pid, tier, repo, quiet, out_dir))
        return worst
    return run_one(what.upper(), tier, repo, quiet, out_dir)


if __name__ == '__main__':
    sys.exit(main(sys.argv[1:]))
