"""Shared effect rule R-PURE: the result of an anchored function must be a function of its arguments.

Every property about a calculator / geometry helper quantifies over inputs ("for every value ...
returns ..."), so a result that can depend on the *history of earlier calls* breaks it.  The only
way such a dependence can enter these functions is module-level (or class-level / function-
attribute) mutable state.  The rule walks the anchored functions and their resolved package callees
and reports every read of a module-level mutable binding, except the one sound idiom: a memo table
that is only ever indexed by one key expression made of parameters, where either the key names ALL
parameters or every value stored under a key depends (data and control dependence through locals,
`param_deps`) on the key's parameters only - then a hit returns what a miss would compute.  The
same holds for a mutable *default argument* that the body updates (created once, shared by all
calls).  Also state: a module-level one-shot iterator (zip/map/filter/iter/generator expression -
iterating consumes it) and a module-level container updated through a local alias (`cur = TABLE`,
`cur[k] = v`).  Writes that are never read back into a result are not reported.
"""
import ast

from .model import AnalysisError

MUTABLE_CTORS = {'dict', 'list', 'set', 'defaultdict', 'OrderedDict', 'deque', 'Counter',
                 'WeakValueDictionary', 'bytearray'}


ONE_SHOT_BUILTINS = {'zip', 'map', 'filter', 'iter', 'reversed', 'enumerate'}


IN_PLACE_METHODS = {'add', 'update', 'append', 'extend', 'insert', 'remove', 'discard', 'clear',
                    'pop', 'popitem', 'setdefault', 'sort', 'reverse', 'appendleft', 'popleft',
                    'intersection_update', 'difference_update', 'symmetric_difference_update',
                    '__setitem__', '__delitem__', 'move_to_end', 'subtract'}


def mutated_names(module):
    """Module-level names that some function of the module can change: subscript / attribute
    stores and deletes on the name, in-place methods, augmented assignment, `global` rebinding.
    A module-level container that is never touched in any of these ways is a constant table."""
    cached = getattr(module, '_mutated_names', None)
    if cached is not None:
        return cached
    out = set()
    fns = list(module.functions.values()) + [m for c in module.classes.values()
                                             for m in c.methods.values()]
    for fn in fns:
        local = {n.id for n in ast.walk(fn.node) if isinstance(n, ast.Name)
                 and isinstance(n.ctx, ast.Store)} | set(fn.params)
        declared = {n for node in ast.walk(fn.node) if isinstance(node, ast.Global)
                    for n in node.names}
        out |= declared

        def is_global(name):
            return name in module.globals and (name not in local or name in declared)
        # local names bound to a module-level object itself (no copy): `cur = DEFAULTS`,
        # `cur = DEFAULTS if x else other` - an in-place update of `cur` updates the global
        aliases = {}
        for node in ast.walk(fn.node):
            if isinstance(node, ast.Assign) and len(node.targets) == 1 and \
                    isinstance(node.targets[0], ast.Name):
                srcs = [node.value]
                if isinstance(node.value, ast.IfExp):
                    srcs = [node.value.body, node.value.orelse]
                elif isinstance(node.value, ast.BoolOp):
                    srcs = list(node.value.values)
                for src in srcs:
                    if isinstance(src, ast.Name) and is_global(src.id) and isinstance(
                            module.globals.get(src.id),
                            (ast.Dict, ast.List, ast.Set, ast.ListComp, ast.DictComp, ast.SetComp,
                             ast.Call)):
                        aliases.setdefault(node.targets[0].id, set()).add(src.id)

        def globals_of(name):
            got = set(aliases.get(name, ()))
            if is_global(name):
                got.add(name)
            return got
        for node in ast.walk(fn.node):
            tgts = []
            if isinstance(node, ast.Assign):
                tgts = node.targets
            elif isinstance(node, (ast.AugAssign, ast.AnnAssign)):
                tgts = [node.target]
            elif isinstance(node, ast.Delete):
                tgts = node.targets
            for t in tgts:
                base = t
                while isinstance(base, (ast.Subscript, ast.Attribute)):
                    base = base.value
                if base is not t and isinstance(base, ast.Name):
                    out |= globals_of(base.id)
                if isinstance(node, ast.AugAssign) and isinstance(t, ast.Name) and t.id in declared:
                    out.add(t.id)
                if isinstance(node, ast.AugAssign) and isinstance(t, ast.Name) and t.id in aliases:
                    out |= aliases[t.id]       # `cur += [...]` extends the shared list in place
            if isinstance(node, ast.Call) and isinstance(node.func, ast.Attribute) and \
                    node.func.attr in IN_PLACE_METHODS:
                base = node.func.value
                while isinstance(base, (ast.Subscript, ast.Attribute)):
                    base = base.value
                if isinstance(base, ast.Name):
                    out |= globals_of(base.id)
            # the container escapes: passed to a call or returned / stored elsewhere -> assume
            # it may be mutated there
            if isinstance(node, ast.Call):
                for a in list(node.args) + [k.value for k in node.keywords]:
                    if isinstance(a, ast.Name) and is_global(a.id) and isinstance(
                            module.globals.get(a.id), (ast.Dict, ast.List, ast.Set)):
                        f = node.func
                        fname = f.id if isinstance(f, ast.Name) else getattr(f, 'attr', '')
                        if fname not in ('len', 'sorted', 'tuple', 'list', 'set', 'frozenset', 'dict',
                                         'enumerate', 'zip', 'max', 'min', 'sum', 'any', 'all',
                                         'translate', 'maketrans', 'join', 'isinstance', 'get',
                                         'format', 'startswith', 'endswith', 'sub', 'compile'):
                            out.add(a.id)
    module._mutated_names = out
    return out


def mutable_globals(module):
    """Module-level names bound to containers that the module can actually change (see
    `mutated_names`), or rebound through `global` statements.  Never-mutated tables are constants."""
    out = {}
    changed = mutated_names(module)
    for name, val in module.globals.items():
        if name not in changed:
            continue
        if isinstance(val, (ast.Dict, ast.List, ast.Set, ast.ListComp, ast.DictComp, ast.SetComp)):
            out[name] = 'mutable container'
        elif isinstance(val, ast.Call):
            f = val.func
            fname = f.id if isinstance(f, ast.Name) else (f.attr if isinstance(f, ast.Attribute)
                                                          else '')
            if fname in MUTABLE_CTORS:
                out[name] = 'mutable container'
    # one-shot iterators bound at module level (zip(...), map(...), a generator expression ...):
    # the first complete iteration consumes them, every later use finds them empty - iterating is
    # itself the mutation, whether or not anything else touches the name
    for name, val in module.globals.items():
        one_shot = isinstance(val, ast.GeneratorExp)
        if isinstance(val, ast.Call):
            f = val.func
            fname = f.id if isinstance(f, ast.Name) else (f.attr if isinstance(f, ast.Attribute)
                                                          else '')
            mod = f.value.id if isinstance(f, ast.Attribute) and isinstance(f.value, ast.Name) \
                else ''
            one_shot = (isinstance(f, ast.Name) and fname in ONE_SHOT_BUILTINS) or \
                (mod == 'itertools')
        if one_shot:
            out[name] = 'one-shot iterator: consumed by its first use'
    for fn in list(module.functions.values()) + [m for c in module.classes.values()
                                                 for m in c.methods.values()]:
        for node in ast.walk(fn.node):
            if isinstance(node, ast.Global):
                for n in node.names:
                    out.setdefault(n, 'rebound through a global statement')
    return out


def param_deps(fn):
    """Flow-insensitive dependence of every local name on the parameters: data dependence through
    assignments (resolved transitively) and control dependence on the tests that guard an
    assignment.  A name that is neither a parameter nor a local (module constant, builtin,
    imported function) contributes nothing; calls depend on their arguments.  Returns
    name -> set(parameter names | '<state>')."""
    params = set(fn.params)
    raw = {}

    def names_of(expr):
        return {n.id for n in ast.walk(expr) if isinstance(n, ast.Name)
                and isinstance(n.ctx, ast.Load)}

    def targets(t, acc):
        if isinstance(t, ast.Name):
            acc.append(t.id)
        elif isinstance(t, (ast.Tuple, ast.List)):
            for e in t.elts:
                targets(e, acc)
        elif isinstance(t, ast.Starred):
            targets(t.value, acc)
        elif isinstance(t, (ast.Subscript, ast.Attribute)):
            base = t
            while isinstance(base, (ast.Subscript, ast.Attribute)):
                base = base.value
            if isinstance(base, ast.Name):
                acc.append(base.id)       # x[i] = v: x now also depends on v (and i)

    def walk(stmts, ctrl):
        for st in stmts:
            if isinstance(st, (ast.FunctionDef, ast.AsyncFunctionDef, ast.ClassDef)):
                continue
            if isinstance(st, ast.Assign):
                acc = []
                for t in st.targets:
                    targets(t, acc)
                    if isinstance(t, ast.Subscript):
                        ctrl_t = names_of(t.slice)
                    else:
                        ctrl_t = set()
                    for nm in acc:
                        raw.setdefault(nm, set()).update(names_of(st.value) | ctrl | ctrl_t)
            elif isinstance(st, (ast.AugAssign, ast.AnnAssign)):
                acc = []
                targets(st.target, acc)
                for nm in acc:
                    raw.setdefault(nm, set()).update(
                        (names_of(st.value) if st.value is not None else set()) | ctrl | {nm})
            elif isinstance(st, (ast.If, ast.While)):
                c2 = ctrl | names_of(st.test)
                walk(st.body, c2)
                walk(st.orelse, c2)
                # an early exit under this test makes everything after it control dependent
                if any(isinstance(n, (ast.Return, ast.Raise, ast.Break, ast.Continue))
                       for b in st.body + st.orelse for n in ast.walk(b)):
                    ctrl = c2
            elif isinstance(st, (ast.For, ast.AsyncFor)):
                acc = []
                targets(st.target, acc)
                c2 = ctrl | names_of(st.iter)
                for nm in acc:
                    raw.setdefault(nm, set()).update(c2)
                walk(st.body, c2)
                walk(st.orelse, c2)
            elif isinstance(st, (ast.With, ast.AsyncWith)):
                for item in st.items:
                    if item.optional_vars is not None:
                        acc = []
                        targets(item.optional_vars, acc)
                        for nm in acc:
                            raw.setdefault(nm, set()).update(names_of(item.context_expr) | ctrl)
                walk(st.body, ctrl)
            elif isinstance(st, ast.Try):
                # what the handlers assign depends on whether the body raised: on all it reads
                body_names = set()
                for b in st.body:
                    body_names |= names_of(b)
                walk(st.body, ctrl)
                for h in st.handlers:
                    walk(h.body, ctrl | body_names)
                walk(st.orelse, ctrl | body_names)
                walk(st.finalbody, ctrl)
                if st.handlers:
                    ctrl = ctrl | body_names
            elif hasattr(ast, 'Match') and isinstance(st, ast.Match):
                c2 = ctrl | names_of(st.subject)
                for case in st.cases:
                    for n in ast.walk(case.pattern):
                        nm = getattr(n, 'name', None)
                        if isinstance(nm, str):
                            raw.setdefault(nm, set()).update(c2)
                    walk(case.body, c2)
            else:
                # walrus targets and in-place method calls inside expressions
                for n in ast.walk(st):
                    if isinstance(n, ast.NamedExpr):
                        raw.setdefault(n.target.id, set()).update(names_of(n.value) | ctrl)
                    elif isinstance(n, ast.Call) and isinstance(n.func, ast.Attribute) and \
                            n.func.attr in IN_PLACE_METHODS:
                        base = n.func.value
                        while isinstance(base, (ast.Subscript, ast.Attribute)):
                            base = base.value
                        if isinstance(base, ast.Name):
                            for a in list(n.args) + [k.value for k in n.keywords]:
                                raw.setdefault(base.id, set()).update(names_of(a) | ctrl)
    walk(fn.node.body, set())
    # walrus inside tests / values of compound statements
    for n in ast.walk(fn.node):
        if isinstance(n, ast.NamedExpr):
            raw.setdefault(n.target.id, set()).update(names_of(n.value))
    deps = {p: {p} for p in params}
    for nm in raw:
        deps.setdefault(nm, set())
    changed = True
    while changed:
        changed = False
        for nm, srcs in raw.items():
            new = set(deps[nm])
            for s_ in srcs:
                if s_ in deps:
                    new |= deps[s_]
            if new != deps[nm]:
                deps[nm] = new
                changed = True
    return deps


def expr_deps(expr, deps):
    out = set()
    for n in ast.walk(expr):
        if isinstance(n, ast.Name) and isinstance(n.ctx, ast.Load) and n.id in deps:
            out |= deps[n.id]
    return out


def mutated_default_params(fn):
    """Parameters whose default is a mutable container that the function body updates in place."""
    a = fn.node.args
    pos = list(a.posonlyargs) + list(a.args)
    pairs = list(zip(pos[len(pos) - len(a.defaults):], a.defaults)) + \
        [(k, d) for k, d in zip(a.kwonlyargs, a.kw_defaults) if d is not None]
    cand = set()
    for arg, d in pairs:
        if isinstance(d, (ast.Dict, ast.List, ast.Set, ast.ListComp, ast.DictComp, ast.SetComp)):
            cand.add(arg.arg)
        elif isinstance(d, ast.Call):
            f = d.func
            fname = f.id if isinstance(f, ast.Name) else (f.attr if isinstance(f, ast.Attribute)
                                                          else '')
            if fname in MUTABLE_CTORS:
                cand.add(arg.arg)
    if not cand:
        return set()
    out = set()
    for node in ast.walk(fn.node):
        tgt = None
        if isinstance(node, (ast.Assign, ast.AugAssign, ast.AnnAssign, ast.Delete)):
            tgts = node.targets if isinstance(node, (ast.Assign, ast.Delete)) else [node.target]
            for t in tgts:
                base = t
                while isinstance(base, (ast.Subscript, ast.Attribute)):
                    base = base.value
                if isinstance(base, ast.Name) and base.id in cand and (
                        base is not t or isinstance(node, ast.AugAssign)):
                    out.add(base.id)
        elif isinstance(node, ast.Call) and isinstance(node.func, ast.Attribute) and \
                node.func.attr in IN_PLACE_METHODS:
            base = node.func.value
            while isinstance(base, (ast.Subscript, ast.Attribute)):
                base = base.value
            if isinstance(base, ast.Name) and base.id in cand:
                out.add(base.id)
    return out


def closure(prog, quals):
    g = prog.call_graph()
    seen, stack = set(), list(quals)
    while stack:
        q = stack.pop()
        if q in seen:
            continue
        seen.add(q)
        stack.extend(g.get(q, ()))
    byq = {f.qualname: f for f in prog.all_functions()}
    return [byq[q] for q in sorted(seen) if q in byq]


def _key_dump(expr, fn):
    """Canonical text of a key expression with one level of local aliasing resolved."""
    if isinstance(expr, ast.Name) and expr.id not in fn.params:
        defs = [n for n in ast.walk(fn.node) if isinstance(n, ast.Assign) and len(n.targets) == 1
                and isinstance(n.targets[0], ast.Name) and n.targets[0].id == expr.id]
        if len(defs) == 1:
            return _key_dump(defs[0].value, fn)
    return ast.dump(expr)


def _key_names(expr, fn):
    """Names making up a memo key expression, resolving one level of local assignment."""
    if isinstance(expr, ast.Name):
        if expr.id in fn.params:
            return {expr.id}, True
        # single local assignment key = (...)
        defs = [n for n in ast.walk(fn.node) if isinstance(n, ast.Assign) and len(n.targets) == 1
                and isinstance(n.targets[0], ast.Name) and n.targets[0].id == expr.id]
        if len(defs) == 1:
            return _key_names(defs[0].value, fn)
        return set(), False
    if isinstance(expr, ast.Tuple):
        names, ok = set(), True
        for e in expr.elts:
            n, o = _key_names(e, fn)
            names |= n
            ok = ok and o
        return names, ok
    return set(), False


def check(ck, prog, quals, rule, note=''):
    """Record obligations under `rule`; returns number of state reads found."""
    getattr(ck, 'structural_rules', set()).add(rule)
    n_reads = 0
    fns = closure(prog, quals)
    for fn in fns:
        mg = mutable_globals(fn.module)
        local_stores = {n.id for n in ast.walk(fn.node) if isinstance(n, ast.Name)
                        and isinstance(n.ctx, ast.Store)}
        declared_global = {n for node in ast.walk(fn.node) if isinstance(node, ast.Global)
                           for n in node.names}
        pm = {}
        for n in ast.walk(fn.node):
            for c in ast.iter_child_nodes(n):
                pm[c] = n
        by_global = {}
        for node in ast.walk(fn.node):
            if isinstance(node, ast.Name) and isinstance(node.ctx, ast.Load) and node.id in mg \
                    and (node.id not in local_stores or node.id in declared_global) \
                    and node.id not in fn.params:
                by_global.setdefault(node.id, []).append(node)
            # function attributes used as state: f.cache[...]
            if isinstance(node, ast.Attribute) and isinstance(node.value, ast.Name) \
                    and node.value.id == fn.name and fn.cls is None:
                by_global.setdefault(fn.name + '.' + node.attr, []).append(node)
        # a mutable default argument that the function updates is the same kind of state: the
        # default object is created once, at definition time, and shared by every call
        memo_params = mutated_default_params(fn)
        for pname in memo_params:
            for node in ast.walk(fn.node):
                if isinstance(node, ast.Name) and isinstance(node.ctx, ast.Load) and \
                        node.id == pname:
                    by_global.setdefault(pname, []).append(node)
        for gname, nodes in sorted(by_global.items()):
            n_reads += len(nodes)
            params = set(p for p in fn.params if p != 'self' and p not in memo_params)
            memo_ok = True
            why = ''
            deps = None
            key_dump = None
            for node in nodes:
                par = pm.get(node)
                key = None
                values = []          # expressions stored under the key by this access
                if isinstance(par, ast.Subscript) and par.value is node:
                    key = par.slice
                    if isinstance(par.ctx, ast.Store):
                        asg = pm.get(par)
                        if isinstance(asg, ast.Assign) and par in asg.targets:
                            values.append(asg.value)
                        else:
                            memo_ok, why = False, 'stored through %s' % ast.unparse(asg)[:50]
                            break
                elif isinstance(par, ast.Compare) and node in par.comparators \
                        and isinstance(par.ops[0], (ast.In, ast.NotIn)):
                    key = par.left
                elif isinstance(par, ast.Attribute) and par.value is node and par.attr in (
                        'get', 'setdefault', 'pop') and isinstance(pm.get(par), ast.Call):
                    call = pm[par]
                    key = call.args[0] if call.args else None
                    values += list(call.args[1:2])      # default / value to store
                elif (isinstance(par, ast.Call) and isinstance(par.func, ast.Name) and
                      par.func.id == 'len' and node in par.args) or \
                        (isinstance(par, ast.Attribute) and par.value is node and
                         par.attr == 'clear'):
                    continue      # size test / eviction of the whole table: no effect on results
                else:
                    memo_ok, why = False, 'used as %s' % ast.unparse(par)[:50]
                    break
                names, simple = _key_names(key, fn) if key is not None else (set(), False)
                if not simple:
                    memo_ok = False
                    why = ('indexed by %s, which is not a key made of parameters'
                           % (ast.unparse(key) if key is not None else '?'))
                    break
                kd = _key_dump(key, fn)
                if key_dump is None:
                    key_dump = kd
                elif kd != key_dump:
                    memo_ok, why = False, 'indexed by different keys (%s)' % ast.unparse(key)
                    break
                if names == params:
                    continue         # keyed by every parameter: a hit returns what a miss computes
                # keyed by some of the parameters: sound when what is stored depends on those only
                if deps is None:
                    deps = param_deps(fn)
                for v in values:
                    extra = (expr_deps(v, deps) & set(fn.params)) - names - memo_params
                    if extra:
                        memo_ok = False
                        why = ('indexed by %s but the stored value %s also depends on %s'
                               % (ast.unparse(key), ast.unparse(v)[:40], sorted(extra)))
                        break
                if not memo_ok:
                    break
            if memo_ok and gname in memo_params:
                if not hasattr(prog, 'sound_memos'):
                    prog.sound_memos = set()
                prog.sound_memos.add((fn.qualname, gname))
            ck.ob(rule, '%s::state:%s' % (fn.qualname, gname), memo_ok,
                  '%s reads %s %s (%s; %s): its result can depend on '
                  'earlier calls, not only on its arguments%s' % (
                      fn.qualname,
                      'its own default-argument object' if gname in memo_params
                      else 'module-level mutable state', gname,
                      'created once at definition and updated by the calls'
                      if gname in memo_params else mg.get(gname, 'function attribute'), why,
                      (' - ' + note) if note else ''),
                  fn.loc(nodes[0]), key='%s::state:%s' % (fn.qualname, gname))
    ck.ob(rule, 'result-is-a-function-of-arguments[%d functions]' % len(fns), True)
    ck.saw('purity_closure', [f.qualname for f in fns])
    return n_reads


# ====================================================================== ownership of mutated sets
FRESH_CALLS = {'set', 'list', 'dict', 'frozenset', 'sorted', 'copy', 'deepcopy', 'deque', 'tuple',
               'defaultdict', 'OrderedDict', 'Counter', 'bytearray'}
MUTATORS = {'add', 'update', 'append', 'extend', 'insert', 'remove', 'discard', 'clear', 'pop',
            'sort', 'reverse', 'intersection_update', 'difference_update',
            'symmetric_difference_update', 'setdefault', 'popitem'}


def check_ownership(ck, fn, rule):
    getattr(ck, 'structural_rules', set()).add(rule)
    return _check_ownership(ck, fn, rule)


def _check_ownership(ck, fn, rule):
    """R-OWN: a local container that is updated in place (|=, +=, .add, .update, ...) must be
    owned by this call: every assignment to that name gives it a freshly constructed object
    (literal, comprehension, set()/list()/dict() call, .copy()).  A name that can also be bound
    to the result of a call on another object or to a field aliases storage that outlives the
    call - updating it in place changes what later calls return (a history dependence)."""
    tree = fn.node
    mutated = {}
    for node in ast.walk(tree):
        if isinstance(node, ast.AugAssign) and isinstance(node.target, ast.Name) and \
                isinstance(node.op, (ast.BitOr, ast.BitAnd, ast.BitXor, ast.Add, ast.Sub)):
            mutated.setdefault(node.target.id, []).append(node)
        elif isinstance(node, ast.Call) and isinstance(node.func, ast.Attribute) and \
                isinstance(node.func.value, ast.Name) and node.func.attr in MUTATORS:
            mutated.setdefault(node.func.value.id, []).append(node)

    def fresh(expr):
        if isinstance(expr, (ast.Set, ast.List, ast.Dict, ast.ListComp, ast.SetComp, ast.DictComp,
                             ast.Tuple, ast.Constant)):
            return True
        if isinstance(expr, ast.Call):
            f = expr.func
            if isinstance(f, ast.Name) and f.id in FRESH_CALLS:
                return True
            if isinstance(f, ast.Attribute) and isinstance(f.value, ast.Name) and \
                    f.value.id == 'collections' and f.attr in FRESH_CALLS:
                return True
            if isinstance(f, ast.Attribute) and f.attr == 'copy':
                return True
            if isinstance(f, ast.Attribute) and f.attr in ('union', 'difference',
                                                           'symmetric_difference') \
                    and f.attr != fn.name:
                return True
        if isinstance(expr, ast.BinOp):
            return True          # a | b, a + b build new objects
        return False

    def sources(name):
        """(expr, node) for every binding of `name` in the function."""
        out = []
        for node in ast.walk(tree):
            if isinstance(node, ast.Assign):
                for t in node.targets:
                    if isinstance(t, ast.Name) and t.id == name:
                        out.append((node.value, node))
                    elif isinstance(t, (ast.Tuple, ast.List)) and isinstance(node.value, (ast.Tuple, ast.List)) \
                            and len(t.elts) == len(node.value.elts):
                        for te, ve in zip(t.elts, node.value.elts):
                            if isinstance(te, ast.Name) and te.id == name:
                                out.append((ve, node))
                    elif isinstance(t, (ast.Tuple, ast.List)):
                        for te in t.elts:
                            if isinstance(te, ast.Name) and te.id == name:
                                out.append((None, node))
        return out

    n = 0
    for name, sites in sorted(mutated.items()):
        if name in fn.params:
            continue
        srcs = sources(name)
        # numeric accumulators (x += 1) are not containers: require at least one container source
        container = any(isinstance(e, (ast.Set, ast.List, ast.Dict, ast.ListComp, ast.SetComp,
                                       ast.DictComp)) or
                        (isinstance(e, ast.Call) and isinstance(e.func, ast.Name) and
                         e.func.id in ('set', 'list', 'dict')) for e, _ in srcs) or \
            any(isinstance(s, ast.Call) for s in sites)
        if not container:
            continue
        n += 1
        bad = None
        for expr, node in srcs:
            e = expr
            # follow one level of local aliasing: x = y where y = <call on another object>
            if isinstance(e, ast.Name) and e.id not in fn.params:
                inner = sources(e.id)
                for ie, inode in inner:
                    if ie is not None and not fresh(ie):
                        bad = (ie, node)
                continue
            if e is None or isinstance(e, ast.Name):
                continue
            if not fresh(e):
                bad = (e, node)
        ck.ob(rule, '%s::%s' % (fn.qualname, name), bad is None,
              '%s updates `%s` in place (line %d) although `%s` can be bound to `%s` (line %d), an '
              'object owned by another node / a field: the update leaks into what later calls '
              'return' % (fn.qualname, name, sites[0].lineno, name,
                          ast.unparse(bad[0])[:60] if bad else '', bad[1].lineno if bad else 0),
              fn.loc(sites[0]), key='%s::aliased-update:%s' % (fn.qualname, name))
    return n


def _is_recursive_or_field_call(f, fn):
    return False


def check_instance_state(ck, cls, request_names, rule, typestate=('err', 'port')):
    """R-STATE: apart from the connection typestate (port, err) a request method must not consult
    an instance field that a request method writes: what it transmits would then depend on the
    history of earlier calls, not on its arguments and the replies of this call.  Decided on the
    source: self-field stores / loads of every request method and of the private helpers it
    reaches through self-calls."""
    getattr(ck, 'structural_rules', set()).add(rule)
    family = cls.mro()
    method_names = {n for c in family for n in c.methods}

    def reach(fn):
        seen, todo = {fn.qualname: fn}, [fn]
        while todo:
            f = todo.pop()
            for n in ast.walk(f.node):
                if isinstance(n, ast.Call) and isinstance(n.func, ast.Attribute) and \
                        isinstance(n.func.value, ast.Name) and n.func.value.id == 'self':
                    m = cls.lookup(n.func.attr)
                    if m is not None and m.qualname not in seen and (
                            m.name.startswith('_') or m.name == 'record_error'):
                        seen[m.qualname] = m
                        todo.append(m)
        return list(seen.values())

    stores, loads = {}, {}
    for name in request_names:
        fn = cls.lookup(name)
        if fn is None:
            continue
        for f in reach(fn):
            for n in ast.walk(f.node):
                if isinstance(n, ast.Attribute) and isinstance(n.value, ast.Name) and \
                        n.value.id == 'self' and n.attr not in method_names:
                    if isinstance(n.ctx, ast.Store):
                        stores.setdefault(n.attr, []).append((name, f, n))
                    elif isinstance(n.ctx, ast.Load):
                        loads.setdefault(n.attr, []).append((name, f, n))
                elif isinstance(n, ast.Call) and isinstance(n.func, ast.Name) and \
                        n.func.id in ('getattr', 'setattr', 'hasattr') and len(n.args) >= 2 and \
                        isinstance(n.args[0], ast.Name) and n.args[0].id == 'self' and \
                        isinstance(n.args[1], ast.Constant) and isinstance(n.args[1].value, str) \
                        and n.args[1].value not in method_names:
                    tbl = stores if n.func.id == 'setattr' else loads
                    tbl.setdefault(n.args[1].value, []).append((name, f, n))
    n = 0
    for attr in sorted(set(stores) & set(loads)):
        if attr in typestate:
            continue
        n += 1
        w, r = stores[attr][0], loads[attr][0]
        ck.ob(rule, '%s.%s' % (cls.name, attr), False,
              'request method %s stores self.%s (%s) and request method %s reads it (%s): what a '
              'request transmits then depends on earlier calls on the same object, not only on '
              'its arguments and the replies of this call (only the connection typestate %s is '
              'shared state)' % (w[0], attr, w[1].loc(w[2]), r[0], r[1].loc(r[2]),
                                 '/'.join(typestate)), w[1].loc(w[2]),
              key='%s::request-state:%s' % (cls.name, attr))
    ck.ob(rule, '%s: fields shared between request methods' % cls.name, True)
    return n
