"""Shared effect rule R-PURE: the result of an anchored function must be a function of its arguments.

Every property about a calculator / geometry helper quantifies over inputs ("for every value ...
returns ..."), so a result that can depend on the *history of earlier calls* breaks it.  The only
way such a dependence can enter these functions is module-level (or class-level / function-
attribute) mutable state.  The rule walks the anchored functions and their resolved package callees
and reports every read of a module-level mutable binding, except the one sound idiom: a memo table
that is only ever indexed by a key made of ALL parameters of the function (then a hit returns what
a miss would compute).  Writes that are never read back into a result are not reported.
"""
import ast

from .model import AnalysisError

MUTABLE_CTORS = {'dict', 'list', 'set', 'defaultdict', 'OrderedDict', 'deque', 'Counter',
                 'WeakValueDictionary', 'bytearray'}


def mutable_globals(module):
    """Module-level names bound to mutable containers, or rebound through `global` statements."""
    out = {}
    for name, val in module.globals.items():
        if isinstance(val, (ast.Dict, ast.List, ast.Set, ast.ListComp, ast.DictComp, ast.SetComp)):
            out[name] = 'mutable container'
        elif isinstance(val, ast.Call):
            f = val.func
            fname = f.id if isinstance(f, ast.Name) else (f.attr if isinstance(f, ast.Attribute)
                                                          else '')
            if fname in MUTABLE_CTORS:
                out[name] = 'mutable container'
    for fn in list(module.functions.values()) + [m for c in module.classes.values()
                                                 for m in c.methods.values()]:
        for node in ast.walk(fn.node):
            if isinstance(node, ast.Global):
                for n in node.names:
                    out.setdefault(n, 'rebound through a global statement')
    return out


def closure(prog, quals):
    g = prog.call_graph()
    seen, stack = set(), list(quals)
    while stack:
        q = stack.pop()
        if q in seen:
            continue
        seen.add(q)
        stack.extend(g.get(q, ()))
    byq = {f.qualname: f for f in prog.all_functions()}
    return [byq[q] for q in sorted(seen) if q in byq]


def _key_names(expr, fn):
    """Names making up a memo key expression, resolving one level of local assignment."""
    if isinstance(expr, ast.Name):
        if expr.id in fn.params:
            return {expr.id}, True
        # single local assignment key = (...)
        defs = [n for n in ast.walk(fn.node) if isinstance(n, ast.Assign) and len(n.targets) == 1
                and isinstance(n.targets[0], ast.Name) and n.targets[0].id == expr.id]
        if len(defs) == 1:
            return _key_names(defs[0].value, fn)
        return set(), False
    if isinstance(expr, ast.Tuple):
        names, ok = set(), True
        for e in expr.elts:
            n, o = _key_names(e, fn)
            names |= n
            ok = ok and o
        return names, ok
    return set(), False


def check(ck, prog, quals, rule, note=''):
    """Record obligations under `rule`; returns number of state reads found."""
    n_reads = 0
    fns = closure(prog, quals)
    for fn in fns:
        mg = mutable_globals(fn.module)
        local_stores = {n.id for n in ast.walk(fn.node) if isinstance(n, ast.Name)
                        and isinstance(n.ctx, ast.Store)}
        declared_global = {n for node in ast.walk(fn.node) if isinstance(node, ast.Global)
                           for n in node.names}
        pm = {}
        for n in ast.walk(fn.node):
            for c in ast.iter_child_nodes(n):
                pm[c] = n
        by_global = {}
        for node in ast.walk(fn.node):
            if isinstance(node, ast.Name) and isinstance(node.ctx, ast.Load) and node.id in mg \
                    and (node.id not in local_stores or node.id in declared_global) \
                    and node.id not in fn.params:
                by_global.setdefault(node.id, []).append(node)
            # function attributes used as state: f.cache[...]
            if isinstance(node, ast.Attribute) and isinstance(node.value, ast.Name) \
                    and node.value.id == fn.name and fn.cls is None:
                by_global.setdefault(fn.name + '.' + node.attr, []).append(node)
        for gname, nodes in sorted(by_global.items()):
            n_reads += len(nodes)
            params = set(p for p in fn.params if p != 'self')
            memo_ok = True
            why = ''
            for node in nodes:
                par = pm.get(node)
                key = None
                if isinstance(par, ast.Subscript) and par.value is node:
                    key = par.slice
                elif isinstance(par, ast.Compare) and node in par.comparators \
                        and isinstance(par.ops[0], (ast.In, ast.NotIn)):
                    key = par.left
                elif isinstance(par, ast.Attribute) and par.value is node and par.attr in (
                        'get', 'setdefault', 'pop') and isinstance(pm.get(par), ast.Call):
                    call = pm[par]
                    key = call.args[0] if call.args else None
                else:
                    memo_ok, why = False, 'used as %s' % ast.unparse(par)[:50]
                    break
                names, simple = _key_names(key, fn) if key is not None else (set(), False)
                if not simple or names != params:
                    memo_ok = False
                    why = ('indexed by %s, which is not a key made of all parameters %s'
                           % (ast.unparse(key) if key is not None else '?', sorted(params)))
                    break
            ck.ob(rule, '%s::state:%s' % (fn.qualname, gname), memo_ok,
                  '%s reads module-level mutable state %s (%s; %s): its result can depend on '
                  'earlier calls, not only on its arguments%s' % (
                      fn.qualname, gname, mg.get(gname, 'function attribute'), why,
                      (' - ' + note) if note else ''),
                  fn.loc(nodes[0]), key='%s::state:%s' % (fn.qualname, gname))
    ck.ob(rule, 'result-is-a-function-of-arguments[%d functions]' % len(fns), True)
    ck.saw('purity_closure', [f.qualname for f in fns])
    return n_reads
