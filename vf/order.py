"""Finite case domain: order types (weak orderings) of a small set of symbolic terms.

A function that touches its numeric inputs only through comparisons (and min/max) behaves
identically on all inputs of one order type, so enumerating the order types compatible with the
property's premises covers every totally ordered numeric input.  A case decides a comparison
`(a - b) op 0` by finding two of its terms whose difference is that normal form; anything it cannot
decide stays open, and the check then fails closed (ANALYSIS-ERROR), so the "comparison-only"
precondition is verified as a side effect.
"""
from .poly import Sym
from .interp import Cmp, Hooks, NotC, Pred, AndC, OrC
from .poly import Sym


def ordered_partitions(items):
    """All weak orderings of `items` as lists of blocks (lists), lowest block first."""
    items = list(items)
    if not items:
        yield []
        return
    first, rest = items[0], items[1:]
    for part in ordered_partitions(rest):
        # insert `first` into an existing block or as a new block at any position
        for i in range(len(part)):
            yield part[:i] + [part[i] + [first]] + part[i + 1:]
        for i in range(len(part) + 1):
            yield part[:i] + [[first]] + part[i:]


def weak_orderings(names, constraints=(), pred=None):
    """Yield rank maps name->int for all weak orderings satisfying constraints
    [(a, rel, b)] with rel in '<', '<=', '==' and the optional predicate on the rank map."""
    for part in ordered_partitions(names):
        ranks = {}
        for r, block in enumerate(part):
            for n in block:
                ranks[n] = r
        ok = True
        for a, rel, b in constraints:
            ra, rb = ranks[a], ranks[b]
            if rel == '<' and not ra < rb:
                ok = False
            elif rel == '<=' and not ra <= rb:
                ok = False
            elif rel == '==' and ra != rb:
                ok = False
            if not ok:
                break
        if ok and (pred is None or pred(ranks)):
            yield ranks


def describe(ranks):
    inv = {}
    for n, r in ranks.items():
        inv.setdefault(r, []).append(n)
    return ' < '.join('='.join(sorted(inv[r])) for r in sorted(inv))


_PAIR_TABLES = {}


def _pair_table(terms):
    """difference normal form -> (x, y) for all ordered pairs of named terms (cached per term set)."""
    key = tuple(sorted((n, t.fingerprint()) for n, t in terms.items()))
    tab = _PAIR_TABLES.get(key)
    if tab is None:
        tab = {}
        names = list(terms)
        for x in names:
            for y in names:
                if x is not y:
                    tab.setdefault(terms[x] - terms[y], (x, y))
        _PAIR_TABLES[key] = tab
    return tab


class OrderCase(Hooks):
    """Decision oracle for one order type. groups: list of (terms: name->Sym, ranks: name->int);
    comparisons are decided within a group."""

    def __init__(self, groups):
        self.groups = groups
        self.undecided = []

    def find_pair(self, d):
        for terms, ranks in self.groups:
            tab = _pair_table(terms)
            hit = tab.get(d)
            if hit is not None:
                return ranks[hit[0]], ranks[hit[1]]
        return None

    def decide(self, cond, st):
        if isinstance(cond, (NotC, AndC, OrC)):
            return None      # decomposed by the interpreter and asked again per comparison
        if isinstance(cond, Cmp) and isinstance(cond.a, Sym) and isinstance(cond.b, Sym) \
                and cond.b == Sym.const(0):
            pr = self.find_pair(cond.a)
            if pr is not None:
                rx, ry = pr
                return {'<': rx < ry, '<=': rx <= ry, '>': rx > ry, '>=': rx >= ry,
                        '==': rx == ry, '!=': rx != ry}[cond.op]
        self.undecided.append(cond)
        return None

    def resolve(self, s):
        """Resolve a Sym (possibly nested MIN/MAX of terms) to (group index, rank), or None."""
        for gi, (terms, ranks) in enumerate(self.groups):
            for n, t in terms.items():
                if t == s:
                    return gi, ranks[n]
        at = s.as_atom()
        if at is not None and at[0] == 'f' and at[1] in ('MIN', 'MAX'):
            sub = [self.resolve(a) for a in at[2]]
            if any(x is None for x in sub) or len({x[0] for x in sub}) != 1:
                return None
            pick = min if at[1] == 'MIN' else max
            return sub[0][0], pick(x[1] for x in sub)
        return None


class WitnessCase(Hooks):
    """Decision oracle given by one exact rational assignment of the base variables.  Used only
    after the order-type enumeration found comparisons against terms outside the specification's
    term set: every witness is a realisable input, so a mismatch is a genuine counterexample."""

    def __init__(self, assign):
        self.assign = assign
        self.undecided = []

    def value(self, s):
        return s.evaluate(self.assign)

    def decide(self, cond, st):
        if isinstance(cond, Cmp) and isinstance(cond.a, Sym) and isinstance(cond.b, Sym):
            try:
                d = cond.a.evaluate(self.assign) - cond.b.evaluate(self.assign)
            except (KeyError, ZeroDivisionError):
                self.undecided.append(cond)
                return None
            return {'<': d < 0, '<=': d <= 0, '>': d > 0, '>=': d >= 0, '==': d == 0,
                    '!=': d != 0}[cond.op]
        if isinstance(cond, NotC):
            inner = self.decide(cond.c, st)
            return None if inner is None else not inner
        if isinstance(cond, (AndC, OrC)):
            vals = [self.decide(x, st) for x in cond.items]
            if any(v is None for v in vals):
                return None
            return all(vals) if isinstance(cond, AndC) else any(vals)
        if isinstance(cond, Pred) and cond.name == 'isclose' and len(cond.args) == 2 and all(
                isinstance(a, Sym) for a in cond.args):
            # math.isclose(a, b) with its defaults rel_tol = 1e-09, abs_tol = 0 (a call that
            # passes other tolerances carries more arguments and is not decided here)
            from fractions import Fraction
            try:
                a, b = (x.evaluate(self.assign) for x in cond.args)
            except (KeyError, ZeroDivisionError):
                self.undecided.append(cond)
                return None
            return abs(a - b) <= Fraction(1, 10 ** 9) * max(abs(a), abs(b))
        self.undecided.append(cond)
        return None

    def resolve(self, s):
        return 0, self.value(s)


def ranks_of(terms, assign):
    """Rank map of named terms under a witness assignment."""
    vals = {n: t.evaluate(assign) for n, t in terms.items()}
    order = sorted(set(vals.values()))
    return {n: order.index(v) for n, v in vals.items()}
