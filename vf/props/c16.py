"""C16 - board-state round trips through the EBB3 layer.

  D1  int32 writer/reader agreement: var_write_int32 splits with to_bytes(4, 'big', signed=True)
      and sends byte k to slot start+k (k = 0..3, in order, each through var_write); var_read_int32
      reads slot start+k for k = 0..3 through var_read, in that order, and joins with
      int.from_bytes(<those four, in read order>, 'big', signed=True); the two parameter tuples
      are equal and equal to the property's (4, big-endian, signed, consecutive slots)
  D2  single slot: var_read converts the reply of QL,<index> with int() (templates: C06)
  D3  nickname pair: write_nickname sends "ST," + strip(name) and, only when that command
      succeeded, stores the same stripped text in self.name; query_nickname sends QT and stores
      strip(reply)
  D4  QE decoding: the decode map is {0:0} + {2^(5-v): v for v in 1..5}; motor 1 is decoded from
      the first reply field, motor 2 from the second
  D5  single-motor protocol, structural part, over every clamped request (r1,r2 in 0..5 plus
      out-of-range representatives) x every consistent prior motor state (16): CU,50,0 is sent
      iff exactly one clamped resolution is 0; iff r1==0 and r2!=0 the enable state is queried
      and the pre-setting command EM,r2,r2 is sent iff the prior global mode (motor 1's value,
      else motor 2's) differs from r2 - before the final EM,r1,r2, which is always sent; nothing
      else is sent; a failed QE aborts without further transmission
"""
import ast
import itertools

from .. import poly
from ..ebb3 import (Engine, EBB3Hooks, most_derived, public_methods, OK, PORT, is_port_call,
                    ts_of_state, classify_ret, ERR_NEW, SumInfo)
from ..interp import (Interp, Opaque, Str, Slot, Tup, DictV, Const, Cmp, IsNone, Truthy, In, NotC,
                      State, ObjRef, Effect, Bound, FuncRef, ExtRef, NONE, TRUE, FALSE, fold_cond,
                      type_of)
from ..poly import Sym
from ..model import AnalysisError
from .c06 import render, fmt_seq
from ..loops import Region, SplitNeeded, affine_in


# loops the engines summarise on purpose (retry / pause / enumeration loops are judged by the
# loop rules of this check, not by unrolling)
EXPECTED_GAPS = {('loop', '*')}

def kw(args, name):
    for a in args:
        if isinstance(a, tuple) and len(a) == 2 and a[0] == name:
            return a[1]
    return None


class BytesLoop(EBB3Hooks):
    """Unrolls `for b in x.to_bytes(n, ...)` over n abstract bytes byte#k.  Range validations are
    decided from the property's domain: a byte lies in 0..255, start_index in 0..28."""

    START = Region(0, 28)

    def interval(self, v):
        if isinstance(v, Opaque) and v.label.startswith('byte#'):
            return 0, 255
        if isinstance(v, Sym):
            af = affine_in(v, ('v', 'start_index'))
            if af is not None and af[0] >= 0:
                return af[0] * 0 + af[1], af[0] * 28 + af[1]
        return None

    def decide(self, cond, st):
        r = EBB3Hooks.decide(self, cond, st)
        if r is not None:
            return r
        if isinstance(cond, In) and isinstance(cond.container, Opaque) and \
                cond.container.label == 'range' and all(
                    isinstance(a, Sym) and a.is_const() for a in cond.container.args):
            iv = self.interval(cond.item)
            vals = [int(a.const_value()) for a in cond.container.args]
            if iv is not None and len(vals) <= 2:
                lo, hi = (0, vals[0]) if len(vals) == 1 else vals
                if lo <= iv[0] and iv[1] <= hi - 1:
                    return True
                if iv[1] < lo or iv[0] > hi - 1:
                    return False
            return None
        if isinstance(cond, Cmp) and cond.op in ('<', '<=', '>', '>=', '==', '!='):
            if isinstance(cond.a, Sym) and isinstance(cond.b, Sym) and cond.b == Sym.const(0):
                af = affine_in(cond.a, ('v', 'start_index'))
                if af is not None:
                    try:
                        return self.START.decide_cmp(cond.op, af[0], af[1])
                    except SplitNeeded:
                        return None
            a, b = cond.a, cond.b
            if isinstance(a, Opaque) and a.label.startswith('byte#') and isinstance(b, Sym) \
                    and b.is_const():
                c = b.const_value()
                lo_t = {'<': 0 < c, '<=': 0 <= c, '>': 0 > c, '>=': 0 >= c, '==': 0 == c,
                        '!=': 0 != c}[cond.op]
                hi_t = {'<': 255 < c, '<=': 255 <= c, '>': 255 > c, '>=': 255 >= c,
                        '==': 255 == c, '!=': 255 != c}[cond.op]
                if cond.op in ('==', '!='):
                    if c < 0 or c > 255:
                        return cond.op == '!='
                    return None
                return lo_t if lo_t == hi_t else None
        return None


def sent_texts(o, params):
    out = []
    for e in o.state.effects:
        if e.kind == 'summary' and e.target in ('command', 'query') and e.args[0].wrote:
            out.append((e.target, e.args[1] if len(e.args) > 1 else None))
    return out


def acked(o):
    return o.kind == 'return' and not any(
        e.kind == 'summary' and e.args[0].err_set for e in o.state.effects)


# ---------------------------------------------------------------------------- D1
class ReaderHooks(EBB3Hooks):
    """var_read answers the k-th call with a symbolic byte b<k> (0..255); the slot asked for is
    recorded.  Lets a hand-written big-endian join be evaluated as a normal form."""

    def __init__(self, engine):
        EBB3Hooks.__init__(self, engine, inject=False, exclude='var_read_int32')
        self.k = 0

    def call(self, interp, target, args, kwargs, st, node):
        if isinstance(target, Bound) and isinstance(target.obj, ObjRef) and target.name == 'var_read':
            k = sum(1 for e in st.effects if e.kind == 'summary' and e.target == 'query')
            info = SumInfo('num', False, True, True, None)
            slot = args[0] if args else kwargs.get('index')
            s2 = st.effect(Effect('summary', 'query', (info, Str(('QL,', Slot(slot)))), node.lineno,
                                  interp.cur.qualname))
            return [(Sym.var('b%d' % k), s2)]
        return EBB3Hooks.call(self, interp, target, args, kwargs, st, node)


def reader_by_witness(ck, eng, rfn, start):
    """The reader does not end in int.from_bytes: interpret it with symbolic bytes and compare the
    returned normal form with the signed big-endian value on a grid of byte patterns."""
    import itertools
    hk = ReaderHooks(eng)
    poly.INT_VARS.update(['b0', 'b1', 'b2', 'b3'])
    outs = [o for o in eng.run('var_read_int32', OK, hooks=hk) if o.kind == 'return']
    rq = rfn.qualname
    if not outs:
        raise AnalysisError('%s: no returning path with symbolic bytes' % rq)
    vals = [0, 1, 2, 127, 128, 129, 254, 255]
    n = 0
    from . import motion
    for o in outs:
        slots = [e.args[1].parts[1].value for e in o.state.effects
                 if e.kind == 'summary' and e.target == 'query']
        if not (len(slots) == 4 and all(isinstance(x, Sym) and x == start + k
                                        for k, x in enumerate(slots))):
            ck.ob('C16-D1-reader-slots', rq, False,
                  '%s reads slots %s; expected start_index+k for k=0..3, in order'
                  % (rq, [repr(x) for x in slots]), rfn.loc(), key=rq + '::slots')
            return
        if not isinstance(o.value, Sym):
            raise AnalysisError('%s returns %r, which cannot be evaluated' % (rq, o.value))
    ck.ob('C16-D1-reader-slots', rq, True)
    for bs in itertools.product(vals, repeat=4):
        pt = {'b%d' % k: b for k, b in enumerate(bs)}
        pt['start_index'] = 3
        want = int.from_bytes(bytes(bs), 'big', signed=True)
        for o in outs:
            try:
                conds = [motion.norm_path_cond(c, t) for c, t in o.state.path]
                if any(c is None for c in conds):
                    raise KeyError('non-numeric condition')
                if not all(motion._holds(e.evaluate(pt), op) for e, op in conds):
                    continue
                got = o.value.evaluate(pt)
            except (KeyError, ZeroDivisionError, TypeError) as exc:
                raise AnalysisError('%s: the join cannot be evaluated (%s)' % (rq, exc))
            n += 1
            if got != want:
                ck.ob('C16-D1-reader-encoding', rq, False,
                      '%s joins the bytes %s to %s; the signed big-endian value is %s'
                      % (rq, list(bs), got, want), rfn.loc(), key=rq + '::encoding')
                return
    raise AnalysisError('%s does not end in int.from_bytes(...); its hand-written join agrees with '
                        'the signed big-endian value on all %d sampled byte patterns; cannot '
                        'conclude' % (rq, n))


def check_int32(ck, eng):
    wfn = eng.method('var_write_int32')
    rfn = eng.method('var_read_int32')
    if wfn.params[1:] != ['value', 'start_index'] or rfn.params[1:] != ['start_index']:
        raise AnalysisError('var_*_int32 signature changed')
    start = Sym.var('start_index')
    # ---- writer
    hk = BytesLoop(eng, inject=False, exclude='var_write_int32')
    outs = [o for o in eng.run('var_write_int32', OK, hooks=hk) if acked(o)]
    wq = wfn.qualname
    if not outs:
        raise AnalysisError('%s: no acknowledged path found' % wq)
    wtuple = None
    for o in outs:
        rows = []
        conv = None
        for kind, text in sent_texts(o, wfn.params[1:]):
            if kind != 'command' or not isinstance(text, Str):
                rows.append(('?', None, None))
                continue
            parts = list(text.parts)
            if len(parts) == 4 and parts[0] == 'SL,' and parts[2] == ',' and \
                    isinstance(parts[1], Slot) and isinstance(parts[3], Slot):
                b, slot = parts[1].value, parts[3].value
                if isinstance(b, Opaque) and b.label.startswith('byte#'):
                    conv = b.args[0]
                    rows.append(('SL', int(b.label[5:]), slot))
                    continue
            rows.append(('?', render(text, wfn.params[1:]), None))
        ck.saw('int32_writer', [(r[0], r[1], repr(r[2])) for r in rows])
        ok_rows = len(rows) == 4 and all(
            r[0] == 'SL' and r[1] == k and isinstance(r[2], Sym) and r[2] == start + k
            for k, r in enumerate(rows))
        ck.ob('C16-D1-writer-slots', wq, ok_rows,
              '%s sends %s on a path where every command was acknowledged; expected byte k of the '
              '4-byte split to slot start_index+k for k=0..3, in order (for every byte value '
              '0..255 and start_index 0..28)' % (wq, [(r[0], r[1], repr(r[2])) for r in rows]),
              wfn.loc(), key=wq + '::slots')
        ck.ob('C16-D1-writer-reports-success', wq, classify_ret(o.value) == 'true',
              '%s returns a %s value although every command was acknowledged'
              % (wq, classify_ret(o.value)), wfn.loc(), key=wq + '::return')
        if conv is not None:
            n = conv.args[1]
            order = kw(conv.args, 'byteorder') or (conv.args[2] if len(conv.args) > 2 and not isinstance(conv.args[2], tuple) else None)
            signed = kw(conv.args, 'signed')
            wtuple = (int(n.const_value()) if isinstance(n, Sym) and n.is_const() else None,
                      order.text() if isinstance(order, Str) and order.is_lit() else None,
                      signed == TRUE, conv.args[0] == Sym.var('value'))
    ck.ob('C16-D1-writer-encoding', wq, wtuple == (4, 'big', True, True),
          '%s splits the value as (bytes, byteorder, signed, of-the-argument) = %s; the property '
          'says four big-endian bytes of the signed 32-bit value' % (wq, wtuple), wfn.loc(),
          key=wq + '::encoding')
    # ---- reader
    outs = [o for o in eng.run('var_read_int32', OK, inject=False) if acked(o)]
    rq = rfn.qualname
    rtuple, read_slots, joined = None, None, None
    for o in outs:
        qs = [(k, t) for k, t in sent_texts(o, rfn.params[1:])]
        slots = []
        for kind, text in qs:
            parts = list(text.parts) if isinstance(text, Str) else []
            if kind == 'query' and len(parts) == 2 and parts[0] == 'QL,' and isinstance(parts[1], Slot):
                slots.append(parts[1].value)
            else:
                slots.append(None)
        read_slots = slots
        v = o.value
        if isinstance(v, Opaque) and v.label == 'int.from_bytes' and v.args:
            seq = v.args[0]
            order = kw(v.args, 'byteorder') or (v.args[1] if len(v.args) > 1 and not isinstance(v.args[1], tuple) else None)
            signed = kw(v.args, 'signed')
            rtuple = (len(seq.items) if isinstance(seq, Tup) else None,
                      order.text() if isinstance(order, Str) and order.is_lit() else None,
                      signed == TRUE)
            # element k must be int(result of the k-th query)
            joined = []
            if isinstance(seq, Tup):
                for it in seq.items:
                    src = it
                    if isinstance(src, Opaque) and src.label == 'int' and src.args:
                        src = src.args[0]
                    joined.append(src.label if isinstance(src, Opaque) else repr(src))
    ck.saw('int32_reader', {'slots': [repr(s) for s in (read_slots or [])], 'join': rtuple,
                            'joined_from': joined})
    ok_slots = read_slots is not None and len(read_slots) == 4 and all(
        isinstance(s, Sym) and s == start + k for k, s in enumerate(read_slots))
    ck.ob('C16-D1-reader-slots', rq, ok_slots,
          '%s reads slots %s; expected start_index+k for k=0..3, in order'
          % (rq, [repr(s) for s in (read_slots or [])]), rfn.loc(), key=rq + '::slots')
    if rtuple is None:
        reader_by_witness(ck, eng, rfn, start)
        return
    ck.ob('C16-D1-reader-encoding', rq, rtuple == (4, 'big', True),
          '%s joins (count, byteorder, signed) = %s; expected (4, big, True)' % (rq, rtuple),
          rfn.loc(), key=rq + '::encoding')
    in_order = joined is not None and len(joined) == 4 and len(set(joined)) == 4 and \
        joined == sorted(joined, key=lambda l: int(l.rsplit('#', 1)[1]) if '#' in l else -1) and \
        all(l.startswith('result:query#') for l in joined)
    ck.ob('C16-D1-reader-order', rq, in_order,
          '%s does not join the four values in the order they were read (joined from %s)'
          % (rq, joined), rfn.loc(), key=rq + '::join-order')
    ck.ob('C16-D1-agreement', 'var_write_int32 <-> var_read_int32',
          wtuple is not None and rtuple is not None and wtuple[:3] == rtuple,
          'writer %s and reader %s disagree on (bytes, byteorder, signed)' % (wtuple, rtuple),
          wfn.loc(), key='int32::writer-reader-agreement')
    # failure value of the reader / writer is decided under C05-D6


# ---------------------------------------------------------------------------- D2
def check_var_read(ck, eng):
    fn = eng.method('var_read')
    outs = [o for o in eng.run('var_read', OK, inject=False) if acked(o)]
    ok = bool(outs)
    for o in outs:
        v = o.value
        if not (isinstance(v, Opaque) and v.label == 'int' and len(v.args) == 1 and
                isinstance(v.args[0], Opaque) and v.args[0].label.startswith('result:query')):
            ok = False
    ck.ob('C16-D2-var-read', fn.qualname, ok,
          '%s does not return int(<reply of its QL query>) on success' % fn.qualname, fn.loc(),
          key=fn.qualname + '::conversion')


# ---------------------------------------------------------------------------- D3
def check_nickname(ck, eng):
    wfn = eng.method('write_nickname')
    p = wfn.params[1]
    nick = Opaque('param:' + p, (), 'str')
    stripped = Opaque('m:strip', (nick,), 'str')
    outs = eng.run('write_nickname', OK, overrides={p: nick}, inject=False)
    q = wfn.qualname
    n_ok = 0
    for o in outs:
        if o.kind != 'return':
            continue
        texts = sent_texts(o, wfn.params[1:])
        name_after = o.state.fields.get(('self', 'name'))
        ok_cmd = any(e.kind == 'summary' and e.target == 'command' and not e.args[0].err_set
                     and e.args[0].wrote for e in o.state.effects)
        if not texts:
            continue
        text = texts[0][1]
        want_full = Str(('ST,', Slot(stripped)))
        good_text = len(texts) == 1 and texts[0][0] == 'command' and text in (want_full, Str.lit('ST,'))
        ck.ob('C16-D3-nickname-write', q, good_text,
              '%s sends %s; expected "ST," followed by the trimmed nickname'
              % (q, [render(t, wfn.params[1:]) for _, t in texts]), wfn.loc(), key=q + '::text')
        if ok_cmd:
            n_ok += 1
            sent_name = stripped if text == want_full else Str(())
            ck.ob('C16-D3-nickname-stored', q, name_after in (sent_name, Str.lit('')) and (
                name_after == sent_name or sent_name == Str(())),
                '%s stores %r in self.name after sending %s: the stored name must be the text '
                'that was written' % (q, name_after, render(text, wfn.params[1:])), wfn.loc(),
                key=q + '::stored')
        else:
            ck.ob('C16-D3-nickname-stored', q + '[failed]', name_after is None or
                  isinstance(name_after, Opaque) and name_after.label == 'self.name',
                  '%s updates self.name although the ST command failed' % q, wfn.loc(),
                  key=q + '::stored-on-failure')
    ck.floor('write_nickname success paths', n_ok, 1)
    rfn = eng.method('query_nickname')
    outs = eng.run('query_nickname', OK, inject=False)
    rq = rfn.qualname
    n = 0
    for o in outs:
        if not acked(o):
            continue
        texts = sent_texts(o, [])
        ck.ob('C16-D3-nickname-read', rq, len(texts) == 1 and texts[0] == ('query', Str.lit('QT')),
              '%s sends %s; expected the QT query' % (rq, [render(t, []) for _, t in texts]),
              rfn.loc(), key=rq + '::text')
        name_after = o.state.fields.get(('self', 'name'))
        if name_after is not None:
            n += 1
            good = isinstance(name_after, Opaque) and name_after.label == 'm:strip' and \
                isinstance(name_after.args[0], Opaque) and \
                name_after.args[0].label.startswith('result:query')
            ck.ob('C16-D3-nickname-read-stored', rq, good,
                  '%s stores %r; expected the trimmed reply of QT' % (rq, name_after), rfn.loc(),
                  key=rq + '::stored')
    ck.floor('query_nickname storing paths', n, 1)


# ---------------------------------------------------------------------------- D4
def check_decode_map(ck, eng, prefix='C16-D4'):
    fn = eng.method('motors_query_enabled')
    q = fn.qualname
    want = {0: 0}
    for v in range(1, 6):
        want[2 ** (5 - v)] = v
    got = None
    # the table the returned values are looked up in (a local literal, a class or module constant)
    probe = [o for o in eng.run('motors_query_enabled', OK, inject=False) if acked(o)]
    for o in probe:
        v = o.value
        if isinstance(v, Tup):
            for it in v.items:
                if isinstance(it, Opaque) and it.label == 'item' and isinstance(it.args[0], DictV):
                    try:
                        got = {int(k.const_value()): int(x.const_value())
                               for k, x in it.args[0].items}
                    except (AttributeError, TypeError, ValueError):
                        got = None
    if got is None:
        raise AnalysisError('%s: no constant decode table found in the returned values' % q)
    ck.ob(prefix + '-decode-map', q, got == want,
          '%s decodes QE values with %s; QE reports the microstep divisor (16,8,4,2,1) and EM '
          'takes 1..5, so the map must be %s' % (q, got, want), fn.loc(), key=q + '::map')
    outs = [o for o in eng.run('motors_query_enabled', OK, inject=False) if acked(o)]
    ok = bool(outs)
    for o in outs:
        v = o.value
        fields = []
        if isinstance(v, Tup) and len(v.items) == 2:
            for it in v.items:
                idx = None
                if isinstance(it, Opaque) and it.label == 'item' and isinstance(it.args[0], DictV):
                    key = it.args[1]
                    if isinstance(key, Opaque) and key.label == 'int' and \
                            isinstance(key.args[0], Opaque) and key.args[0].label == 'item':
                        src, i = key.args[0].args
                        if isinstance(src, Opaque) and src.label == 'm:split' and \
                                src.args[1:2] == (Str.lit(','),) and isinstance(i, Sym) and i.is_const():
                            idx = int(i.const_value())
                fields.append(idx)
        if fields != [0, 1]:
            ok = False
    ck.ob(prefix + '-decode-fields', q, ok,
          '%s does not return (map[int(first reply field)], map[int(second reply field)])' % q,
          fn.loc(), key=q + '::fields')


# ---------------------------------------------------------------------------- D5
class MotorCase(EBB3Hooks):
    """motors_query_enabled answers the given prior state (or fails)."""

    def __init__(self, engine, prior, fail=False):
        EBB3Hooks.__init__(self, engine, inject=False, exclude='motors_enable')
        self.prior = prior
        self.fail = fail

    def call(self, interp, target, args, kwargs, st, node):
        if isinstance(target, Bound) and isinstance(target.obj, ObjRef) and \
                target.name == 'motors_query_enabled':
            info = SumInfo('none' if self.fail else 'tuple', self.fail, True, True, None)
            s2 = st.effect(Effect('summary', 'query', (info, Str.lit('QE')), node.lineno,
                                  interp.cur.qualname))
            if self.fail:
                s2.fields[('self', 'err')] = ERR_NEW
                return [(NONE, s2)]
            return [(Tup((Sym.const(self.prior[0]), Sym.const(self.prior[1]))), s2)]
        return EBB3Hooks.call(self, interp, target, args, kwargs, st, node)


def clamp(n):
    return max(0, min(5, n))


def prior_states():
    out = [(0, 0)]
    for k in range(1, 6):
        out += [(k, 0), (0, k), (k, k)]
    return out


def protocol(c1, c2, prior):
    """Documented command sequence for clamped request (c1, c2) from prior state."""
    seq = []
    if c1 != c2 and c1 * c2 == 0:
        seq.append(('command', 'CU,50,0'))
    if c1 == 0 and c2 != 0:
        seq.append(('query', 'QE'))
        old = prior[0] if prior[0] != 0 else prior[1]
        if old != c2:
            seq.append(('command', 'EM,%d,%d' % (c2, c2)))
    seq.append(('command', 'EM,%d,%d' % (c1, c2)))
    return tuple(seq)


def check_motors_enable(ck, eng, deep=False):
    fn = eng.method('motors_enable')
    q = fn.qualname
    p1, p2 = fn.params[1:3]
    reps = list(range(-4, 11)) if deep else [-3, 0, 1, 2, 3, 4, 5, 9]
    n = 0
    for r1, r2 in itertools.product(reps, reps):
        c1, c2 = clamp(r1), clamp(r2)
        for prior in prior_states():
            if not (c1 == 0 and c2 != 0) and prior != (0, 0):
                continue      # the prior state is consulted only when enabling motor 2 alone
            hk = MotorCase(eng, prior)
            outs = eng.run('motors_enable', OK, overrides={p1: Sym.const(r1), p2: Sym.const(r2)},
                           hooks=hk)
            seqs = set()
            for o in outs:
                if not acked(o):
                    continue
                seqs.add(tuple((k, render(t, [])) for k, t in sent_texts(o, [])))
            want = protocol(c1, c2, prior)
            n += 1
            ck.ob('C16-D5-motor-protocol', '%s(%d,%d) prior=%s' % (q, r1, r2, prior),
                  seqs == {want},
                  '%s(%d, %d) with the board reporting motors %s sends %s; the single-motor '
                  'protocol requires %s' % (q, r1, r2, prior,
                                            ' | '.join(sorted(fmt_seq(s) for s in seqs)) or 'nothing',
                                            fmt_seq(want)),
                  fn.loc(), key=q + '::protocol')
    ck.floor('motor protocol cases', n, 100)
    # a failed QE aborts: nothing further is transmitted
    hk = MotorCase(eng, (0, 0), fail=True)
    outs = eng.run('motors_enable', OK, overrides={p1: Sym.const(0), p2: Sym.const(2)}, hooks=hk)
    bad = None
    for o in outs:
        if o.kind == 'raise':
            bad = 'raises %s' % o.value
            continue
        after = False
        for e in o.state.effects:
            if e.kind == 'summary' and e.args[0].err_set:
                after = True
            elif after and e.kind == 'summary' and e.args[0].wrote:
                bad = 'transmits after the failed QE query'
    ck.ob('C16-D5-failed-query-aborts', q, bad is None, '%s %s' % (q, bad), fn.loc(),
          key=q + '::failed-qe')


class Renamed:
    """Forwards obligations of a sibling rule set under this property's rule names."""

    def __init__(self, ck, mapping):
        self.ck, self.mapping = ck, mapping

    def ob(self, rule, instance, ok, detail='', loc='', key=None):
        if rule in self.mapping:
            return self.ck.ob(self.mapping[rule], instance, ok, detail, loc, key)
        return ok

    def __getattr__(self, name):
        return getattr(self.ck, name)


def check_query_payload(ck, prog, cls):
    """The read-back halves (QL, QT, QE) all go through EBB3.query: its result must be the reply
    minus the request name and one separating comma (decision table shared with C05-D4)."""
    from .c05 import check_tables
    eng = Engine(prog, cls)
    check_tables(Renamed(ck, {'C05-D4-query-result': 'C16-D2-query-payload',
                              'C05-D3-name': 'C16-D2-query-payload'}), eng, 'query')


def run(ck, prog, tier):
    ck.explanation = (
        'EBB3 variable, nickname and motor-enable methods interpreted abstractly (parsed source; '
        'nothing runs). D1 extracted writer table (to_bytes parameters; byte k -> slot start+k) '
        'and reader table (slots read, from_bytes parameters, join order) agree with each other '
        'and with (4, big, signed, consecutive). D2 var_read = int(QL reply). D3 nickname write '
        'sends ST,+strip(name) and stores exactly that on success; read stores strip(QT reply). '
        'D4 QE decode map equals {0:0} + {2^(5-v): v}, fields in order. D5 motors_enable command '
        'sequences for 64 request pairs x consistent prior states equal the documented '
        'single-motor protocol.')
    ck.trusted = ['Python ast', 'vf/interp.py', 'vf/ebb3.py', 'int.to_bytes/int.from_bytes '
                  'semantics', 'the single-motor protocol table (CU,50,0 / pre-setting EM) '
                  'transcribed from the code comments and the EBB EM documentation']
    ck.assumptions = ['that the protocol leaves the board in the stated motor states depends on '
                      'the firmware\'s EM/CU semantics (a device model) and is not decided',
                      'clamp(int(arg),0,5) identity is decided under C06-D4']
    base, cls, family = most_derived(prog)
    eng = Engine(prog, cls, inject=False)
    poly.INT_VARS.clear()
    try:
        poly.INT_VARS.update(['value', 'start_index', 'index', 'resolution_1', 'resolution_2'])
        check_int32(ck, eng)
        check_var_read(ck, eng)
        check_nickname(ck, eng)
        check_decode_map(ck, eng)
        check_motors_enable(ck, eng, tier == 'thorough')
    finally:
        poly.INT_VARS.clear()
    check_query_payload(ck, prog, cls)
    ck.extra['engine_stats'] = eng.stats
