"""C10 - Bezier subdivision refines the same curve until every piece is flat (structural part).

`subdivideCubicPath` is interpreted for ONE iteration of its loops with the index `i` symbolic and
the node list an opaque object (vf.interp; nothing runs): every way of leaving the iteration
(return, back edge of the inner scan, back edge after a split) is collected with its path
condition and its effects on the node list.

  D1  role table of the split: the piece handed to the splitter is
      (node[i-1].point, node[i-1].out, node[i].in, node[i].point) = s_p[i-1][1], s_p[i-1][2],
      s_p[i][0], s_p[i][1]; with the de Casteljau roles of the splitter's result
      one = (P0, M1, M4, M), two = (M, M5, M3, P3) (derived from the dependency's source when it
      is installed, by polynomial identity at t = 1/2), the iteration after a split stores exactly:
      node[i-1].out <- M1, node[i].in <- M3, and inserts the new node [M4, M, M5] at index i -
      nothing else, on every path that splits
  D2  the split parameter is a literal dyadic rational in (0, 1)
  D3  the insertion really inserts: slice store s_p[i:h] with h <= 1 <= i (or list.insert(i, .))
  D4  flatness post-condition, structurally: the function returns only when i >= len(s_p); i
      advances (by exactly one, with no store) only on the path where the flatness predicate held
      for the current piece with the caller's `flat` unchanged; the path after a split leaves i
      unchanged (both halves are re-tested); the flatness predicate itself has the point-to-chord
      decision table (rule shared with C09-D4)
  U   termination (metric argument over floats) and floating-point error of the midpoints
"""
import ast
import glob

from .. import poly
from ..interp import (Interp, Hooks, Outcome, Opaque, Str, Slot, Tup, Const, Cmp, IsNone, Truthy,
                      In, NotC, Pred, State, ObjRef, Effect, Bound, FuncRef, ExtRef, NONE, TRUE,
                      FALSE, fold_cond, type_of)
from ..poly import Sym
from ..model import AnalysisError, ModuleInfo, FuncInfo, Program
from .. import purity

S_P = Opaque('param:s_p', (), 'list')
FLAT = Sym.var('flat')
I = Sym.var('i')
ROLES_ONE = ('P0', 'M1', 'M4', 'M')
ROLES_TWO = ('M', 'M5', 'M3', 'P3')


def role(name, piece):
    return Opaque('role:' + name, (piece,), 'tuple')


def node_field(v):
    """(index Sym, field int) if v is s_p[index][field] else None."""
    if isinstance(v, Opaque) and v.label == 'item' and isinstance(v.args[1], Sym) and \
            v.args[1].is_const():
        inner = v.args[0]
        if isinstance(inner, Opaque) and inner.label == 'item' and inner.args[0] == S_P and \
                isinstance(inner.args[1], Sym):
            return inner.args[1], int(v.args[1].const_value())
    return None


class OneIteration(Hooks):
    """`while True:` loops are interpreted for one iteration; back edges are recorded, not
    followed."""

    def __init__(self, split_qual='ink_extensions.bezmisc.beziersplitatt'):
        self.split_qual = split_qual
        self.back = []          # (loop line, state)
        self.split_calls = []   # (piece value, t value, line)
        self.pred_calls = []    # (args, line)
        self.depth = 0

    def loop(self, interp, node, st):
        if not isinstance(node, ast.While):
            return None
        t = None
        if isinstance(node.test, ast.Constant):
            t = bool(node.test.value)
        if t is not True:
            raise AnalysisError('loop at line %d of subdivideCubicPath is not `while True`; the '
                                'one-iteration rule cannot conclude' % node.lineno)
        res = []
        for out in interp.exec_block(node.body, st):
            if out.kind in ('fall', 'continue'):
                self.back.append((node.lineno, out.state))
            elif out.kind == 'break':
                res.append(Outcome('fall', None, out.state))
            else:
                res.append(out)
        return res

    def call(self, interp, target, args, kwargs, st, node):
        if isinstance(target, FuncRef) and target.qual == 'plot_utils.points_in_tolerance':
            self.pred_calls.append((tuple(args), node.lineno))
            return [(Pred('flat-enough', tuple(args)), st.effect(
                Effect('pred', 'points_in_tolerance', tuple(args), node.lineno,
                       interp.cur.qualname)))]
        if isinstance(target, ExtRef) and target.dotted == self.split_qual:
            piece = args[0] if args else NONE
            t = args[1] if len(args) > 1 else kwargs.get('t', NONE)
            self.split_calls.append((piece, t, node.lineno))
            one = Tup(tuple(role(r, piece) for r in ROLES_ONE))
            two = Tup(tuple(role(r, piece) for r in ROLES_TWO))
            return [(Tup((one, two)), st)]
        return None


def dependency_roles(ck):
    """Verify the role table against the installed dependency's source (parsed, not imported)."""
    paths = sorted(glob.glob('/venv/lib/python*/site-packages/ink_extensions/bezmisc.py')) + \
        sorted(glob.glob('/usr/lib/python3/dist-packages/ink_extensions/bezmisc.py'))
    if not paths:
        ck.assumptions.append('ink_extensions.bezmisc not installed where the checker looks: the '
                              'de Casteljau roles one=(P0,M1,M4,M), two=(M,M5,M3,P3) of '
                              'beziersplitatt are assumed')
        return False
    src = open(paths[0], encoding='utf-8').read()
    mod = ModuleInfo('bezmisc', paths[0], 'ink_extensions/bezmisc.py', src)
    fn = mod.functions.get('beziersplitatt')
    if fn is None:
        raise AnalysisError('dependency function bezmisc.beziersplitatt not found')

    class DepProg:
        modules = {'bezmisc': mod}

        def module(self, n):
            return mod
    pts = [Tup((Sym.var('x%d' % k), Sym.var('y%d' % k))) for k in range(4)]
    outs = Interp(DepProg()).run(fn, [Tup(tuple(pts)), Sym.const(1) / 2])
    if len(outs) != 1 or outs[0].kind != 'return':
        raise AnalysisError('dependency beziersplitatt is not a single straight-line path')
    v = outs[0].value
    h = Sym.const(1) / 2

    def mid(a, b):
        return Tup((a.items[0] * h + b.items[0] * h, a.items[1] * h + b.items[1] * h))
    m1, m2, m3 = mid(pts[0], pts[1]), mid(pts[1], pts[2]), mid(pts[2], pts[3])
    m4, m5 = mid(m1, m2), mid(m2, m3)
    m = mid(m4, m5)
    want = Tup((Tup((pts[0], m1, m4, m)), Tup((m, m5, m3, pts[3]))))
    ok = repr(v) == repr(want)
    ck.ob('C10-D1-dependency-roles', 'bezmisc.beziersplitatt', ok,
          'the installed ink_extensions.bezmisc.beziersplitatt does not return '
          '((P0,M1,M4,M),(M,M5,M3,P3)) at t=1/2: %r' % (v,), 'ink_extensions/bezmisc.py',
          key='bezmisc.beziersplitatt::roles')
    return ok


def idx_form(s):
    """i + c -> c (int) if s is that affine form, else None."""
    d = s - I
    if d.is_const() and d.const_value().denominator == 1:
        return int(d.const_value())
    return None


def analyse(ck, prog):
    fn = prog.func('plot_utils.subdivideCubicPath')
    q = fn.qualname
    if fn.params[:2] != ['s_p', 'flat']:
        raise AnalysisError('subdivideCubicPath signature changed')
    d = fn.defaults().get(fn.params[2]) if len(fn.params) > 2 else None
    ck.ob('C10-D3-start-index', q, isinstance(d, ast.Constant) and d.value == 1,
          '%s: the default start index is not 1 (piece i is the one ending at node i)' % q,
          fn.loc(), key=q + '::default-i')
    hk = OneIteration()
    it = Interp(prog, hk)
    outs = it.run(fn, [], {'s_p': S_P, 'flat': FLAT, fn.params[2]: I})
    ck.saw('functions', '%s @ %s: %d exits, %d back edges in one iteration'
           % (q, fn.loc(), len(outs), len(hk.back)))
    LEN = Sym.func('LEN', Sym.var('<param:s_p>'))
    # ---- exits: return only when i >= len(s_p)
    n_ret = 0
    for o in outs:
        if o.kind == 'raise':
            ck.ob('C10-D4-exits', q, False, '%s raises %s' % (q, o.value), fn.loc(), key=q + '::raises')
            continue
        n_ret += 1
        conds = [(c, t) for c, t in o.state.path if isinstance(c, Cmp)]
        ok = any(isinstance(c.a, Sym) and c.op == '>=' and t and c.a == I - LEN or
                 (c.op == '<' and not t and c.a == I - LEN) for c, t in conds)
        stores = [e for e in o.state.effects if e.kind in ('store', 'del') or
                  (e.kind == 'call' and isinstance(e.target, Bound))]
        ck.ob('C10-D4-returns-at-end', q, ok and not stores and not any(
            e.kind == 'pred' for e in o.state.effects),
            '%s returns on a path that does not establish i >= len(s_p) (or after touching the '
            'list): pieces after index i are left untested' % q, fn.loc(), key=q + '::early-return')
    ck.floor('return paths', n_ret, 1)

    # ---- back edges
    n_adv = n_split = 0
    for line, st in hk.back:
        i_after = st.env.get(fn.params[2])
        stores = [e for e in st.effects if e.kind in ('store', 'del') or
                  (e.kind == 'call' and isinstance(e.target, Bound) and e.target.obj == S_P)]
        preds = [e for e in st.effects if e.kind == 'pred']
        pred_truth = [(c, t) for c, t in st.path if isinstance(c, Pred) and c.name == 'flat-enough'] + \
                     [(c.c, not t) for c, t in st.path if isinstance(c, NotC) and isinstance(c.c, Pred)]
        split = bool(stores)
        if not split:
            n_adv += 1
            ok = isinstance(i_after, Sym) and i_after == I + 1 and len(pred_truth) == 1 and \
                pred_truth[0][1] is True
            ck.ob('C10-D4-advance-only-when-flat', '%s::advance@%d' % (q, line), ok,
                  '%s moves on (i -> %s) on a path where the flatness predicate %s: a piece is '
                  'accepted without having been found flat' % (
                      q, i_after, 'was not consulted' if not pred_truth else
                      'held %s' % [t for _, t in pred_truth]), fn.loc(),
                  key=q + '::advance')
            continue
        n_split += 1
        # D4: after a split i is unchanged and the split happened because the piece was not flat
        ck.ob('C10-D4-split-retests', '%s::split@%d' % (q, line),
              isinstance(i_after, Sym) and i_after == I,
              '%s continues with i = %s after splitting piece i: both halves must be re-tested '
              'from the same index' % (q, i_after), fn.loc(), key=q + '::split-advances')
        ck.ob('C10-D4-split-only-when-not-flat', '%s::split@%d' % (q, line),
              len(pred_truth) == 1 and pred_truth[0][1] is False,
              '%s splits on a path where the flatness predicate was %s (expected: consulted '
              'once, with the caller\'s tolerance, and false)' % (
                  q, [t for _, t in pred_truth] or 'not consulted'), fn.loc(),
              key=q + '::split-condition')
        # D1: stores
        piece = hk.split_calls[-1][0] if hk.split_calls else None
        found = {'out': None, 'in': None, 'insert': None, 'other': []}
        for e in stores:
            if e.kind == 'store' and isinstance(e.target, tuple) and e.target[0] == 'item':
                obj, idx = e.target[1], e.target[2]
                val = e.args[0]
                if obj == S_P and isinstance(idx, tuple) and idx and idx[0] == 'slice':
                    found['insert'] = ('slice', idx[1], idx[2], idx[3], val)
                    continue
                if isinstance(obj, Opaque) and obj.label == 'item' and obj.args[0] == S_P and \
                        isinstance(obj.args[1], Sym) and isinstance(idx, Sym) and idx.is_const():
                    node_off = idx_form(obj.args[1])
                    fld = int(idx.const_value())
                    if (node_off, fld) == (-1, 2) and found['out'] is None:
                        found['out'] = val
                        continue
                    if (node_off, fld) == (0, 0) and found['in'] is None:
                        found['in'] = val
                        continue
                found['other'].append('s_p%s at line %d' % (repr(idx), e.line))
            elif e.kind == 'call' and e.target.name == 'insert' and len(e.args) == 2:
                found['insert'] = ('insert', e.args[0], None, None, Tup((e.args[1],), 'list'))
            else:
                found['other'].append('%s at line %d' % (e.kind, e.line))
        where = '%s::split@%d' % (q, line)

        def is_role(v, name):
            return isinstance(v, Opaque) and v.label == 'role:' + name and v.args == (piece,)
        ck.ob('C10-D1-out-handle', where, is_role(found['out'], 'M1'),
              '%s: after a split the out-handle of node i-1 (s_p[i-1][2]) is set to %r; it must '
              'become M1, the first inner control point of the first half (one[1])'
              % (q, found['out']), fn.loc(), key=q + '::out-handle')
        ck.ob('C10-D1-in-handle', where, is_role(found['in'], 'M3'),
              '%s: after a split the in-handle of node i (s_p[i][0]) is set to %r; it must become '
              'M3, the last inner control point of the second half (two[2])' % (q, found['in']),
              fn.loc(), key=q + '::in-handle')
        ins = found['insert']
        ok_node = False
        if ins is not None and isinstance(ins[4], Tup) and len(ins[4].items) == 1 and \
                isinstance(ins[4].items[0], Tup) and len(ins[4].items[0].items) == 3:
            a, b, c = ins[4].items[0].items
            ok_node = is_role(a, 'M4') and is_role(b, 'M') and is_role(c, 'M5')
        ck.ob('C10-D1-inserted-node', where, ok_node,
              '%s: the node inserted by a split is %r; it must be [M4, M, M5] = [one[2], one[3] '
              '(= two[0]), two[1]] - the curve point at the split parameter with its two new '
              'handles' % (q, ins[4] if ins else None), fn.loc(), key=q + '::inserted-node')
        ok_pos = False
        if ins is not None:
            if ins[0] == 'slice':
                lo, hi, step = ins[1], ins[2], ins[3]
                ok_pos = isinstance(lo, Sym) and lo == I and step == NONE and isinstance(hi, Sym) \
                    and hi.is_const() and hi.const_value() <= 1
                if isinstance(hi, Sym) and hi == I:
                    ok_pos = isinstance(lo, Sym) and lo == I
            else:
                ok_pos = isinstance(ins[1], Sym) and ins[1] == I
        ck.ob('C10-D3-insertion', where, ok_pos,
              '%s: the new node is stored with %s; it must be inserted at index i without '
              'overwriting a node (s_p[i:h] with h <= 1 <= i, s_p[i:i], or insert(i, .))'
              % (q, ins[:4] if ins else 'no insertion'), fn.loc(), key=q + '::insertion')
        ck.ob('C10-D1-nothing-else-stored', where, not found['other'],
              '%s: a split also modifies %s; original nodes and outer handles must survive'
              % (q, found['other']), fn.loc(), key=q + '::other-stores')
    ck.floor('advance back edges', n_adv, 1)
    ck.floor('split back edges', n_split, 1)

    # ---- the piece and the predicate / split arguments
    want_piece = Tup(tuple(Opaque('item', (Opaque('item', (S_P, I + off)), Sym.const(f)))
                           for off, f in ((-1, 1), (-1, 2), (0, 0), (0, 1))))
    for args, line in hk.pred_calls:
        ok = len(args) == 2 and args[0] == want_piece and args[1] == FLAT
        ck.ob('C10-D4-predicate-call', '%s::pred@%d' % (q, line), ok,
              '%s calls the flatness predicate with %r: it must receive the current piece '
              '(s_p[i-1][1], s_p[i-1][2], s_p[i][0], s_p[i][1]) and the caller\'s flatness '
              'unchanged' % (q, args), fn.loc(), key=q + '::predicate-call')
    for piece, t, line in hk.split_calls:
        ck.ob('C10-D1-piece', '%s::split@%d' % (q, line), piece == want_piece,
              '%s splits %r; the piece ending at node i is (s_p[i-1][1], s_p[i-1][2], s_p[i][0], '
              's_p[i][1])' % (q, piece), fn.loc(), key=q + '::piece')
        dyadic = isinstance(t, Sym) and t.is_const() and 0 < t.const_value() < 1 and \
            (t.const_value().denominator & (t.const_value().denominator - 1)) == 0
        ck.ob('C10-D2-dyadic', '%s::split@%d' % (q, line), dyadic,
              '%s splits at parameter %s; pieces must be restrictions to dyadic parameter '
              'intervals (k/2^m, 0 < t < 1)' % (q, t), fn.loc(), key=q + '::dyadic')
        half = isinstance(t, Sym) and t.is_const() and t.const_value() * 2 == 1
        ck.ob('C10-D2-role-parameter', '%s::split@%d' % (q, line), half,
              '%s splits at %s; the role table (M4, M, M5 on the curve, M1/M3 as new outer '
              'handles) was established for t = 1/2 only' % (q, t), fn.loc(), key=q + '::half')
    ck.floor('predicate calls', len(hk.pred_calls), 1)
    ck.floor('split calls', len(hk.split_calls), 1)


class Renamed:
    def __init__(self, ck, mapping):
        self.ck, self.mapping = ck, mapping

    def ob(self, rule, instance, ok, detail='', loc='', key=None):
        return self.ck.ob(self.mapping.get(rule, rule), instance, ok, detail, loc, key)

    def __getattr__(self, name):
        return getattr(self.ck, name)


def run(ck, prog, tier):
    ck.explanation = (
        'subdivideCubicPath interpreted for one iteration of its loops with symbolic index i and '
        'an opaque node list: all exits and back edges with path conditions and list effects. '
        'D1 the split stores exactly node[i-1].out <- M1, node[i].in <- M3 and inserts [M4,M,M5] '
        'at i (roles of beziersplitatt verified against the installed dependency source by '
        'polynomial identity at t=1/2); D2 dyadic literal parameter; D3 the slice store inserts; '
        'D4 return only at i >= len, advance by one only when the predicate held for the current '
        'piece with the caller\'s flatness, i unchanged after a split; the flatness predicate has '
        'the point-to-chord decision table (shared with C09-D4).')
    ck.trusted = ['Python ast', 'vf/interp.py', 'list slice-assignment semantics',
                  'ink_extensions.bezmisc.beziersplitatt (roles checked from its source when '
                  'installed)']
    ck.assumptions = ['termination: halving shrinks the control-polygon deviation for finite '
                      'floats and flat*flat > 0 (metric fact, not structural; flat below ~1e-162 '
                      'underflows and never terminates - observation, see DESIGN.md)',
                      'floating-point error of the midpoints']
    dependency_roles(ck)
    analyse(ck, prog)
    from .c09 import check_predicate
    check_predicate(Renamed(ck, {'C09-D4-predicate': 'C10-D4-flatness-predicate'}), prog,
                    prog.func('plot_utils.points_in_tolerance'))
    purity.check(ck, prog, ['plot_utils.subdivideCubicPath', 'plot_utils.points_in_tolerance'],
                 'C10-R-pure')
