"""C10 - Bezier subdivision refines the same curve until every piece is flat (structural part).

`subdivideCubicPath` is interpreted for ONE iteration of its loops with the index `i` symbolic and
the node list an opaque object (vf.interp; nothing runs): every way of leaving the iteration
(return, back edge of the inner scan, back edge after a split) is collected with its path
condition and its effects on the node list.

  D1  role table of the split: the piece handed to the splitter is
      (node[i-1].point, node[i-1].out, node[i].in, node[i].point) = s_p[i-1][1], s_p[i-1][2],
      s_p[i][0], s_p[i][1]; with the de Casteljau roles of the splitter's result
      one = (P0, M1, M4, M), two = (M, M5, M3, P3) (derived from the dependency's source when it
      is installed, by polynomial identity at t = 1/2), the iteration after a split stores exactly:
      node[i-1].out <- M1, node[i].in <- M3, and inserts the new node [M4, M, M5] at index i -
      nothing else, on every path that splits
  D2  the split parameter is a literal dyadic rational in (0, 1)
  D3  the insertion really inserts: slice store s_p[i:h] with h <= 1 <= i (or list.insert(i, .))
  D4  flatness post-condition, structurally: the function returns only when i >= len(s_p); i
      advances (by exactly one, with no store) only on the path where the flatness predicate held
      for the current piece with the caller's `flat` unchanged; the path after a split leaves i
      unchanged (both halves are re-tested); the flatness predicate itself has the point-to-chord
      decision table (rule shared with C09-D4)
  U   termination (metric argument over floats) and floating-point error of the midpoints
"""
import ast
import glob
import re

from .. import poly
from ..interp import (Interp, Hooks, Outcome, Opaque, Str, Slot, Tup, Const, Cmp, IsNone, Truthy,
                      In, NotC, Pred, State, ObjRef, Effect, Bound, FuncRef, ExtRef, NONE, TRUE,
                      FALSE, fold_cond, type_of)
from ..poly import Sym
from ..model import AnalysisError, ModuleInfo, FuncInfo, Program
from .. import purity
from ..cutpoints import CutHooks, CutPoints, Versioned, Segment, labels_of, map_value

SPV = Versioned('param:s_p')
S_P = SPV.at(0)
FLAT = Sym.var('flat')
I = Sym.var('i')
ROLES_ONE = ('P0', 'M1', 'M4', 'M')
ROLES_TWO = ('M', 'M5', 'M3', 'P3')


def role(name, piece):
    return Opaque('role:' + name, (piece,), 'tuple')


def node_field(v):
    """(index Sym, field int) if v is s_p[index][field] else None."""
    if isinstance(v, Opaque) and v.label == 'item' and isinstance(v.args[1], Sym) and \
            v.args[1].is_const():
        inner = v.args[0]
        if isinstance(inner, Opaque) and inner.label == 'item' and inner.args[0] == S_P and \
                isinstance(inner.args[1], Sym):
            return inner.args[1], int(v.args[1].const_value())
    return None


class C10Hooks(CutHooks):
    """Cut-point hooks for subdivideCubicPath: the flatness predicate is an uninterpreted
    predicate, the de Casteljau split returns role-labelled points, and every store through the
    node list starts a new version of it (so a piece read before a store is not mistaken for the
    piece after it)."""

    def __init__(self, fn, split_qual='ink_extensions.bezmisc.beziersplitatt'):
        super().__init__(fn, [SPV])
        self.split_qual = split_qual
        self.n_pred = 0
        self.n_split = 0

    def sequence_items(self, v):
        """A node of the path is the record [in-handle, point, out-handle]: slices of it with
        literal bounds have known elements."""
        node = v
        lo = hi = None
        if v.label == 'slice' and len(v.args) == 4 and v.args[3] == NONE and all(
                x == NONE or (isinstance(x, Sym) and x.is_const() and
                              x.const_value().denominator == 1) for x in v.args[1:3]):
            node = v.args[0]
            lo = None if v.args[1] == NONE else int(v.args[1].const_value())
            hi = None if v.args[2] == NONE else int(v.args[2].const_value())
        elif v.label != 'item':
            return None
        if not (isinstance(node, Opaque) and node.label == 'item' and
                SPV.version_of(node.args[0]) is not None):
            return None
        return [Opaque('item', (node, Sym.const(k))) for k in range(3)][lo:hi]

    def call(self, interp, target, args, kwargs, st, node):
        if isinstance(target, FuncRef) and target.qual == 'plot_utils.points_in_tolerance':
            self.n_pred += 1
            if kwargs:
                args = list(interp.bind_positional(target.fn, args, kwargs))
            return [(Pred('flat-enough', tuple(args)), st.effect(
                Effect('pred', 'points_in_tolerance', tuple(args), node.lineno,
                       interp.cur.qualname)))]
        if isinstance(target, ExtRef) and target.dotted == self.split_qual:
            self.n_split += 1
            piece = args[0] if args else kwargs.get('xy', NONE)
            t = args[1] if len(args) > 1 else kwargs.get('t', NONE)
            one = Tup(tuple(role(r, piece) for r in ROLES_ONE))
            two = Tup(tuple(role(r, piece) for r in ROLES_TWO))
            return [(Tup((one, two)), st.effect(Effect('split', 'beziersplitatt', (piece, t),
                                                       node.lineno, interp.cur.qualname)))]
        return self.mutating_call(interp, target, args, st, node)


def dependency_roles(ck):
    """Verify the role table against the installed dependency's source (parsed, not imported)."""
    paths = sorted(glob.glob('/venv/lib/python*/site-packages/ink_extensions/bezmisc.py')) + \
        sorted(glob.glob('/usr/lib/python3/dist-packages/ink_extensions/bezmisc.py'))
    if not paths:
        ck.assumptions.append('ink_extensions.bezmisc not installed where the checker looks: the '
                              'de Casteljau roles one=(P0,M1,M4,M), two=(M,M5,M3,P3) of '
                              'beziersplitatt are assumed')
        return False
    src = open(paths[0], encoding='utf-8').read()
    mod = ModuleInfo('bezmisc', paths[0], 'ink_extensions/bezmisc.py', src)
    fn = mod.functions.get('beziersplitatt')
    if fn is None:
        raise AnalysisError('dependency function bezmisc.beziersplitatt not found')

    class DepProg:
        modules = {'bezmisc': mod}

        def module(self, n):
            return mod
    pts = [Tup((Sym.var('x%d' % k), Sym.var('y%d' % k))) for k in range(4)]
    outs = Interp(DepProg()).run(fn, [Tup(tuple(pts)), Sym.const(1) / 2])
    if len(outs) != 1 or outs[0].kind != 'return':
        raise AnalysisError('dependency beziersplitatt is not a single straight-line path')
    v = outs[0].value
    h = Sym.const(1) / 2

    def mid(a, b):
        return Tup((a.items[0] * h + b.items[0] * h, a.items[1] * h + b.items[1] * h))
    m1, m2, m3 = mid(pts[0], pts[1]), mid(pts[1], pts[2]), mid(pts[2], pts[3])
    m4, m5 = mid(m1, m2), mid(m2, m3)
    m = mid(m4, m5)
    want = Tup((Tup((pts[0], m1, m4, m)), Tup((m, m5, m3, pts[3]))))
    ok = repr(v) == repr(want)
    ck.ob('C10-D1-dependency-roles', 'bezmisc.beziersplitatt', ok,
          'the installed ink_extensions.bezmisc.beziersplitatt does not return '
          '((P0,M1,M4,M),(M,M5,M3,P3)) at t=1/2: %r' % (v,), 'ink_extensions/bezmisc.py',
          key='bezmisc.beziersplitatt::roles')
    return ok


def idx_form(s):
    """i + c -> c (int) if s is that affine form, else None."""
    d = s - I
    if d.is_const() and d.const_value().denominator == 1:
        return int(d.const_value())
    return None


def want_piece_at(sp, i):
    return Tup(tuple(Opaque('item', (Opaque('item', (sp, i + off)), Sym.const(f)))
                     for off, f in ((-1, 1), (-1, 2), (0, 0), (0, 1))))


def len_of(sp):
    from ..interp import _wrap
    return Sym.func('LEN', _wrap(sp))


def shift_index(v, k):
    """Express a value computed with index symbol i in terms of the new index i' = i + k."""
    if k == 0:
        return v
    stale = []

    def f_var(name):
        if name == 'i':
            return I - k
        if re.search(r'(?<![\w.])i(?![\w(])', name):
            stale.append(name)
            return Sym.var('<stale:%s>' % name)
        return None
    return map_value(v, lambda l: l, f_var)


def flat_domain_excluded(path):
    """True if a path condition that only mentions `flat` is false for every positive flatness
    sampled (the path lies outside the property's domain flat > 0)."""
    from fractions import Fraction
    for c, t in path:
        if isinstance(c, Cmp) and isinstance(c.a, Sym) and isinstance(c.b, Sym):
            d = c.a - c.b
            names = {a[1] for a in d.all_atoms() if a[0] == 'v'}
            if names != {'flat'} or any(a[0] == 'f' for a in d.all_atoms()):
                continue
            holds = []
            for val in (Fraction(1, 10 ** 9), Fraction(1, 100), 1, 7, 10 ** 9):
                try:
                    x = d.evaluate({'flat': Fraction(val)})
                except Exception:
                    holds = [True]
                    break
                r = {'<': x < 0, '<=': x <= 0, '>': x > 0, '>=': x >= 0, '==': x == 0,
                     '!=': x != 0}[c.op]
                holds.append(r == t)
            if not any(holds):
                return True
    return False


class SegmentJudge:
    """Obligations of C10-D1..D4 on one segment (start: a cut point with index I and list version
    0; end: a cut point or an exit)."""

    def __init__(self, ck, fn, iname):
        self.ck, self.fn, self.q, self.iname = ck, fn, fn.qualname, iname
        self.n_adv = self.n_split = self.n_ret = 0
        self.undecided = []

    def ob(self, rule, where, ok, detail, key, involved=()):
        """A failed obligation that rests on a stale (pre-store or loop-carried but not
        re-established) value is not a verdict: the rule cannot conclude."""
        if not ok and any(SPV.is_stale(v) for v in involved):
            self.undecided.append('%s at %s: %s' % (rule, where, detail))
            return
        self.ck.ob(rule, where, ok, detail, self.fn.loc(), key=key)

    def judge(self, seg, src_name):
        q, st = self.q, seg.state
        where = '%s::%s->%s' % (q, src_name, seg.kind if seg.kind != 'arrive'
                                else 'loop@%d' % seg.dest.lineno)
        if seg.kind == 'raise':
            if flat_domain_excluded(st.path):
                self.ck.saw('paths', '%s raises %s for flat <= 0 (outside the domain)'
                            % (where, seg.dest))
                return
            self.ck.ob('C10-D4-exits', q, False, '%s raises %s' % (q, seg.dest), self.fn.loc(),
                       key=q + '::raises')
            return
        final = SPV.current(st)
        if final is None:
            raise AnalysisError('%s: the node-list parameter is rebound (%s); in-place semantics '
                                'cannot be followed' % (where, st.env.get('s_p')))
        i_after = st.env.get(self.iname)
        k = idx_form(i_after) if isinstance(i_after, Sym) else None
        stores = [e for e in st.effects if e.kind in ('store', 'del') or
                  (e.kind == 'call' and isinstance(e.target, Bound)
                   and SPV.root_version(e.target.obj) is not None)]
        splits = [e for e in st.effects if e.kind == 'split']
        pred_truth = [(c, t) for c, t in st.path if isinstance(c, Pred) and c.name == 'flat-enough'] + \
                     [(c.c, not t) for c, t in st.path if isinstance(c, NotC) and isinstance(c.c, Pred)
                      and c.c.name == 'flat-enough']
        piece0 = want_piece_at(SPV.at(0), I)
        want_args = (piece0, FLAT)

        # every decision taken on the predicate must be about the current piece and tolerance
        for c, t in pred_truth:
            self.ob('C10-D4-predicate-call', where, tuple(c.args) == want_args,
                    '%s decides on the flatness predicate applied to %r: it must receive the '
                    'current piece (s_p[i-1][1], s_p[i-1][2], s_p[i][0], s_p[i][1]) and the '
                    'caller\'s flatness unchanged' % (q, c.args), q + '::predicate-call',
                    involved=c.args)

        if seg.kind == 'return':
            self.n_ret += 1
            lf = len_of(SPV.at(final))
            ok = False
            if isinstance(i_after, Sym):
                for c, t in st.path:
                    if not isinstance(c, Cmp) or not isinstance(c.a, Sym):
                        continue
                    lhs = c.a - c.b if isinstance(c.b, Sym) else c.a
                    if lhs == i_after - lf and ((c.op == '>=' and t) or (c.op == '<' and not t)):
                        ok = True
                    if lhs == lf - i_after and ((c.op == '<=' and t) or (c.op == '>' and not t)):
                        ok = True
            self.ob('C10-D4-returns-at-end', where, ok,
                    '%s returns on a path that does not establish i >= len(s_p) for the final '
                    'index and list: pieces after index i are left untested' % q,
                    q + '::early-return', involved=[i_after] + [c for c, _ in st.path])

        if not stores and not splits:
            if k == 0:
                return 'stay'
            self.n_adv += 1
            ok = k == 1 and len(pred_truth) == 1 and pred_truth[0][1] is True
            self.ob('C10-D4-advance-only-when-flat', where, ok,
                    '%s moves on (i -> %s) on a path where the flatness predicate %s: a piece is '
                    'accepted without having been found flat (or is skipped)' % (
                        q, i_after, 'was not consulted' if not pred_truth else
                        'held %s' % [t for _, t in pred_truth]), q + '::advance',
                    involved=[i_after] + [c for c, _ in pred_truth])
            return 'advance'

        # ---- a segment that touches the list: exactly one split of the current piece
        self.n_split += 1
        if len(splits) > 1:
            raise AnalysisError('%s performs %d splits between two loop heads; the role table is '
                                'per single split' % (where, len(splits)))
        self.ob('C10-D4-split-retests', where, k == 0,
                '%s continues with i = %s after splitting piece i: both halves must be re-tested '
                'from the same index' % (q, i_after), q + '::split-advances', involved=[i_after])
        self.ob('C10-D4-split-only-when-not-flat', where,
                len(pred_truth) == 1 and pred_truth[0][1] is False,
                '%s splits on a path where the flatness predicate was %s (expected: consulted '
                'once, with the caller\'s tolerance, and false)' % (
                    q, [t for _, t in pred_truth] or 'not consulted'), q + '::split-condition',
                involved=[c for c, _ in pred_truth])
        piece = splits[0].args[0] if splits else None
        if splits:
            t = splits[0].args[1]
            self.ob('C10-D1-piece', where, piece == piece0,
                    '%s splits %r; the piece ending at node i is (s_p[i-1][1], s_p[i-1][2], '
                    's_p[i][0], s_p[i][1])' % (q, piece), q + '::piece', involved=[piece])
            dyadic = isinstance(t, Sym) and t.is_const() and 0 < t.const_value() < 1 and \
                (t.const_value().denominator & (t.const_value().denominator - 1)) == 0
            self.ob('C10-D2-dyadic', where, dyadic,
                    '%s splits at parameter %s; pieces must be restrictions to dyadic parameter '
                    'intervals (k/2^m, 0 < t < 1)' % (q, t), q + '::dyadic', involved=[t])
            half = isinstance(t, Sym) and t.is_const() and t.const_value() * 2 == 1
            self.ob('C10-D2-role-parameter', where, half,
                    '%s splits at %s; the role table (M4, M, M5 on the curve, M1/M3 as new outer '
                    'handles) was established for t = 1/2 only' % (q, t), q + '::half',
                    involved=[t])
        found = {'out': None, 'in': None, 'insert': None, 'other': []}
        inserted = False      # once the new node sits at index i, old node i is at i + 1
        all_vals = []
        for e in stores:
            if e.kind == 'store' and isinstance(e.target, tuple) and e.target[0] == 'item':
                obj, idx = e.target[1], e.target[2]
                val = e.args[0]
                all_vals.append(val)
                if SPV.version_of(obj) is not None and isinstance(idx, tuple) and idx and \
                        idx[0] == 'slice':
                    if found['insert'] is None:
                        found['insert'] = ('slice', idx[1], idx[2], idx[3], val)
                        inserted = True
                        continue
                if isinstance(obj, Opaque) and obj.label == 'item' and \
                        SPV.version_of(obj.args[0]) is not None and \
                        isinstance(obj.args[1], Sym) and isinstance(idx, Sym) and idx.is_const():
                    node_off = idx_form(obj.args[1])
                    fld = int(idx.const_value())
                    if (node_off, fld) == (-1, 2) and found['out'] is None:
                        found['out'] = val
                        continue
                    if (node_off, fld) == ((1 if inserted else 0), 0) and found['in'] is None:
                        found['in'] = val
                        continue
                found['other'].append('s_p%s[%s] at line %d' % (
                    '[%s]' % (obj.args[1],) if isinstance(obj, Opaque) and obj.label == 'item'
                    else '', idx, e.line))
            elif e.kind == 'call' and e.target.name == 'insert' and len(e.args) == 2 and \
                    SPV.version_of(e.target.obj) is not None and found['insert'] is None:
                found['insert'] = ('insert', e.args[0], None, None, Tup((e.args[1],), 'list'))
                all_vals.append(e.args[1])
                inserted = True
            else:
                found['other'].append('%s at line %d' % (
                    e.kind if e.kind != 'call' else 'call .%s()' % e.target.name, e.line))

        def is_role(v, name):
            return isinstance(v, Opaque) and v.label == 'role:' + name and v.args == (piece,)
        self.ob('C10-D1-out-handle', where, is_role(found['out'], 'M1'),
                '%s: after a split the out-handle of node i-1 (s_p[i-1][2]) is set to %r; it must '
                'become M1, the first inner control point of the first half (one[1])'
                % (q, found['out']), q + '::out-handle', involved=[found['out']])
        self.ob('C10-D1-in-handle', where, is_role(found['in'], 'M3'),
                '%s: after a split the in-handle of old node i (s_p[i][0] before the insertion) is '
                'set to %r; it must become M3, the last inner control point of the second half '
                '(two[2])' % (q, found['in']), q + '::in-handle', involved=[found['in']])
        ins = found['insert']
        ok_node = False
        if ins is not None and isinstance(ins[4], Tup) and len(ins[4].items) == 1 and \
                isinstance(ins[4].items[0], Tup) and len(ins[4].items[0].items) == 3:
            a, b, c = ins[4].items[0].items
            ok_node = is_role(a, 'M4') and is_role(b, 'M') and is_role(c, 'M5')
        self.ob('C10-D1-inserted-node', where, ok_node,
                '%s: the node inserted by a split is %r; it must be [M4, M, M5] = [one[2], one[3] '
                '(= two[0]), two[1]] - the curve point at the split parameter with its two new '
                'handles' % (q, ins[4] if ins else None), q + '::inserted-node',
                involved=[ins[4]] if ins else [])
        ok_pos = False
        if ins is not None:
            if ins[0] == 'slice':
                lo, hi, step = ins[1], ins[2], ins[3]
                ok_pos = isinstance(lo, Sym) and lo == I and step == NONE and isinstance(hi, Sym) \
                    and hi.is_const() and hi.const_value() <= 1
                if isinstance(hi, Sym) and hi == I:
                    ok_pos = isinstance(lo, Sym) and lo == I and step == NONE
            else:
                ok_pos = isinstance(ins[1], Sym) and ins[1] == I
        self.ob('C10-D3-insertion', where, ok_pos,
                '%s: the new node is stored with %s; it must be inserted at index i without '
                'overwriting a node (s_p[i:h] with h <= 1 <= i, s_p[i:i], or insert(i, .))'
                % (q, ins[:4] if ins else 'no insertion'), q + '::insertion',
                involved=list(ins[1:4]) if ins else [])
        self.ob('C10-D1-nothing-else-stored', where, not found['other'],
                '%s: a split also modifies %s; original nodes and outer handles must survive'
                % (q, found['other']), q + '::other-stores')
        return 'split'


STALE_PREFIX = 'stale:'


def analyse(ck, prog):
    fn = prog.func('plot_utils.subdivideCubicPath')
    q = fn.qualname
    if fn.params[:2] != ['s_p', 'flat'] or len(fn.params) < 3:
        raise AnalysisError('subdivideCubicPath signature changed')
    iname = fn.params[2]
    d = fn.defaults().get(iname)
    ck.ob('C10-D3-start-index', q, isinstance(d, ast.Constant) and d.value == 1,
          '%s: the default start index is not 1 (piece i is the one ending at node i)' % q,
          fn.loc(), key=q + '::default-i')
    hk = C10Hooks(fn)
    cp = CutPoints(prog, fn, hk)
    entry_env = {'s_p': SPV.at(0), 'flat': FLAT, iname: I}

    def normalised_env(seg):
        st = seg.state
        final = SPV.current(st)
        i_after = st.env.get(iname)
        k = idx_form(i_after) if isinstance(i_after, Sym) else None
        env = {}
        for name, v in st.env.items():
            if name == iname:
                continue
            if final is None or k is None:
                env[name] = Opaque(STALE_PREFIX + name)
                continue
            env[name] = shift_index(SPV.normalise(v, final), k)
        return env

    templates = {}     # id(head) -> {name: value}

    def run_all():
        segs = [(None, s) for s in cp.from_entry(entry_env)]
        for h in cp.heads:
            t = templates.get(id(h))
            if t is None:
                continue
            env = dict(t)
            env[iname] = I
            segs.extend((h, s) for s in cp.from_head(h, State(env=env)))
        return segs

    for rounds in range(24):
        segs = run_all()
        changed = False
        for src, seg in segs:
            if seg.kind != 'arrive':
                continue
            env = normalised_env(seg)
            t = templates.get(id(seg.dest))
            if t is None:
                templates[id(seg.dest)] = env
                changed = True
                continue
            for name in set(t) | set(env):
                a, b = t.get(name), env.get(name)
                if a == b:
                    continue
                stale = Opaque(STALE_PREFIX + name)
                if a != stale:
                    t[name] = stale
                    changed = True
        if not changed:
            break
    else:
        raise AnalysisError('loop-carried values of %s did not stabilise' % q)

    unreached = [h.lineno for h in cp.heads if id(h) not in templates]
    for h in cp.heads:
        t = templates.get(id(h), {})
        carried = sorted(n for n, v in t.items() if not SPV.is_stale(v) and n not in ('s_p', 'flat'))
        stale = sorted(n for n, v in t.items() if SPV.is_stale(v))
        ck.saw('functions', '%s loop head at line %d: carried %s; not re-established %s'
               % (q, h.lineno, carried or '-', stale or '-'))
    if unreached:
        ck.saw('functions', '%s: loop heads at lines %s are unreachable' % (q, unreached))

    judge = SegmentJudge(ck, fn, iname)
    kinds = {}
    for src, seg in segs:
        name = 'entry' if src is None else 'loop@%d' % src.lineno
        r = judge.judge(seg, name)
        kinds[(name, seg.kind, getattr(seg.dest, 'lineno', None))] = r
        # a segment that comes back to where it started having changed nothing never ends
        if r == 'stay' and seg.kind == 'arrive' and src is seg.dest:
            env = normalised_env(seg)
            t = templates[id(src)]
            if all(env.get(n) == t.get(n) for n in set(env) | set(t)):
                ck.ob('C10-D4-progress', '%s::%s' % (q, name), False,
                      '%s: a path from the loop head at line %d back to itself changes neither i '
                      'nor the list nor any local: the loop cannot end' % (q, src.lineno),
                      fn.loc(), key=q + '::livelock')
    ck.saw('functions', '%s @ %s: %d loop heads, %d segments (%d advance, %d split, %d return)'
           % (q, fn.loc(), len(cp.heads), len(segs), judge.n_adv, judge.n_split, judge.n_ret))
    if judge.undecided and not ck.violations:
        raise AnalysisError('C10 cannot conclude: %s' % '; '.join(judge.undecided[:3]))
    ck.floor('loop heads', len(cp.heads), 1)
    ck.floor('return paths', judge.n_ret, 1)
    ck.floor('advance segments', judge.n_adv, 1)
    ck.floor('split segments', judge.n_split, 1)
    ck.floor('predicate calls', hk.n_pred, 1)
    ck.floor('split calls', hk.n_split, 1)


class Renamed:
    def __init__(self, ck, mapping):
        self.ck, self.mapping = ck, mapping

    def ob(self, rule, instance, ok, detail='', loc='', key=None):
        return self.ck.ob(self.mapping.get(rule, rule), instance, ok, detail, loc, key)

    def __getattr__(self, name):
        return getattr(self.ck, name)


def run(ck, prog, tier):
    ck.explanation = (
        'subdivideCubicPath interpreted for one iteration of its loops with symbolic index i and '
        'an opaque node list: all exits and back edges with path conditions and list effects. '
        'D1 the split stores exactly node[i-1].out <- M1, node[i].in <- M3 and inserts [M4,M,M5] '
        'at i (roles of beziersplitatt verified against the installed dependency source by '
        'polynomial identity at t=1/2); D2 dyadic literal parameter; D3 the slice store inserts; '
        'D4 return only at i >= len, advance by one only when the predicate held for the current '
        'piece with the caller\'s flatness, i unchanged after a split; the flatness predicate has '
        'the point-to-chord decision table (shared with C09-D4).')
    ck.trusted = ['Python ast', 'vf/interp.py', 'list slice-assignment semantics',
                  'ink_extensions.bezmisc.beziersplitatt (roles checked from its source when '
                  'installed)']
    ck.assumptions = ['termination: halving shrinks the control-polygon deviation for finite '
                      'floats and flat*flat > 0 (metric fact, not structural; flat below ~1e-162 '
                      'underflows and never terminates - observation, see DESIGN.md)',
                      'floating-point error of the midpoints']
    dependency_roles(ck)
    analyse(ck, prog)
    from .c09 import check_predicate
    check_predicate(Renamed(ck, {'C09-D4-predicate': 'C10-D4-flatness-predicate'}), prog,
                    prog.func('plot_utils.points_in_tolerance'))
    purity.check(ck, prog, ['plot_utils.subdivideCubicPath', 'plot_utils.points_in_tolerance'],
                 'C10-R-pure')
