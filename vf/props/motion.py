"""Shared oracles and rules for the step-accumulator motion math (C01, C02, C03, C17)."""
from fractions import Fraction

from ..poly import Sym, mk_func, reduce_mod, equal_mod
from .. import poly
from ..interp import Cmp, NotC, Tup, Const
from ..model import AnalysisError

TWO31 = 2 ** 31
INT_PARAMS = {'rate', 'accel', 'time', 'accum', 'jerk', 'steps'}


def declare_ints():
    poly.INT_VARS.clear()
    poly.INT_VARS.update(INT_PARAMS)


def V(name):
    return Sym.var(name)


def half_accel():
    return mk_func('TRUNC', V('accel') / 2)


def jerk_sixth():
    return mk_func('TRUNC', V('jerk') / 6)


def oracle_lt(accum0, T=None):
    """Sum of the firmware recurrence after T ticks (C01): accum0 + T(rate - h) + accel T(T+1)/2."""
    T = V('time') if T is None else T
    rate, accel = V('rate'), V('accel')
    return accum0 + T * (rate - half_accel()) + accel * T * (T + 1) / 2


def oracle_t3(accum0, T=None):
    """C02: accum0 + T r0 + accel T(T+1)/2 + jerk (T^3 - T)/6, r0 = rate - trunc(a/2) + trunc(j/6)."""
    T = V('time') if T is None else T
    rate, accel, jerk = V('rate'), V('accel'), V('jerk')
    r0 = rate - half_accel() + jerk_sixth()
    return accum0 + T * r0 + accel * T * (T + 1) / 2 + jerk * (T ** 3 - T) / 6


def rate_t3_oracle(T):
    rate, accel, jerk = V('rate'), V('accel'), V('jerk')
    r0 = rate - half_accel() + jerk_sixth()
    return r0 + T * accel + jerk * T * (T - 1) / 2


def split_pos_rem(total):
    pos = mk_func('FLOOR', total / TWO31)
    return pos, total - TWO31 * pos


def strip_int(s):
    """TRUNC(X)/ROUND(X) -> X (used where X is integer-valued on integer inputs by a stated lemma)."""
    at = s.as_atom()
    if at is not None and at[0] == 'f' and at[1] in ('TRUNC', 'ROUND'):
        return at[2][0]
    return s


def norm_path_cond(c, truth):
    """-> (E, op) meaning `E op 0` holds on the path, or None if not a numeric comparison."""
    while isinstance(c, NotC):
        c, truth = c.c, not truth
    if not (isinstance(c, Cmp) and isinstance(c.a, Sym) and isinstance(c.b, Sym)):
        return None
    e = c.a - c.b
    op = c.op
    if not truth:
        op = {'<': '>=', '>=': '<', '<=': '>', '>': '<=', '==': '!=', '!=': '=='}[op]
    return e, op


SAT = {'<': {-1}, '<=': {-1, 0}, '>': {1}, '>=': {0, 1}, '==': {0}, '!=': {-1, 1}}


def identify(e, quantities, gens):
    """Identify E as c*Q_k (c a non-zero rational constant) modulo the path equalities `gens`.
    Returns (k, c) or None."""
    e_r = reduce_mod(e, gens) if gens else e
    for k, q in enumerate(quantities):
        q_r = reduce_mod(q, gens) if gens else q
        if q_r.num.is_zero() or not q_r.is_poly() or not e_r.is_poly():
            continue
        from ..poly import leading
        m, cq = leading(q_r.num)
        ce = e_r.num.terms.get(m)
        if ce is None:
            continue
        c = ce / cq
        if c != 0 and (e_r - q_r * c).num.is_zero():
            return k, c
    return None


def sign_cases_of_path(conds, quantities):
    """conds: list of (E, op) in path order.  Returns the set of sign tuples (one entry in
    {-1,0,1} per quantity) consistent with the path, or raises KeyError(E) if a tested quantity is
    not one of the specification's quantities (modulo earlier equalities)."""
    import itertools
    n = len(quantities)
    allowed = set(itertools.product((-1, 0, 1), repeat=n))
    gens = []
    for e, op in conds:
        ident = identify(e, quantities, gens)
        if ident is None:
            raise KeyError(e)
        k, c = ident
        sat = SAT[op]
        if c < 0:
            sat = {-x for x in sat}
        allowed = {t for t in allowed if t[k] in sat}
        if op == '==':
            gens.append(e)
    return allowed


def check_precision(ck, rule, fn, outcomes, min_digits=21):
    """D4: on every path, every mpmath operation (and, once a precision has been stored, every
    arithmetic operation) runs under a precision stored in the same function as a literal
    mp.dps >= min_digits (or mp.prec >= 72).  A later store of a non-literal / smaller value (e.g.
    "restoring" the caller's precision) followed by more arithmetic makes the result depend on
    the ambient setting again; restoring right before the return is fine."""
    n_paths = n_ops = 0
    for o in outcomes:
        notes = o.state.notes
        cur = None          # None = ambient; ('good', text) | ('bad', text)
        bad = None
        seen_op = False
        for nt in notes:
            if nt[0] == 'ext-store' and nt[1] in ('mpmath.mp.dps', 'mpmath.mp.prec'):
                val, which = nt[2], nt[1]
                need = min_digits if which.endswith('dps') else 72
                if isinstance(val, Sym) and val.is_const() and val.const_value() >= need:
                    cur = ('good', '%s = %s' % (which, val.const_value()))
                elif isinstance(val, Sym) and val.is_const():
                    cur = ('bad', '%s = %s gives fewer than 72 bits; exact intermediates of the '
                                  'firmware domain need up to 2^65 with a binary fraction digit'
                                  % (which, val.const_value()))
                else:
                    cur = ('bad', '%s is set to a non-literal value at line %d (the caller\'s '
                                  'ambient precision?)' % (which, nt[3]))
            elif nt[0] == 'mp-op':
                n_ops += 1
                seen_op = True
                if cur is None and bad is None:
                    bad = ('mpmath operation %s at line %d is not preceded by an assignment of '
                           'mpmath.mp.dps in %s: the result depends on the caller\'s ambient '
                           'precision' % (nt[1], nt[2], fn.name))
                elif cur is not None and cur[0] == 'bad' and bad is None:
                    bad = 'mpmath operation %s at line %d runs after %s' % (nt[1], nt[2], cur[1])
            elif nt[0] == 'arith' and cur is not None and cur[0] == 'bad' and bad is None \
                    and seen_op:
                bad = 'arithmetic at line %d runs after %s' % (nt[2], cur[1])
        if not seen_op:
            continue
        n_paths += 1
        ck.ob(rule, '%s::precision-covers-every-mp-op' % fn.name, bad is None, bad or '', fn.loc(),
              key='%s::mp-precision' % fn.name)
    return n_paths, n_ops
