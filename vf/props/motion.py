"""Shared oracles and rules for the step-accumulator motion math (C01, C02, C03, C17)."""
from fractions import Fraction

from ..poly import Sym, mk_func, reduce_mod, equal_mod
from .. import poly
from ..interp import Cmp, NotC, Tup, Const
from ..model import AnalysisError

TWO31 = 2 ** 31
INT_PARAMS = {'rate', 'accel', 'time', 'accum', 'jerk', 'steps'}


def declare_ints():
    poly.INT_VARS.clear()
    poly.INT_VARS.update(INT_PARAMS)


def V(name):
    return Sym.var(name)


def half_accel():
    return mk_func('TRUNC', V('accel') / 2)


def jerk_sixth():
    return mk_func('TRUNC', V('jerk') / 6)


def oracle_lt(accum0, T=None):
    """Sum of the firmware recurrence after T ticks (C01): accum0 + T(rate - h) + accel T(T+1)/2."""
    T = V('time') if T is None else T
    rate, accel = V('rate'), V('accel')
    return accum0 + T * (rate - half_accel()) + accel * T * (T + 1) / 2


def oracle_t3(accum0, T=None):
    """C02: accum0 + T r0 + accel T(T+1)/2 + jerk (T^3 - T)/6, r0 = rate - trunc(a/2) + trunc(j/6)."""
    T = V('time') if T is None else T
    rate, accel, jerk = V('rate'), V('accel'), V('jerk')
    r0 = rate - half_accel() + jerk_sixth()
    return accum0 + T * r0 + accel * T * (T + 1) / 2 + jerk * (T ** 3 - T) / 6


def rate_t3_oracle(T):
    rate, accel, jerk = V('rate'), V('accel'), V('jerk')
    r0 = rate - half_accel() + jerk_sixth()
    return r0 + T * accel + jerk * T * (T - 1) / 2


def split_pos_rem(total):
    pos = mk_func('FLOOR', total / TWO31)
    return pos, total - TWO31 * pos


def strip_int(s):
    """TRUNC(X)/ROUND(X) -> X (used where X is integer-valued on integer inputs by a stated lemma)."""
    at = s.as_atom()
    if at is not None and at[0] == 'f' and at[1] in ('TRUNC', 'ROUND'):
        return at[2][0]
    return s


def norm_path_cond(c, truth):
    """-> (E, op) meaning `E op 0` holds on the path, or None if not a numeric comparison."""
    while isinstance(c, NotC):
        c, truth = c.c, not truth
    if not (isinstance(c, Cmp) and isinstance(c.a, Sym) and isinstance(c.b, Sym)):
        return None
    e = c.a - c.b
    op = c.op
    if not truth:
        op = {'<': '>=', '>=': '<', '<=': '>', '>': '<=', '==': '!=', '!=': '=='}[op]
    return e, op


SAT = {'<': {-1}, '<=': {-1, 0}, '>': {1}, '>=': {0, 1}, '==': {0}, '!=': {-1, 1}}


def identify(e, quantities, gens):
    """Identify E as c*Q_k (c a non-zero rational constant) modulo the path equalities `gens`.
    Returns (k, c) or None."""
    e_r = reduce_mod(e, gens) if gens else e
    for k, q in enumerate(quantities):
        q_r = reduce_mod(q, gens) if gens else q
        if q_r.num.is_zero() or not q_r.is_poly() or not e_r.is_poly():
            continue
        from ..poly import leading
        m, cq = leading(q_r.num)
        ce = e_r.num.terms.get(m)
        if ce is None:
            continue
        c = ce / cq
        if c != 0 and (e_r - q_r * c).num.is_zero():
            return k, c
    return None


def sign_cases_of_path(conds, quantities):
    """conds: list of (E, op) in path order.  Returns the set of sign tuples (one entry in
    {-1,0,1} per quantity) consistent with the path, or raises KeyError(E) if a tested quantity is
    not one of the specification's quantities (modulo earlier equalities)."""
    import itertools
    n = len(quantities)
    allowed = set(itertools.product((-1, 0, 1), repeat=n))
    gens = []
    for e, op in conds:
        ident = identify(e, quantities, gens)
        if ident is None:
            got = _sign_cases_by_points(conds, quantities)
            if got is None:
                raise KeyError(e)
            return got
        k, c = ident
        sat = SAT[op]
        if c < 0:
            sat = {-x for x in sat}
        allowed = {t for t in allowed if t[k] in sat}
        if op == '==':
            gens.append(e)
    return allowed


def _sign_cases_by_points(conds, quantities):
    """Sign tuples of the quantities realised by some small integer point satisfying every path
    condition - used when a condition relates two quantities (rate == accel) instead of testing
    the sign of one.  None if a condition mentions anything but the quantities' variables."""
    import itertools
    from fractions import Fraction
    names = set()
    for q in quantities:
        names |= {a[1] for a in q.all_atoms() if a[0] == 'v'}
        if any(a[0] == 'f' for a in q.all_atoms()):
            return None
    for e, _ in conds:
        if any(a[0] == 'f' for a in e.all_atoms()) or not \
                {a[1] for a in e.all_atoms() if a[0] == 'v'} <= names:
            return None
    names = sorted(names)
    if len(names) > 4:
        return None
    sgn = lambda x: (x > 0) - (x < 0)
    allowed = set()
    for pt in itertools.product(range(-3, 4), repeat=len(names)):
        asg = {nm: Fraction(v) for nm, v in zip(names, pt)}
        try:
            if all(_holds(e.evaluate(asg), op) for e, op in conds):
                allowed.add(tuple(sgn(q.evaluate(asg)) for q in quantities))
        except (ZeroDivisionError, KeyError, ValueError):
            continue
    return allowed


def check_precision(ck, rule, fn, outcomes, min_digits=21):
    """D4: on every path, every mpmath operation (and, once a precision has been stored, every
    arithmetic operation) runs under a precision stored in the same function as a literal
    mp.dps >= min_digits (or mp.prec >= 72).  A later store of a non-literal / smaller value (e.g.
    "restoring" the caller's precision) followed by more arithmetic makes the result depend on
    the ambient setting again; restoring right before the return is fine."""
    n_paths = n_ops = 0
    for o in outcomes:
        notes = o.state.notes
        cur = None          # None = ambient; ('good', text) | ('bad', text)
        bad = None
        seen_op = False
        for nt in notes:
            if nt[0] == 'ext-store' and nt[1] in ('mpmath.mp.dps', 'mpmath.mp.prec'):
                val, which = nt[2], nt[1]
                need = min_digits if which.endswith('dps') else 72
                if isinstance(val, Sym) and val.is_const() and val.const_value() >= need:
                    cur = ('good', '%s = %s' % (which, val.const_value()))
                elif isinstance(val, Sym) and val.is_const():
                    cur = ('bad', '%s = %s gives fewer than 72 bits; exact intermediates of the '
                                  'firmware domain need up to 2^65 with a binary fraction digit'
                                  % (which, val.const_value()))
                else:
                    cur = ('bad', '%s is set to a non-literal value at line %d (the caller\'s '
                                  'ambient precision?)' % (which, nt[3]))
            elif nt[0] == 'mp-op':
                n_ops += 1
                seen_op = True
                if cur is None and bad is None:
                    bad = ('mpmath operation %s at line %d is not preceded by an assignment of '
                           'mpmath.mp.dps in %s: the result depends on the caller\'s ambient '
                           'precision' % (nt[1], nt[2], fn.name))
                elif cur is not None and cur[0] == 'bad' and bad is None:
                    bad = 'mpmath operation %s at line %d runs after %s' % (nt[1], nt[2], cur[1])
            elif nt[0] == 'arith' and cur is not None and cur[0] == 'bad' and bad is None \
                    and seen_op:
                bad = 'arithmetic at line %d runs after %s' % (nt[2], cur[1])
        if not seen_op:
            continue
        n_paths += 1
        ck.ob(rule, '%s::precision-covers-every-mp-op' % fn.name, bad is None, bad or '', fn.loc(),
              key='%s::mp-precision' % fn.name)
    return n_paths, n_ops


def check_float_division(ck, rule, fn, small_names=None, mpf_params=(), nonraw_params=(),
                         calls_out=None):
    """Precision discipline for `/`: a true division is evaluated either in mpmath (one operand
    derives from an mpmath call) or between *raw* 32-bit quantities - parameters (possibly through
    int()/float()/abs()/unary minus) and literals - where a double is exact enough.  A quotient
    of a compound integer expression (which can exceed 2^53 in the firmware domain) computed in
    plain float loses the low bits that the following floor/ceil depends on.

    mpf-ness is a flow-insensitive fixpoint over the function's local names: a name is mpf if some
    assignment gives it an mpf expression; an expression is mpf if it calls mpmath.* or combines
    an mpf operand arithmetically."""
    import ast
    small = (set(fn.params) - set(nonraw_params)) | set(small_names or ())
    mod = fn.module

    def is_mp_call(node):
        if isinstance(node, ast.Call):
            f = node.func
            if isinstance(f, ast.Attribute):
                base = f.value
                while isinstance(base, ast.Attribute):
                    base = base.value
                if isinstance(base, ast.Name) and mod.imports.get(base.id, '').startswith('ext:mpmath'):
                    return True
        return False

    mpf_names = set(mpf_params)

    def is_mpf(node):
        if is_mp_call(node):
            return True
        if isinstance(node, ast.Name):
            return node.id in mpf_names
        if isinstance(node, ast.BinOp):
            return is_mpf(node.left) or is_mpf(node.right)
        if isinstance(node, ast.UnaryOp):
            return is_mpf(node.operand)
        if isinstance(node, ast.IfExp):
            return is_mpf(node.body) or is_mpf(node.orelse)
        return False

    assigns = [n for n in ast.walk(fn.node) if isinstance(n, (ast.Assign, ast.AugAssign))]
    changed = True
    while changed:
        changed = False
        for a in assigns:
            tgts = a.targets if isinstance(a, ast.Assign) else [a.target]
            val_mpf = is_mpf(a.value) or (isinstance(a, ast.AugAssign) and is_mpf(a.target))
            if val_mpf:
                for t in tgts:
                    if isinstance(t, ast.Name) and t.id not in mpf_names:
                        mpf_names.add(t.id)
                        changed = True

    # names that are re-bound to int(param) etc. stay "raw": a raw name is a parameter or a local
    # only ever assigned from raw expressions
    raw_names = set(small)

    def is_raw(node):
        if isinstance(node, ast.Constant) and isinstance(node.value, (int, float)):
            return True
        if isinstance(node, ast.Name):
            return node.id in raw_names
        if isinstance(node, ast.Attribute) and isinstance(node.value, ast.Name) and \
                node.value.id in ('self', 'cls') and fn.cls is not None:
            # a field of a request / value object: holds what the constructor was given, i.e.
            # one of the 32-bit inputs (a derived quantity kept in a field is not seen here)
            return True
        if isinstance(node, ast.UnaryOp) and isinstance(node.op, (ast.USub, ast.UAdd)):
            return is_raw(node.operand)
        if isinstance(node, ast.Call) and isinstance(node.func, ast.Name) and \
                node.func.id in ('int', 'float', 'abs') and len(node.args) == 1:
            return is_raw(node.args[0])
        return False

    if calls_out is not None:
        # what this function hands to the package functions it calls: per callee parameter,
        # "an mpmath value" / "not a raw input" (for check_float_division_closure)
        for node in ast.walk(fn.node):
            if isinstance(node, ast.Call) and isinstance(node.func, ast.Name) and \
                    node.func.id in mod.functions:
                callee = mod.functions[node.func.id]
                info = calls_out.setdefault(callee.qualname, (set(), set()))
                params = list(callee.params)
                for k, a in enumerate(node.args):
                    if k < len(params):
                        if is_mpf(a):
                            info[0].add(params[k])
                        if not is_raw_probe(a, small):
                            info[1].add(params[k])
                for kw in node.keywords:
                    if kw.arg in params:
                        if is_mpf(kw.value):
                            info[0].add(kw.arg)
                        if not is_raw_probe(kw.value, small):
                            info[1].add(kw.arg)
    n = 0
    for node in ast.walk(fn.node):
        div = None
        if isinstance(node, ast.BinOp) and isinstance(node.op, ast.Div):
            div = (node.left, node.right)
        elif isinstance(node, ast.AugAssign) and isinstance(node.op, ast.Div):
            div = (node.target, node.value)
        if div is None:
            continue
        n += 1
        left, right = div
        ok = is_mpf(left) or is_mpf(right) or (is_raw(left) and is_raw(right))
        ck.ob(rule, '%s::div@%s' % (fn.name, ast.unparse(node)[:50]), ok,
              '%s: the quotient `%s` (line %d) is evaluated in plain double precision although an '
              'operand is a compound integer expression that can exceed 2^53 in the firmware '
              'domain; the rounding that follows then depends on lost low bits (use mpmath.mpf '
              'operands as the neighbouring formulas do)' % (fn.qualname, ast.unparse(node)[:80],
                                                             node.lineno),
              fn.loc(node), key='%s::float-division' % fn.qualname)
    # a double that is then *multiplied* inside a function that computes in mpmath: `x = rate +
    # accel / 2 - half` is a Python float (exact so far), `x * time` is a float product that can
    # exceed 2^53 before it ever reaches the mpmath sum
    if mpf_names or any(is_mp_call(nd) for nd in ast.walk(fn.node)):
        float_names = set()

        def is_float(node):
            if is_mpf(node):
                return False
            if isinstance(node, ast.BinOp) and isinstance(node.op, ast.Div):
                return True
            if isinstance(node, ast.Name):
                return node.id in float_names
            if isinstance(node, ast.BinOp):
                return is_float(node.left) or is_float(node.right)
            if isinstance(node, ast.UnaryOp):
                return is_float(node.operand)
            return False
        changed = True
        while changed:
            changed = False
            for a in assigns:
                tgts = a.targets if isinstance(a, ast.Assign) else [a.target]
                if is_float(a.value):
                    for t in tgts:
                        if isinstance(t, ast.Name) and t.id not in float_names and \
                                t.id not in mpf_names:
                            float_names.add(t.id)
                            changed = True
        for node in ast.walk(fn.node):
            if not (isinstance(node, ast.BinOp) and isinstance(node.op, ast.Mult)):
                continue
            for a_, b_ in ((node.left, node.right), (node.right, node.left)):
                if isinstance(a_, ast.Name) and a_.id in float_names and not is_mpf(b_) and \
                        not isinstance(b_, ast.Constant):
                    n += 1
                    ck.ob(rule, '%s::float-product@%s' % (fn.name, ast.unparse(node)[:50]), False,
                          '%s: `%s` (line %d) multiplies the Python float %s (it comes from a '
                          'plain `/`) by another plain number: the product is rounded to 53 bits '
                          'before it reaches the mpmath sum, and for long fast moves it exceeds '
                          '2^53 (the neighbouring terms wrap one operand in mpmath.mpf)'
                          % (fn.qualname, ast.unparse(node)[:80], node.lineno, a_.id),
                          fn.loc(node), key='%s::float-division' % fn.qualname)
                    break
    # an mpmath value handed to the math module (or to float()) goes through a 53-bit double:
    # math.floor(mpf) is not mpmath.floor(mpf) once the value needs more than 53 bits
    for node in ast.walk(fn.node):
        if not (isinstance(node, ast.Call) and node.args):
            continue
        f = node.func
        via = None
        if isinstance(f, ast.Attribute) and isinstance(f.value, ast.Name) and \
                mod.imports.get(f.value.id, '') in ('ext:math', 'ext:numpy') :
            via = '%s.%s' % (f.value.id, f.attr)
        elif isinstance(f, ast.Name) and f.id == 'float':
            via = 'float'
        elif isinstance(f, ast.Name) and mod.imports.get(f.id, '').startswith('ext:math.'):
            via = f.id
        if via is None or not any(is_mpf(a) for a in node.args):
            continue
        n += 1
        ck.ob(rule, '%s::double@%s' % (fn.name, ast.unparse(node)[:50]), False,
              '%s: `%s` (line %d) hands an mpmath value to %s, which converts it to a 53-bit '
              'double first; beyond 2^53 the result is rounded before the floor/ceil/compare '
              'that follows (the mpmath function of the same name keeps the configured precision)'
              % (fn.qualname, ast.unparse(node)[:80], node.lineno, via),
              fn.loc(node), key='%s::float-division' % fn.qualname)
    return n


def is_raw_probe(node, small):
    import ast
    if isinstance(node, ast.Constant) and isinstance(node.value, (int, float)):
        return True
    if isinstance(node, ast.Name):
        return node.id in small
    if isinstance(node, ast.Attribute) and isinstance(node.value, ast.Name) and \
            node.value.id in ('self', 'cls'):
        return True
    if isinstance(node, ast.UnaryOp) and isinstance(node.op, (ast.USub, ast.UAdd)):
        return is_raw_probe(node.operand, small)
    if isinstance(node, ast.Call) and isinstance(node.func, ast.Name) and \
            node.func.id in ('int', 'float', 'abs') and len(node.args) == 1:
        return is_raw_probe(node.args[0], small)
    return False


def check_float_division_closure(ck, rule, prog, fn):
    """check_float_division on fn and on every package function it reaches through resolved
    calls (a closed form moved into a shared helper is still the closed form)."""
    from .. import purity
    calls = {}
    n = check_float_division(ck, rule, fn, calls_out=calls)
    todo = [c for c in purity.closure(prog, [fn.qualname])
            if c is not fn and c.module.name == fn.module.name]
    done = set()
    for _round in range(3):            # helpers of helpers: parameters classified by their callers
        for callee in todo:
            if callee.qualname in done or callee.qualname not in calls:
                continue
            done.add(callee.qualname)
            mpf_p, nonraw_p = calls[callee.qualname]
            check_float_division(ck, rule, callee, mpf_params=mpf_p, nonraw_params=nonraw_p,
                                 calls_out=calls)
    for callee in todo:
        if callee.qualname not in done:
            check_float_division(ck, rule, callee)
    return n


# ====================================================================== witness policy
# A failed symbolic identity is reported as a VIOLATION only together with a concrete integer input
# at which the extracted normal forms (not the code) disagree with the recurrence; if the forms
# differ syntactically but agree on the whole sample grid, the check cannot conclude (exit 2).
GRID = {
    'rate': [0, 1, -1, 2, -2, 3, -3, 5, -7, 1000, -1000, 2 ** 30, -(2 ** 30) + 1],
    'accel': [0, 1, -1, 2, -2, 3, -3, 5, -5, 6, -7, 100, -101],
    'jerk': [0, 1, -1, 5, -5, 6, -6, 7, -7, 12, -13],
    'time': [1, 2, 3, 4, 5, 7, 40],
    'accum': [0, 1, 2 ** 31 - 1, 2 ** 30, 12345, 2 ** 31 - 2],
    'steps': [1, 2, 3, 7, -1, -2, -5, 50],
}


def _holds(val, op):
    return {'<': val < 0, '<=': val <= 0, '>': val > 0, '>=': val >= 0, '==': val == 0,
            '!=': val != 0}[op]


def grid_points(names, limit=60000):
    import itertools
    lists = [GRID.get(n, [0, 1, -1, 2, 5]) for n in names]
    total = 1
    for l in lists:
        total *= len(l)
    # thin the longest lists until the product fits
    while total > limit:
        i = max(range(len(lists)), key=lambda k: len(lists[k]))
        total //= len(lists[i])
        lists[i] = lists[i][::2] if len(lists[i]) > 2 else lists[i][:1]
        total *= len(lists[i])
    for combo in itertools.product(*lists):
        yield dict(zip(names, combo))


def path_witness(got_items, conds, names, expected_at):
    """Search the sample grid for an input that satisfies the path conditions `conds` [(E, op)]
    and at which some got_items[k] differs from expected_at(point)[k].
    Returns ('witness', point, k, got, want) | ('agree', n_points) | ('unevaluable', why)."""
    n = 0
    for pt in grid_points(names):
        try:
            if not all(_holds(e.evaluate(pt), op) for e, op in conds):
                continue
            want = expected_at(pt)
            if want is None:
                continue
            n += 1
            for k, g in enumerate(got_items):
                gv = g.evaluate(pt)
                if gv != want[k]:
                    return ('witness', pt, k, gv, want[k])
        except (KeyError, ZeroDivisionError, TypeError, AttributeError) as exc:
            return ('unevaluable', '%s: %s' % (type(exc).__name__, exc))
    return ('agree', n)
