"""C15 - firmware version gating.

  D1  numeric order, both layers: the ordering test in ebb_serial.min_version and EBB3.min_version
      compares two `packaging.version` objects (not text, not a collapsed number), the board's
      version against the threshold with ">=" semantics (True exactly on board >= threshold);
      both layers derive the board's version through the same pipeline
      parse(strip(split(reply, "Firmware Version ", 1)[1]))
  D2  EBB3.connect returns True with no error only when, on that path, a probe reply of THIS
      handshake contained "EBB" and the version parsed from THIS handshake passed the minimum
      test against the class constant; it never raises; from a state with an error recorded it
      never ends with the error cleared
  D3  every path of connect that returns False has an error recorded at the end
  D4  an unverified / unsupported device sees only the probe: on every path that does not return
      True the only bytes written are at most two `v<CR>` probes; the port is closed on the
      not-verified exits
  D5  legacy feature gates: the gated command is handed to the transport only when
      min_version(port, <documented threshold>) answered True - nothing for False or None
"""
import ast
import re

from ..ebb3 import (Engine, EBB3Hooks, most_derived, public_methods, ALL_TS, OK, ERR, DISC, DISC_ERR,
                    PORT, is_port_call, port_writes, classify_ret, ts_of_state, initial_state,
                    VERSION)
from ..legacy import LegacyHooks, LPORT, run_helper, transports
from ..interp import (Interp, Opaque, Str, Slot, Tup, Const, Cmp, IsNone, Truthy, In, NotC, AndC,
                      OrC, Pred, State, ObjRef, Effect, Bound, FuncRef, ExtRef, NONE, TRUE, FALSE,
                      fold_cond, type_of)
from ..poly import Sym
from ..model import AnalysisError
from .c07 import reply_ordinals

# loops the engines summarise on purpose (retry / pause / enumeration loops are judged by the
# loop rules of this check, not by unrolling)
EXPECTED_GAPS = {('loop', '*')}

STALE = Opaque('VERSION_OF_AN_EARLIER_CONNECTION', (), 'version')
PROBE = Opaque('encode', (Str.lit('v\r'),), 'bytes')
MARKER = 'Firmware Version '
# legacy gates: helper -> (command name it guards, documented minimum firmware)
GATES = {
    'ebb_motion.servo_timeout': ('SR', '2.6.0'),
    'ebb_motion.queryVoltage': ('QC', '2.2.3'),
    'ebb_serial.query_nickname': ('QT', '2.5.5'),
    'ebb_serial.write_nickname': ('ST', '2.5.5'),
    'ebb_serial.reboot': ('RB', '2.5.5'),
}


# ---------------------------------------------------------------------------- helpers
def version_cmps(path):
    """Ordering comparisons between non-numeric operands assumed on a path."""
    out = []
    for c, truth in path:
        inner, t = c, truth
        while isinstance(inner, NotC):
            inner, t = inner.c, not t
        if isinstance(inner, Cmp) and inner.op in ('<', '<=', '>', '>=', '==', '!=') and not (
                isinstance(inner.a, Sym) and isinstance(inner.b, Sym)):
            if inner.op in ('==', '!=') and (isinstance(inner.a, Str) or isinstance(inner.b, Str)):
                continue
            out.append((inner.op, inner.a, inner.b, t))
    return out


def says_supported(op, a, b, truth):
    """True if the assumed comparison means board >= threshold (board = the operand that is not
    a parse of a literal)."""
    def is_threshold(v):
        ops, src = pipeline(v)
        return ops == ['parse'] and isinstance(src, Str) and src.is_lit()
    if is_threshold(a) and not is_threshold(b):
        op = {'<': '>', '<=': '>=', '>': '<', '>=': '<=', '==': '==', '!=': '!='}[op]
    return (op == '>=' and truth) or (op == '<' and not truth)


def returned_comparison(v):
    """A function that returns the comparison itself (`return a >= b`, `return not a < b`):
    -> (op, a, b, truth) meaning "returns True exactly when (a op b) has this truth"."""
    truth = True
    while isinstance(v, NotC):
        v, truth = v.c, not truth
    if isinstance(v, Cmp) and v.op in ('<', '<=', '>', '>=') and not (
            isinstance(v.a, Sym) and isinstance(v.b, Sym)):
        return v.op, v.a, v.b, truth
    return None


def pipeline(v):
    """Operations applied to the reply to obtain the compared version: list of op names, source."""
    ops = []
    while True:
        if isinstance(v, Opaque) and v.label == 'parse' and v.args:
            ops.append('parse')
            v = v.args[0]
        elif isinstance(v, Opaque) and v.label in ('m:strip', 'm:lower', 'm:rstrip', 'm:lstrip') \
                and v.args:
            ops.append(v.label[2:])
            v = v.args[0]
        elif isinstance(v, Opaque) and v.label == 'item' and isinstance(v.args[1], Sym) \
                and v.args[1].is_const():
            ops.append('[%d]' % int(v.args[1].const_value()))
            v = v.args[0]
        elif isinstance(v, Opaque) and v.label == 'm:partition' and len(v.args) == 2 and \
                ops and ops[-1] == '[2]' and isinstance(v.args[1], Str) and v.args[1].is_lit():
            # s.partition(m)[2] is s.split(m, 1)[1] whenever m occurs in s (and '' otherwise, which
            # the code must then treat as "no version", like the length test of the split form)
            ops[-1] = '[1]'
            ops.append('split(%r,1)' % v.args[1].text())
            v = v.args[0]
        elif isinstance(v, Opaque) and v.label == 'slice' and v.args[2] == NONE and \
                v.args[3] == NONE and isinstance(v.args[1], Opaque) and \
                v.args[1].label == 'binop:Add' and len(v.args[1].args) == 2:
            # s[s.find(m) + len(m):] is s.split(m, 1)[1] whenever m occurs in s (the code must
            # test find() < 0 for "no version", like the length test of the split form)
            a, b = v.args[1].args
            if isinstance(b, Opaque):
                a, b = b, a
            if isinstance(a, Opaque) and a.label == 'm:find' and len(a.args) == 2 and \
                    a.args[0] == v.args[0] and isinstance(a.args[1], Str) and a.args[1].is_lit() \
                    and isinstance(b, Sym) and b.is_const() and \
                    b.const_value() == len(a.args[1].text()):
                ops.append('[1]')
                ops.append('split(%r,1)' % a.args[1].text())
                v = v.args[0]
            else:
                return ops, v
        elif isinstance(v, Opaque) and v.label == 'm:split' and len(v.args) >= 2:
            ops.append('split(%s)' % ','.join(
                repr(a.text()) if isinstance(a, Str) and a.is_lit() else
                (str(int(a.const_value())) if isinstance(a, Sym) and a.is_const() else '?')
                for a in v.args[1:]))
            v = v.args[0]
        else:
            return ops, v


def judge_order(ck, rule, where, loc, key, op, a, b, truth, ret_true, board_is):
    """One ordering comparison on a path that returns `ret_true`: operands must be versions, the
    board on one side, threshold on the other, and the result must mean board >= threshold."""
    ta, tb = type_of(a), type_of(b)
    if ta != 'version' or tb != 'version':
        kind = {'str': 'as text (lexicographic order: "2.10.0" < "2.9.9")',
                'num': 'as single numbers collapsed from the components (a component >= the '
                       'weight carries into the next one)'}.get(
                           ta if ta != 'version' else tb, 'as %s/%s values' % (ta, tb))
        ck.ob(rule, where, False, '%s compares firmware versions %s, not as packaging.version '
              'objects' % (where, kind), loc, key=key + '::not-versions')
        return False
    a_board, b_board = board_is(a), board_is(b)
    if a_board == b_board:
        ck.ob(rule, where, False, '%s: the ordering test does not compare the board\'s version '
              'with the threshold (board operand on %s)' % (
                  where, 'both sides' if a_board else 'neither side'), loc, key=key + '::operands')
        return False
    if not a_board:
        op = {'<': '>', '<=': '>=', '>': '<', '>=': '<=', '==': '==', '!=': '!='}[op]
    # now: board op threshold has truth value `truth`
    if op == '>=':
        good = ret_true == truth
    elif op == '<':
        good = ret_true == (not truth)
    else:
        good = False
    ck.ob(rule, where, good,
          '%s answers %s when "board %s threshold" is %s: the answer must be True exactly when the '
          'board version is at least the threshold (equal versions included)'
          % (where, ret_true, op, truth), loc, key=key + '::relation')
    return good


# ---------------------------------------------------------------------------- D1
def check_legacy_min_version(ck, prog):
    fn = prog.func('ebb_serial.min_version')
    thr = Opaque('param:version_string', (), 'str')
    outs = run_helper(prog, fn, overrides={fn.params[1]: thr}, hooks=LegacyHooks())
    q = fn.qualname
    n = 0
    pipes = set()
    for o in outs:
        if o.kind == 'raise':
            continue
        cls = classify_ret(o.value)
        cmps = version_cmps(o.state.path)
        rc = returned_comparison(o.value)
        if rc is not None and not cmps:
            cmps = [rc]
            cls = 'true'
        if cls in ('true', 'false'):
            if len(cmps) != 1:
                ck.ob('C15-D1-numeric-order', q, False,
                      '%s returns %s on a path with %d version comparisons' % (q, cls, len(cmps)),
                      fn.loc(), key=q + '::comparisons')
                continue
            op, a, b, t = cmps[0]
            n += 1

            def board_is(v):
                return 'result:' in repr(v)

            judge_order(ck, 'C15-D1-numeric-order', q, fn.loc(), q, op, a, b, t, cls == 'true',
                        board_is)
            for v in (a, b):
                if board_is(v):
                    ops, src = pipeline(v)
                    pipes.add(tuple(ops))
                else:
                    ops, src = pipeline(v)
                    ck.ob('C15-D1-threshold-operand', q, ops == ['parse'] and src == thr,
                          '%s: the threshold operand is not parse(version_string)' % q, fn.loc(),
                          key=q + '::threshold')
    ck.floor('legacy min_version deciding paths', n, 1)
    # no-port and unparsable-reply answers are None
    outs = run_helper(prog, fn, port=NONE, overrides={fn.params[1]: thr}, hooks=LegacyHooks())
    ck.ob('C15-D1-no-port', q, all(o.kind == 'return' and o.value == NONE for o in outs),
          '%s without a port does not answer None' % q, fn.loc(), key=q + '::no-port')
    return pipes


def check_ebb3_min_version(ck, eng):
    fn = eng.method('min_version')
    q = fn.qualname
    thr = Opaque('param:version_string', (), 'str')
    outs = eng.run('min_version', OK, overrides={fn.params[1]: thr})
    n = 0
    for o in outs:
        if o.kind == 'raise':
            ck.ob('C15-D1-numeric-order', q, False, '%s raises %s' % (q, o.value), fn.loc(),
                  key=q + '::raises')
            continue
        cls = classify_ret(o.value)
        cmps = version_cmps(o.state.path)
        rc = returned_comparison(o.value)
        if rc is not None and not cmps:
            cmps = [rc]
            cls = 'true'
        if cls in ('true', 'false') and cmps:
            op, a, b, t = cmps[0]
            n += 1
            judge_order(ck, 'C15-D1-numeric-order', q, fn.loc(), q, op, a, b, t, cls == 'true',
                        lambda v: v == VERSION)
            other = b if a == VERSION else a
            ops, src = pipeline(other)
            ck.ob('C15-D1-threshold-operand', q, ops == ['parse'] and src == thr,
                  '%s: the threshold operand is not parse(version_string)' % q, fn.loc(),
                  key=q + '::threshold')
    ck.floor('EBB3 min_version deciding paths', n, 1)
    # version_parsed is only ever stored from parse(...) of the handshake reply
    stores = []
    for name, m in public_methods(eng.cls).items():
        for node in ast.walk(m.node):
            if isinstance(node, ast.Attribute) and node.attr == 'version_parsed' and \
                    isinstance(node.ctx, ast.Store):
                stores.append((m, node))
    ck.saw('version_parsed_stores', ['%s:%d' % (m.qualname, n.lineno) for m, n in stores])
    ck.floor('stores to version_parsed', len(stores), 1)


# ---------------------------------------------------------------------------- D2-D4 connect
def connect_states():
    """Entry states of connect: not connected; fresh object or one that was connected before
    (stale version fields); with and without an earlier error."""
    out = []
    for ts in (DISC, DISC_ERR):
        for label, ver in (('fresh object', NONE), ('reconnect after an earlier connection', STALE)):
            st = initial_state(ts)
            st.fields[('self', 'version_parsed')] = ver
            st.fields[('self', 'version')] = NONE if ver == NONE else Opaque('STALE_TEXT', (), 'str')
            out.append((ts, label, st))
    return out


def check_connect(ck, eng):
    fn = eng.method('connect')
    q = fn.qualname
    cls = eng.cls
    minv, _ = cls.lookup_attr('MIN_VERSION_STRING')
    ok_lit = isinstance(minv, ast.Constant) and isinstance(minv.value, str) and \
        re.fullmatch(r'\d+(\.\d+)*', minv.value) is not None
    ck.ob('C15-D2-min-constant', 'MIN_VERSION_STRING', ok_lit,
          'EBB3.MIN_VERSION_STRING is not a literal dotted version number', fn.loc(),
          key='EBB3::MIN_VERSION_STRING')
    min_text = minv.value if ok_lit else None
    n_true = n_false = 0
    from ..ebb3 import EBB3Hooks

    def handshake_hooks():
        # the device on the port is unknown until it is verified: its reply may be any bytes, so
        # decoding it may raise UnicodeDecodeError ("non-EBB" reply sequences of the statement)
        hk = EBB3Hooks(eng, inject=eng.inject, summarised=eng.summarised, exclude='connect')
        hk.decode_faults = True
        return hk
    for ts, label, st0 in connect_states():
        outs = eng.run('connect', ts, st=st0.copy(), hooks=handshake_hooks(),
                       overrides={fn.params[1]: Opaque('param:given_name', (), 'str')})
        outs += eng.run('connect', ts, st=st0.copy(), hooks=handshake_hooks(),
                        overrides={fn.params[1]: NONE})
        where = '%s from %s, %s' % (q, ts.name, label)
        raised = None
        for o in outs:
            if o.kind == 'raise':
                # a serial fault after the device was verified and found supported (while switching
                # syntax mode / reading the nickname) is outside the statement's device classes:
                # recorded as an observation, not judged
                supported = any(says_supported(op, a, b, t) for op, a, b, t in
                                version_cmps(o.state.path))
                if str(o.value) == 'serial.SerialException' and supported:
                    ck.saw('observations', 'connect lets a SerialException escape at line %s '
                           '(after successful verification; not covered by the statement)'
                           % [n[2] for n in o.state.notes if n[0] == 'raised-by'][-1:])
                    continue
                raised = 'raises %s (%s)' % (o.value, '; '.join(
                    '%s at line %s' % (n[1], n[2]) for n in o.state.notes
                    if n[0] in ('none-deref', 'raised-by')) or 'in the handshake')
                continue
            cls_ret = classify_ret(o.value)
            port_open, err_set = ts_of_state(o.state)
            ws = [e for e in o.state.effects if is_port_call(e, ('write',))]
            sums = [e for e in o.state.effects if e.kind == 'summary' and e.args[0].wrote]
            probes = [e for e in ws if e.args and e.args[0] == PROBE]
            if cls_ret == 'true':
                n_true += 1
                # (i) "EBB" seen in a reply of this handshake
                ebb_ok = any(isinstance(c, In) and t and isinstance(c.item, Str) and
                             c.item.is_lit() and c.item.text() == 'EBB' and
                             reply_ordinals(c.container) - {-1}
                             for c, t in o.state.path)
                ck.ob('C15-D2-verified', where, ebb_ok,
                      '%s returns True on a path on which no probe reply of this handshake '
                      'contained "EBB"' % q, fn.loc(), key=q + '::true-unverified')
                # (ii) version of THIS handshake >= minimum
                cmps = version_cmps(o.state.path)
                good = False
                why = 'no version comparison on the path'
                for op, a, b, t in cmps:
                    def board_is(v):
                        return bool(reply_ordinals(v) - {-1}) or v == STALE
                    stale = (a == STALE or b == STALE)
                    if stale:
                        why = 'the version that passes the minimum test is the one stored by an ' \
                              'earlier connection (this reply had no parsable "Firmware Version"), ' \
                              'not the one this device reported'
                        continue
                    thr_v = b if board_is(a) else a
                    ops, src = pipeline(thr_v)
                    if not (ops == ['parse'] and isinstance(src, Str) and src.is_lit()
                            and src.text() == min_text):
                        why = 'the version is not compared with MIN_VERSION_STRING'
                        continue
                    if judge_order(ck, 'C15-D1-numeric-order', where, fn.loc(), q + '::connect',
                                   op, a, b, t, True, board_is):
                        good = True
                ck.ob('C15-D2-supported', where, good,
                      '%s returns True although %s' % (q, why), fn.loc(),
                      key=q + '::true-unsupported')
                if ts.err_set:
                    ck.ob('C15-D2-error-kept', where, err_set,
                          '%s ends with the earlier error cleared: requests to an unsupported or '
                          'failed device are unblocked by calling connect again' % q, fn.loc(),
                          key=q + '::error-cleared')
            else:
                n_false += 1
                ck.ob('C15-D3-failure-recorded', where, cls_ret == 'false' and err_set,
                      '%s %s; every failed connection must return False with an error recorded'
                      % (q, ('returns a %s value' % cls_ret) + (
                          ' without recording an error' if not err_set else '')),
                      fn.loc(), key=q + '::failure-unrecorded')
                extra = [e for e in ws if e not in probes]
                ck.ob('C15-D4-only-probe', where, not extra and not sums and len(probes) <= 2,
                      '%s transmits %s to a device it then rejects (only the v probe, at most '
                      'twice, may reach an unverified or unsupported device)'
                      % (q, ['line %d' % e.line for e in extra + sums] or '%d probes' % len(probes)),
                      fn.loc(), key=q + '::extra-bytes')
                verified_path = any(isinstance(c, In) and t and isinstance(c.item, Str) and
                                    c.item.is_lit() and c.item.text() == 'EBB'
                                    for c, t in o.state.path)
                if not verified_path:
                    ck.ob('C15-D4-port-closed', where, not port_open,
                          '%s returns False for an unverified device but leaves the port open' % q,
                          fn.loc(), key=q + '::port-left-open')
        ck.ob('C15-D2-never-raises', where, raised is None, '%s %s' % (q, raised), fn.loc(),
              key=q + '::raises')
    ck.floor('connect paths returning True', n_true, 2)
    ck.floor('connect paths returning False', n_false, 6)
    # already connected: shortcut
    outs = eng.run('connect', OK)
    ck.ob('C15-D2-already-connected', q, all(
        o.kind == 'return' and classify_ret(o.value) == 'true' and not port_writes(o.state.effects)
        for o in outs), '%s on a connected, error-free object does not return True silently' % q,
        fn.loc(), key=q + '::already-connected')


def ebb3_pipeline(ck, eng):
    """Pipeline producing version_parsed in parse_version."""
    fn = eng.method('parse_version')
    reply = Opaque('reply#0', (), 'str')
    outs = eng.run('parse_version', OK, overrides={fn.params[1]: reply})
    pipes = set()
    for o in outs:
        v = o.state.fields.get(('self', 'version_parsed'))
        if isinstance(v, Opaque) and v.label == 'parse':
            ops, src = pipeline(v)
            pipes.add(tuple(ops))
            if src != reply and 'reply#0' in repr(src):
                # derived from the reply by an operation the pipeline reader does not know
                raise AnalysisError('%s derives the version from the reply through %r; the '
                                    'pipeline rule does not know this operation'
                                    % (fn.qualname, src))
            ck.ob('C15-D1-pipeline-source', fn.qualname, src == reply,
                  '%s does not parse the handshake reply it was given' % fn.qualname, fn.loc(),
                  key=fn.qualname + '::source')
    return pipes


# ---------------------------------------------------------------------------- D5 gates
def check_gates(ck, prog):
    n = 0
    for qual, (cmd, minimum) in sorted(GATES.items()):
        fn = prog.func(qual)
        over = {}
        if qual.endswith('write_nickname'):
            over[fn.params[1]] = Opaque('param:nickname', (), 'str')
        # flag parameters (verbose=True and the like) are part of the request: every setting
        import itertools as _it
        flags = [p_ for p_, d_ in fn.defaults().items()
                 if isinstance(d_, ast.Constant) and isinstance(d_.value, bool)][:3]
        settings = [dict(zip(flags, vals)) for vals in _it.product((True, False), repeat=len(flags))]
        for (answer, label), setting in _it.product(
                ((TRUE, 'True'), (FALSE, 'False'), (NONE, 'None')), settings):
            over_s = dict(over)
            for p_, v_ in setting.items():
                over_s[p_] = Const(v_)
            if setting and any(v_ != fn.defaults()[p_].value for p_, v_ in setting.items()):
                label = label + ', ' + ', '.join('%s=%s' % kv for kv in sorted(setting.items()))
            outs = run_helper(prog, fn, overrides=over_s,
                              hooks=LegacyHooks(minver_answers=(answer,)))
            sent, thresholds = [], set()
            for o in outs:
                for e in o.state.effects:
                    if e.kind == 'minver':
                        v = e.args[1]
                        thresholds.add(v.text() if isinstance(v, Str) and v.is_lit() else repr(v))
                for e in transports(o.state.effects):
                    if e.kind == 'transport':
                        t = e.args[1]
                        txt = ''.join(p if isinstance(p, str) else '{}' for p in t.parts) \
                            if isinstance(t, Str) else repr(t)
                        if txt != 'V\r':
                            sent.append(txt)
                    else:
                        sent.append('<direct write>')
            inst = '%s[min_version answers %s]' % (qual, label)
            n += 1
            label = label.split(',')[0]
            if answer == TRUE:
                ck.ob('C15-D5-gate', inst, bool(sent) and all(s.startswith(cmd) for s in sent),
                      '%s does not send its %s command when the firmware is new enough (sends %s)'
                      % (qual, cmd, sent), fn.loc(), key=qual + '::gate-open')
                ck.ob('C15-D5-threshold', inst, thresholds == {minimum},
                      '%s gates %s on firmware %s; the documented minimum is %s'
                      % (qual, cmd, sorted(thresholds), minimum), fn.loc(),
                      key=qual + '::threshold')
            else:
                ck.ob('C15-D5-gate', inst, not sent,
                      '%s transmits %s although min_version answered %s (%s); the command needs '
                      'firmware %s' % (qual, sent, label,
                                       'older board' if answer == FALSE else
                                       'version could not be determined', minimum),
                      fn.loc(), key=qual + '::gate-closed-%s' % label)
    ck.floor('gate cases', n, 15)


def run(ck, prog, tier):
    ck.explanation = (
        'D1 both min_version implementations, interpreted abstractly, compare packaging.version '
        'objects (operand type tags), board against threshold, answering True exactly on >=; the '
        'two layers build the board version by the same pipeline. D2-D4 EBB3.connect interpreted '
        'from 4 entry states (fresh / previously connected x with / without earlier error) x '
        'named / first-found port, with a SerialException injectable at every port call: True '
        'only on paths where a reply of this handshake contained "EBB" and the version parsed '
        'from this handshake passed the test against MIN_VERSION_STRING; never raises; an '
        'earlier error is never cleared; every other path returns False with an error recorded, '
        'has written nothing but at most two probes, and closes the port when unverified. D5 '
        'the five legacy gates transmit only on a True answer with the documented threshold.')
    ck.trusted = ['Python ast', 'vf/interp.py', 'vf/ebb3.py', 'vf/legacy.py',
                  'packaging.version orders release segments numerically component by component',
                  'gate thresholds from the helpers\' docstrings / EBB command reference']
    ck.assumptions = ['a device is "an EBB" iff a probe reply contains "EBB" (the code\'s own test)']
    base, cls, family = most_derived(prog)
    eng = Engine(prog, cls)
    # the legacy layer keeps no connection object: its answer must come from the board now on the
    # port, not from module state filled by an earlier call (a stale answer gates the wrong board)
    from .. import purity
    purity.check(ck, prog, ['ebb_serial.min_version'], 'C15-R-fresh-version',
                 note='the version must be read from the board on the port at the time of the call')
    lp = check_legacy_min_version(ck, prog)
    check_ebb3_min_version(ck, eng)
    ep = ebb3_pipeline(ck, eng)
    ck.ob('C15-D1-sibling-pipeline', 'ebb_serial.min_version <-> EBB3.parse_version',
          len(lp) == 1 and lp == ep and lp == {('parse', 'strip', '[1]',
                                                "split('Firmware Version ',1)")},
          'the two layers derive the board version differently: legacy %s, EBB3 %s (expected '
          'parse(strip(split(reply, "Firmware Version ", 1)[1])) in both)' % (sorted(lp), sorted(ep)),
          'plotink/ebb_serial.py', key='min_version::pipeline-agreement')
    ck.sample({'legacy_pipeline': sorted(lp), 'ebb3_pipeline': sorted(ep)})
    check_connect(ck, eng)
    check_gates(ck, prog)
    ck.extra['engine_stats'] = eng.stats
