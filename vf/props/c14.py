"""C14 - R-tree: partition coverage, extent fold, closed-interval overlap tests, union of results,
termination measure, no shared mutable class state."""

import ast
import itertools

from ..poly import Sym
from .. import poly
from ..interp import (Interp, Hooks, Opaque, Tup, Const, Cmp, State, ObjRef, Effect, Bound, FuncRef,
                      NONE, fold_cond, COND_TYPES, Truthy, NotC, Sym as _Sym)
from ..order import weak_orderings, OrderCase, describe
from ..model import AnalysisError

# the recursive construction Index(...) inside Index.__init__ is the induction step of D1/D2, not
# an unmodelled construct
EXPECTED_GAPS = {('instance', 'rtree.Index'), ('loop', '*')}

ROLES = ('xlo', 'ylo', 'xhi', 'yhi')   # box tuple layout (xmin, ymin, xmax, ymax) - the public format


class Collect(Hooks):
    def __init__(self):
        self.conds = []

    def decide(self, cond, st):
        if isinstance(cond, Cmp):
            self.conds.append(cond)
        return None


def box_value(prefix):
    return Tup(tuple(Sym.var(prefix + r) for r in ROLES))


def components(conds, pinned):
    """Group atoms that are compared with each other; returns list of sorted atom-name lists."""
    parent = {}

    def find(x):
        parent.setdefault(x, x)
        while parent[x] != x:
            parent[x] = parent[parent[x]]
            x = parent[x]
        return x

    def union(a, b):
        parent[find(a)] = find(b)

    for a, b in pinned:
        union(a, b)
    for c in conds:
        names = sorted(at[1] for at in c.a.atoms() if at[0] == 'v')
        if any(at[0] != 'v' for at in c.a.atoms()):
            raise AnalysisError('comparison over a non-variable term: %r' % (c,))
        for n in names:
            find(n)
        for n in names[1:]:
            union(names[0], n)
    groups = {}
    for n in parent:
        groups.setdefault(find(n), []).append(n)
    return [sorted(g) for g in groups.values()]


def cases_for(groups, constraints):
    """Product of weak orderings of each group under the constraints that fall inside it."""
    per_group = []
    for g in groups:
        cons = [c for c in constraints if c[0] in g and c[2] in g]
        per_group.append([(g, r) for r in weak_orderings(g, cons)])
    for combo in itertools.product(*per_group):
        yield OrderCase([({n: Sym.var(n) for n in g}, r) for g, r in combo]), \
            ' | '.join(describe(r) for _, r in combo), {n: r[n] for g, r in combo for n in g}


def eval_cond(it, node, env, case):
    """Evaluate a boolean AST expression under env and an order case -> bool (AnalysisError if
    undecided)."""
    it.hooks = case
    outs = list(it.ev_cond(node, State(env=dict(env))))
    res = set()
    for c, s in outs:
        if s.raised:
            raise AnalysisError('condition raises %s' % s.raised)
        for b, s2 in it.branch(c, s):
            if s2.path:
                raise AnalysisError('condition %s not decided by order type (undecided %r)'
                                    % (ast.unparse(node), s2.path[-1][0]))
            res.add(b)
    if len(res) != 1:
        raise AnalysisError('condition %s has no single truth value in an order type'
                            % ast.unparse(node))
    return res.pop()


def find_filters(ck, prog, fn):
    """The quadrant filter comprehensions of __init__: returns (list name, [comp nodes])."""
    param = fn.params[1] if len(fn.params) > 1 else None
    best = None
    for node in ast.walk(fn.node):
        if isinstance(node, ast.Assign) and isinstance(node.value, ast.List) and node.value.elts \
                and all(isinstance(e, ast.ListComp) for e in node.value.elts) \
                and isinstance(node.targets[0], ast.Name):
            best = (node.targets[0].id, node.value.elts, node)
    if best is None:
        raise AnalysisError('quadrant filter list (a list of list-comprehensions) not found in '
                            '%s' % fn.qualname)
    return best


def check_partition(ck, prog, fn):
    name, comps, node = find_filters(ck, prog, fn)
    param = fn.params[1]
    it = Interp(prog)
    it.stack.append(fn)
    elem = Tup((Sym.var('id'), box_value('')))
    filters = []
    for k, comp in enumerate(comps):
        if len(comp.generators) != 1 or not (isinstance(comp.generators[0].iter, ast.Name)
                                             and comp.generators[0].iter.id == param):
            ck.ob('C14-D1-partition', 'filter[%d]::source' % k, False,
                  'quadrant list %d is not a filter over the constructor argument %r (boxes could '
                  'be lost or invented)' % (k, param), fn.loc(comp), key='Index.__init__::filter-source')
            continue
        gen = comp.generators[0]
        env = {}
        st = State(env=env)
        sts = list(it.assign(gen.target, elem, st))
        env = sts[0].env
        # the element must be reproduced unchanged
        vals = list(it.ev(comp.elt, State(env=dict(env))))
        same = len(vals) == 1 and vals[0][0] == elem
        ck.ob('C14-D1-partition', 'filter[%d]::element-unchanged' % k, same,
              'quadrant list %d stores %s, not the unmodified (id, box) entry' % (
                  k, ast.unparse(comp.elt)), fn.loc(comp), key='Index.__init__::filter-element')
        cond = gen.ifs[0] if len(gen.ifs) == 1 else ast.BoolOp(op=ast.And(), values=list(gen.ifs))
        if not gen.ifs:
            cond = ast.Constant(value=True)
        env = dict(env)
        for nm in ast.walk(cond):   # split-point locals are free symbols: any value is allowed
            if isinstance(nm, ast.Name) and nm.id not in env:
                env[nm.id] = Sym.var('free:' + nm.id)
        filters.append((k, cond, env))
    ck.floor('quadrant filters', len(filters), 2)
    # collect compared atoms
    col = Collect()
    it.hooks = col
    for k, cond, env in filters:
        for c, s in it.ev_cond(cond, State(env=dict(env))):
            list(it.branch(c, s))
    groups = components(col.conds, [('xlo', 'xhi'), ('ylo', 'yhi')])
    constraints = [('xlo', '<=', 'xhi'), ('ylo', '<=', 'yhi')]
    n = 0
    uncovered = []
    for case, desc, ranks in cases_for(groups, constraints):
        n += 1
        hit = [k for k, cond, env in filters if eval_cond(it, cond, env, case)]
        ok = bool(hit)
        ck.ob('C14-D1-partition', 'cover[%s]' % desc, ok,
              'a box with order type [%s] relative to the split point satisfies none of the %d '
              'quadrant filters: it is stored in no subtree and can never be returned'
              % (desc, len(filters)), fn.loc(node), key='Index.__init__::partition-cover')
        if n <= 3:
            ck.sample({'box_order_type': desc, 'quadrants': hit})
    ck.floor('partition order types', n, 64)
    ck.saw('filters', [ast.unparse(c) for _, c, _ in filters])
    it.stack.pop()
    return name, comps, node


def flat_minmax(v, kind):
    """Leaves of a (nested) MIN / MAX term, or None."""
    if not isinstance(v, _Sym):
        return None
    at = v.as_atom()
    if at is not None and at[0] == 'f' and at[1] == kind:
        out = set()
        for a in at[2]:
            sub = flat_minmax(a, kind)
            out |= sub if sub is not None else {a}
        return out
    return {v}


def semantic_constructor(ck, prog, cls, fn, why):
    """The constructor run on a list of two symbolic boxes - the box B under study and a second
    box C whose only role is to make the split point an arbitrary number - for every order type
    of B relative to the split point.  What is read off is independent of how the code is
    written (comprehensions, append loops, helper predicates, tables of lambdas, value classes):
    D1 B is stored unchanged in the node itself or in at least one child list, and nothing but the
    given entries is stored; D2 the extent fields are the MIN / MAX of the own coordinate over
    both boxes; D4 a node without children keeps all its boxes; D5 children are built only when
    every child list is strictly shorter than the node."""
    from ..poly import mk_func
    elem_b = Tup((Sym.var('id'), box_value('')))
    elem_c = Tup((Sym.var('idc'), box_value('c')))
    bboxes = Tup((elem_b, elem_c), 'list')
    V_ = Sym.var
    cx = (V_('xlo') / 2 + V_('xhi') / 2) / 2 + (V_('cxlo') / 2 + V_('cxhi') / 2) / 2
    cy = (V_('ylo') / 2 + V_('yhi') / 2) / 2 + (V_('cylo') / 2 + V_('cyhi') / 2) / 2
    tx = {'lo': V_('xlo'), 'hi': V_('xhi'), 'c': cx}
    ty = {'lo': V_('ylo'), 'hi': V_('yhi'), 'c': cy}
    others = [V_('c' + r) for r in ROLES]
    axis = list(weak_orderings(['lo', 'hi', 'c'], [('lo', '<=', 'hi')]))

    class Case(OrderCase):
        foreign = None

        def decide(self, cond, st):
            r = OrderCase.decide(self, cond, st)
            if r is None and isinstance(cond, Cmp) and isinstance(cond.a, _Sym) and \
                    isinstance(cond.b, _Sym):
                # a test of the second box against the split point: both outcomes are possible
                # and both are explored; anything else undecided is a test this case analysis
                # does not understand
                self.undecided.pop()
                d = cond.a - cond.b
                if not any((d + c_ - o).is_const() or (d - c_ + o).is_const() or
                           (d + c_ + o).is_const() or (d - c_ - o).is_const()
                           for c_ in (cx, cy) for o in others):
                    self.foreign = cond
            return r
    n_cases = n_paths = 0
    sample = None
    for rx in axis:
        for ry in axis:
            case = Case([(tx, rx), (ty, ry)])
            it = Interp(prog, case, max_paths=4000)
            it.self_cls = cls
            outs = it.run(fn, [bboxes], self_obj=ObjRef('self', cls))
            desc = 'x: %s | y: %s' % (describe(rx), describe(ry))
            if case.foreign is not None:
                raise AnalysisError('%s (%s); on two symbolic boxes the constructor tests %r, '
                                    'which is not a comparison of a box coordinate with the split '
                                    'point' % (fn.qualname, why, case.foreign))
            if case.undecided:
                # e.g. a filter on the child nodes (a method of the child, its fields): both
                # outcomes were explored although only one may be possible
                raise AnalysisError('%s (%s); on two symbolic boxes the constructor tests %r, '
                                    'which the order type does not decide'
                                    % (fn.qualname, why, case.undecided[0]))
            n_cases += 1
            for o in outs:
                n_paths += 1
                if o.kind == 'raise':
                    ck.ob('C14-D1-partition', 'constructor[%s]' % desc, False,
                          'the constructor raises %s for two boxes with order type [%s]'
                          % (o.value, desc), fn.loc(), key='Index.__init__::raises')
                    continue
                f = o.state.fields
                kept = f.get(('self', 'bboxes'))
                subs = f.get(('self', 'subtrees'))
                kept_items = list(kept.items) if isinstance(kept, Tup) else []
                child_lists = []
                bad_child = None
                for ch in (subs.items if isinstance(subs, Tup) else ()):
                    if isinstance(ch, Opaque) and ch.label.startswith('new:') and ch.args and \
                            isinstance(ch.args[0], Tup):
                        child_lists.append(list(ch.args[0].items))
                    else:
                        bad_child = ch
                if bad_child is not None or (subs is not None and not isinstance(subs, Tup)) or \
                        (kept is not None and not isinstance(kept, Tup)):
                    raise AnalysisError('%s (%s); the stores of the node are not lists of entries '
                                        '/ of child nodes built from lists: %r / %r'
                                        % (fn.qualname, why, kept, subs))
                stored = kept_items + [e for l in child_lists for e in l]
                foreign = [e for e in stored if e not in (elem_b, elem_c)]
                ck.ob('C14-D1-partition', 'entries-unchanged[%s]' % desc, not foreign,
                      'the node stores %r, which is not one of the (id, box) entries it was given'
                      % (foreign[:1],), fn.loc(), key='Index.__init__::filter-element')
                covered = elem_b in kept_items or any(elem_b in l for l in child_lists)
                ck.ob('C14-D1-partition', 'cover[%s]' % desc, covered,
                      'a box with order type [%s] relative to the split point is stored neither in '
                      'the node nor in any child list: it can never be returned' % desc, fn.loc(),
                      key='Index.__init__::partition-cover')
                if child_lists:
                    ck.ob('C14-D5-termination', 'children-shrink[%s]' % desc,
                          all(len(l) < 2 for l in child_lists),
                          'children are built although a child list holds all %d boxes of the node '
                          '(no strictly decreasing measure: construction may not terminate)' % 2,
                          fn.loc(), key='Index.__init__::recursion-guard')
                else:
                    ck.ob('C14-D4-both-stores', 'leaf-keeps-all[%s]' % desc,
                          kept_items == [elem_b, elem_c] or sorted(map(repr, kept_items)) ==
                          sorted(map(repr, [elem_b, elem_c])),
                          'a node without children keeps %d of its 2 boxes' % len(kept_items),
                          fn.loc(), key='Index.__init__::leaf-store')
                want = {'xmin': ('MIN', 'xlo'), 'ymin': ('MIN', 'ylo'), 'xmax': ('MAX', 'xhi'),
                        'ymax': ('MAX', 'yhi')}
                if all(f.get(('self', fld)) is None for fld in want):
                    # the extent is not kept in the four plain fields (one tuple, properties,
                    # a value object): where pruning reads it from is not followed here
                    raise AnalysisError('%s (%s); the node does not keep its extent in the '
                                        'fields xmin / ymin / xmax / ymax' % (fn.qualname, why))
                for fld, (kind, role) in want.items():
                    got = flat_minmax(f.get(('self', fld)), kind)
                    inf = V_('INF') if kind == 'MIN' else -V_('INF')
                    need = {V_(role), V_('c' + role)}
                    ck.ob('C14-D2-extent', 'fold::%s[%s]' % (fld, desc),
                          got is not None and got - {inf} == need,
                          'for two boxes the extent field %s is %r; it must be the %s of %s over '
                          'both boxes (a true bound of every stored box is needed for pruning to '
                          'be safe)' % (fld, f.get(('self', fld)), kind, role), fn.loc(),
                          key='Index.__init__::extent-fold')
                if sample is None:
                    sample = {'order_type': desc, 'children': [len(l) for l in child_lists],
                              'kept': len(kept_items)}
    ck.floor('constructor order types (two symbolic boxes)', n_cases, 49)
    ck.saw('constructor_semantic', {'reason': why, 'order_types': n_cases, 'paths': n_paths})
    if sample:
        ck.sample(sample)


def check_extent_fold(ck, prog, fn, cls):
    """D2: the loop over all boxes folds each extent field with min/max of its own coordinate,
    starting from +inf/-inf."""
    body = fn.body()
    loops = [s for s in body if isinstance(s, ast.For)]
    loop = None
    for lp in loops:
        if isinstance(lp.iter, ast.Name) and lp.iter.id == fn.params[1]:
            loop = lp
            break
    if loop is None:
        raise AnalysisError('extent loop over the constructor argument not found')
    it = Interp(prog)
    it.stack.append(fn)
    selfobj = ObjRef('self', cls)
    st = State(env={'self': selfobj, fn.params[1]: Opaque('param:bboxes', (), 'list')})
    pre = body[:body.index(loop)]
    outs = [o for o in it.exec_block(pre, st)]
    if len(outs) != 1 or outs[0].kind != 'fall':
        raise AnalysisError('statements before the extent loop are not straight-line')
    st0 = outs[0].state
    INF = Sym.var('INF')
    want_init = {'xmin': INF, 'ymin': INF, 'xmax': -INF, 'ymax': -INF}
    for f, w in want_init.items():
        got = st0.fields.get(('self', f))
        ck.ob('C14-D2-extent', 'init::%s' % f, isinstance(got, _Sym) and got == w,
              'extent field %s starts at %r, expected %r (so the first box always replaces it)'
              % (f, got, w), fn.loc(loop), key='Index.__init__::extent-init')
    # one symbolic iteration
    acc = {f: Sym.var('F_' + f) for f in want_init}
    s1 = st0.copy()
    for f, v in acc.items():
        s1.fields[('self', f)] = v
    elem = Tup((Sym.var('id'), box_value('')))
    s1 = list(it.assign(loop.target, elem, s1))[0]
    outs = [o for o in it.exec_block(loop.body, s1)]
    if len(outs) != 1 or outs[0].kind != 'fall' or outs[0].state.path:
        raise AnalysisError('extent loop body is not straight-line')
    s2 = outs[0].state
    from ..poly import mk_func
    want = {'xmin': mk_func('MIN', acc['xmin'], Sym.var('xlo')),
            'ymin': mk_func('MIN', acc['ymin'], Sym.var('ylo')),
            'xmax': mk_func('MAX', acc['xmax'], Sym.var('xhi')),
            'ymax': mk_func('MAX', acc['ymax'], Sym.var('yhi'))}
    for f, w in want.items():
        got = s2.fields.get(('self', f))
        ck.ob('C14-D2-extent', 'fold::%s' % f, isinstance(got, _Sym) and got == w,
              'after one box the extent field %s is %r, expected %r (a true bound of every stored '
              'box is needed for pruning to be safe)' % (f, got, w), fn.loc(loop),
              key='Index.__init__::extent-fold')
    ck.sample({'extent_fold': {f: repr(s2.fields.get(('self', f))) for f in want}})
    it.stack.pop()


def overlap_cases():
    names = ['q1', 'q2', 'b1', 'b2']
    cons = [('q1', '<=', 'q2'), ('b1', '<=', 'b2')]
    return list(weak_orderings(names, cons))


def check_intersection(ck, prog, fn, cls, tier):
    body = fn.body()
    loops = [s for s in body if isinstance(s, ast.For)]
    it = Interp(prog)
    it.self_cls = cls
    it.stack.append(fn)
    selfobj = ObjRef('self', cls)
    qbox = Tup(tuple(Sym.var('q' + r) for r in ROLES))
    bparam = fn.params[1]
    st = State(env={'self': selfobj, bparam: qbox},
               fields={('self', 'bboxes'): Opaque('self.bboxes', (), 'list'),
                       ('self', 'subtrees'): Opaque('self.subtrees', (), 'list')})
    leaf = sub = None
    for lp in loops:
        vals = list(it.ev(lp.iter, st))
        v = vals[0][0]
        if v == Opaque('self.bboxes', (), 'list'):
            leaf = lp
        elif v == Opaque('self.subtrees', (), 'list'):
            sub = lp
    if leaf is None or sub is None:
        # a loop-free body is only evidence of a missing traversal when nothing else in it can
        # traverse: a call of another method / helper with the stores, or a comprehension over
        # them, is a different way of writing the same thing and is not judged here
        elsewhere = [n for n in ast.walk(fn.node)
                     if isinstance(n, (ast.ListComp, ast.SetComp, ast.GeneratorExp, ast.DictComp))
                     or (isinstance(n, ast.Call) and isinstance(n.func, ast.Attribute)
                         and isinstance(n.func.value, ast.Name) and n.func.value.id == 'self'
                         and cls.lookup(n.func.attr) is not None
                         and cls.lookup(n.func.attr) is not fn)]
        if elsewhere:
            raise AnalysisError('intersection() does not iterate its stores in top-level loops '
                                '(it delegates to %s at line %d); the overlap rules read those '
                                'loops and cannot conclude' % (
                                    ast.unparse(elsewhere[0])[:40], elsewhere[0].lineno))
    ck.ob('C14-D4-both-stores', 'intersection::leaf-loop', leaf is not None,
          'intersection() has no top-level loop over all of self.bboxes', fn.loc(),
          key='Index.intersection::leaf-loop')
    ck.ob('C14-D4-both-stores', 'intersection::subtree-loop', sub is not None,
          'intersection() has no top-level loop over all of self.subtrees', fn.loc(),
          key='Index.intersection::subtree-loop')
    if leaf is None or sub is None:
        return
    first = min(body.index(leaf), body.index(sub))
    outs = list(it.exec_block(body[:first], st))
    if len(outs) != 1 or outs[0].kind != 'fall':
        raise AnalysisError('prologue of intersection() is not straight-line')
    st0 = outs[0].state
    # which local holds the result set?
    sets = [n for n, v in st0.env.items() if isinstance(v, Tup) and v.kind == 'set']
    if len(sets) != 1:
        raise AnalysisError('result set of intersection() not identified')
    acc = sets[0]
    acc0 = Opaque('ids0', (), 'set')
    st0 = st0.bind(acc, acc0)
    axis = overlap_cases()
    ck.extra['interval_order_types_per_axis'] = len(axis)
    terms = lambda a: {'q1': Sym.var('q%slo' % a), 'q2': Sym.var('q%shi' % a),
                       'b1': Sym.var('%slo' % a), 'b2': Sym.var('%shi' % a)}
    overlap = lambda r: r['q1'] <= r['b2'] and r['b1'] <= r['q2']
    n = 0
    # ---- leaf loop: id added exactly when the closed boxes share a point
    elem = Tup((Sym.var('id'), box_value('')))
    subobj = ObjRef('subt', cls)
    sfields = {('subt', 'xmin'): Sym.var('xlo'), ('subt', 'ymin'): Sym.var('ylo'),
               ('subt', 'xmax'): Sym.var('xhi'), ('subt', 'ymax'): Sym.var('yhi')}
    state = {'call_val': None}

    class Und(Exception):
        pass

    def judge_leaf(case, rx, ry, desc, witness=''):
        it.hooks = case
        s1 = list(it.assign(leaf.target, elem, st0))[0]
        outs = list(it.exec_block(leaf.body, s1))
        if len(outs) != 1 or outs[0].state.path or outs[0].kind not in ('fall', 'continue'):
            raise Und(repr(case.undecided[:2]))
        effs = [e for e in outs[0].state.effects if e.kind == 'call'
                and isinstance(e.target, Bound) and e.target.name == 'add'
                and e.target.obj == acc0]
        added = bool(effs) and effs[0].args == (Sym.var('id'),)
        extra = [e for e in outs[0].state.effects if e not in effs]
        want = overlap(rx) and overlap(ry)
        ck.ob('C14-D3-leaf-overlap', desc, added == want and not extra,
              'for interval order type [%s] the leaf test %s the id but the boxes %s a point '
              '(closed intervals, touching counts)%s' % (
                  desc, 'adds' if added else 'does not add',
                  'share' if want else 'do not share', witness), fn.loc(leaf),
              key='Index.intersection::leaf-test')

    def judge_sub(case, rx, ry, desc, witness=''):
        it.hooks = case
        s1 = st0.copy()
        s1.fields.update(sfields)
        s1 = list(it.assign(sub.target, subobj, s1))[0]
        outs = list(it.exec_block(sub.body, s1))
        if len(outs) != 1 or outs[0].state.path or outs[0].kind not in ('fall', 'continue'):
            raise Und(repr(case.undecided[:2]))
        s2 = outs[0].state
        calls = [e for e in s2.effects if e.kind == 'call' and isinstance(e.target, FuncRef)
                 and e.target.qual == fn.qualname]
        descended = bool(calls)
        want = overlap(rx) and overlap(ry)
        ck.ob('C14-D3-subtree-prune', desc, descended or not want,
              'for extent order type [%s] the subtree is pruned although its extent shares a '
              'point with the query (results inside it are missed)%s' % (desc, witness),
              fn.loc(sub), key='Index.intersection::subtree-prune')
        if descended and state['call_val'] is None:
            ok_q = calls[0].args == (qbox,)
            got = s2.env.get(acc)
            cv = Opaque('call:' + fn.qualname, (qbox,))
            upd = [e for e in s2.effects if e.kind == 'call' and isinstance(e.target, Bound)
                   and e.target.obj == acc0 and e.target.name == 'update' and e.args == (cv,)]
            ok_u = got in (Opaque('binop:BitOr', (acc0, cv)), Opaque('binop:BitOr', (cv, acc0))) \
                or (got == acc0 and bool(upd))
            state['call_val'] = (ok_q, ok_u, got)

    def witnesses():
        from fractions import Fraction as Fr
        iv = [(Fr(a), Fr(b)) for a in range(3) for b in range(a, 3)]
        for qx in iv:
            for bx in iv:
                for qy in iv:
                    for by in iv:
                        yield {'qxlo': qx[0], 'qxhi': qx[1], 'xlo': bx[0], 'xhi': bx[1],
                               'qylo': qy[0] + 5, 'qyhi': qy[1] + 5, 'ylo': by[0] + 5,
                               'yhi': by[1] + 5}
        for qx in iv:            # same ranges on both axes (exposes x/y mix-ups)
            for bx in iv:
                for qy in iv:
                    for by in iv:
                        yield {'qxlo': qx[0], 'qxhi': qx[1], 'xlo': bx[0], 'xhi': bx[1],
                               'qylo': qy[0], 'qyhi': qy[1], 'ylo': by[0], 'yhi': by[1]}

    for judge, what in ((judge_leaf, 'leaf overlap test'), (judge_sub, 'subtree pruning test')):
        try:
            for rx in axis:
                for ry in axis:
                    n += 1
                    case = OrderCase([(terms('x'), rx), (terms('y'), ry)])
                    judge(case, rx, ry, 'x: %s | y: %s' % (describe(rx), describe(ry)))
        except Und as und:
            # the test compares quantities across axes / outside the interval end points: search a
            # realisable counterexample on an exact rational witness grid
            from ..order import WitnessCase, ranks_of
            before = len(ck.violations)
            for w in witnesses():
                case = WitnessCase(w)
                rx, ry = ranks_of(terms('x'), w), ranks_of(terms('y'), w)
                wd = ' [counterexample query=(%s,%s,%s,%s) box=(%s,%s,%s,%s)]' % (
                    w['qxlo'], w['qylo'], w['qxhi'], w['qyhi'], w['xlo'], w['ylo'], w['xhi'],
                    w['yhi'])
                try:
                    judge(case, rx, ry, 'x: %s | y: %s' % (describe(rx), describe(ry)), wd)
                except Und as und2:
                    raise AnalysisError('%s not decidable on a concrete witness: %s' % (what, und2))
            if len(ck.violations) == before:
                raise AnalysisError('%s is not decided by the interval order types (%s) and no '
                                    'counterexample was found: cannot conclude' % (what, und))
    n //= 2
    call_val = state['call_val']
    if call_val is None:
                    call_val = (ok_q, ok_u, got)
    if call_val is None:
        ck.ob('C14-D4-union', 'intersection::recursion', False,
              'no order type descends into a subtree', fn.loc(sub),
              key='Index.intersection::recursion')
    else:
        ck.ob('C14-D4-union', 'intersection::query-unchanged', call_val[0],
              'the recursive call does not receive the unchanged query box', fn.loc(sub),
              key='Index.intersection::query-unchanged')
        ck.ob('C14-D4-union', 'intersection::results-united', call_val[1],
              'results of a subtree are not united with the ids found so far (got %r)'
              % (call_val[2],), fn.loc(sub), key='Index.intersection::results-united')
    ck.floor('interval order-type pairs', n, 169)
    # ---- the function returns the accumulator after both loops
    it2 = Interp(prog)
    it2.self_cls = cls
    outs = it2.run(fn, [qbox], self_obj=selfobj, st=State(
        fields={('self', 'bboxes'): Opaque('self.bboxes', (), 'list'),
                ('self', 'subtrees'): Opaque('self.subtrees', (), 'list')}))
    rets = {repr(o.value) for o in outs if o.kind == 'return'}
    ok = bool(rets) and all(('havoc:%s@' % acc) in r for r in rets) and \
        all(o.kind == 'return' for o in outs)
    ck.ob('C14-D4-union', 'intersection::returns-accumulator', ok,
          'intersection() does not return the accumulated id set on every path (returns %s)'
          % sorted(rets), fn.loc(), key='Index.intersection::return')
    it.stack.pop()


def check_structure(ck, prog, fn, cls, name, comps, node):
    """D4 (leaf stores all boxes), D5 (termination measure)."""
    param = fn.params[1]
    # find the If whose test compares max(len(sub)) with len(bboxes)
    target_if = None
    for s in fn.body():
        if isinstance(s, ast.If):
            target_if = s
    if target_if is None:
        raise AnalysisError('leaf/subtree decision not found in Index.__init__')
    t = target_if.test

    def is_len_param(e):
        return isinstance(e, ast.Call) and isinstance(e.func, ast.Name) and e.func.id == 'len' \
            and len(e.args) == 1 and isinstance(e.args[0], ast.Name) and e.args[0].id == param

    def is_max_len_subs(e):
        if not (isinstance(e, ast.Call) and isinstance(e.func, ast.Name) and e.func.id == 'max'
                and len(e.args) == 1):
            return False
        a = e.args[0]
        if isinstance(a, ast.Call) and isinstance(a.func, ast.Name) and a.func.id == 'map' \
                and len(a.args) == 2 and isinstance(a.args[0], ast.Name) and a.args[0].id == 'len' \
                and isinstance(a.args[1], ast.Name) and a.args[1].id == name:
            return True
        if isinstance(a, (ast.GeneratorExp, ast.ListComp)) and len(a.generators) == 1 \
                and isinstance(a.generators[0].iter, ast.Name) and a.generators[0].iter.id == name \
                and not a.generators[0].ifs and isinstance(a.elt, ast.Call) \
                and isinstance(a.elt.func, ast.Name) and a.elt.func.id == 'len':
            return True
        return False

    polarity = None
    if isinstance(t, ast.Compare) and len(t.ops) == 1:
        l, r = t.left, t.comparators[0]
        if (is_max_len_subs(l) and is_len_param(r)) or (is_max_len_subs(r) and is_len_param(l)):
            if isinstance(t.ops[0], ast.Eq):
                polarity = True      # body = "some quadrant did not shrink"
            elif isinstance(t.ops[0], ast.NotEq):
                polarity = False
            elif isinstance(t.ops[0], (ast.GtE,)) and is_max_len_subs(l):
                polarity = True
            elif isinstance(t.ops[0], (ast.Lt,)) and is_max_len_subs(l):
                polarity = False
    if polarity is None:
        mentions = {n.id for n in ast.walk(t) if isinstance(n, ast.Name)}
        extra_measure = len(fn.params) > 2      # e.g. a depth parameter
        if name not in mentions and not extra_measure:
            # the only available measure is the list size and the quadrant lists are filters
            # (len(sub) <= len(node)); a guard that does not look at them cannot establish a
            # strict decrease: boxes the split cannot separate (duplicates, nested, crossing at
            # one point) recurse forever
            ck.ob('C14-D5-termination', 'Index.__init__::recursion-guarded', False,
                  'the decision between leaf and subtrees (%s) does not compare the quadrant '
                  'lists with the node: a quadrant as large as the node recurses forever (no '
                  'strictly decreasing measure)' % ast.unparse(t), fn.loc(target_if),
                  key='Index.__init__::recursion-guard')
            return
        raise AnalysisError('leaf test is not a comparison of max(len(sub)) with len(%s): %s'
                            % (param, ast.unparse(t)))
    leaf_body = target_if.body if polarity else target_if.orelse
    rec_body = target_if.orelse if polarity else target_if.body
    # recursion sites
    rec_sites = [n for n in ast.walk(fn.node) if isinstance(n, ast.Call)
                 and isinstance(n.func, ast.Name) and n.func.id == cls.name]
    in_rec = [n for b in rec_body for n in ast.walk(b) if isinstance(n, ast.Call)
              and isinstance(n.func, ast.Name) and n.func.id == cls.name]
    ck.ob('C14-D5-termination', 'Index.__init__::recursion-guarded',
          len(rec_sites) >= 1 and len(rec_sites) == len(in_rec),
          'a recursive constructor call is reachable when some quadrant is as large as the node '
          '(no strictly decreasing measure: construction may not terminate)', fn.loc(target_if),
          key='Index.__init__::recursion-guard')
    # recursion argument ranges over the filter lists only
    ok_arg = False
    all_quadrants = None
    for b in rec_body:
        for n in ast.walk(b):
            if isinstance(n, ast.ListComp) and len(n.generators) == 1 \
                    and isinstance(n.generators[0].iter, ast.Name) \
                    and n.generators[0].iter.id == name and not n.generators[0].ifs \
                    and isinstance(n.elt, ast.Call) and isinstance(n.elt.func, ast.Name) \
                    and n.elt.func.id == cls.name and len(n.elt.args) == 1 \
                    and isinstance(n.elt.args[0], ast.Name) \
                    and isinstance(n.generators[0].target, ast.Name) \
                    and n.elt.args[0].id == n.generators[0].target.id:
                ok_arg = True
                all_quadrants = 'comp@%d' % n.lineno
    ck.ob('C14-D5-termination', 'Index.__init__::recursion-over-all-quadrants', ok_arg,
          'subtrees are not built from every quadrant list (a quadrant dropped loses its boxes; '
          'an argument other than a quadrant list breaks the decreasing measure)',
          fn.loc(target_if), key='Index.__init__::recursion-args')
    # the subtrees field receives that list; the leaf branch stores ALL boxes
    it = Interp(prog)
    it.stack.append(fn)
    bval = Opaque('param:bboxes', (), 'list')
    st = State(env={'self': ObjRef('self', cls), param: bval, name: Opaque('subs', (), 'list')})
    outs = list(it.exec_block(leaf_body, st))
    got = outs[0].state.fields.get(('self', 'bboxes')) if len(outs) == 1 else None
    ck.ob('C14-D4-both-stores', 'Index.__init__::leaf-stores-all', got == bval,
          'a leaf node stores %r instead of all boxes of the node' % (got,), fn.loc(target_if),
          key='Index.__init__::leaf-store')
    outs = list(it.exec_block(rec_body, st))
    got = outs[0].state.fields.get(('self', 'subtrees')) if len(outs) == 1 else None
    if all_quadrants is not None and isinstance(got, Opaque) and got.label.startswith('comp@') \
            and got.label != all_quadrants:
        # the list stored is derived from the list of all subtrees (filtered / re-ordered):
        # whether a subtree that holds boxes can be left out depends on that derivation
        raise AnalysisError('self.subtrees receives a list derived from the subtrees of all '
                            'quadrants (%s at %s), not that list itself; whether every quadrant '
                            'that holds boxes stays reachable is not decided'
                            % (got.label, fn.loc(target_if)))
    ck.ob('C14-D4-both-stores', 'Index.__init__::subtrees-stored',
          isinstance(got, Opaque) and got.label.startswith('comp@'),
          'an inner node does not store the list of subtrees in self.subtrees (got %r)' % (got,),
          fn.loc(target_if), key='Index.__init__::subtree-store')
    it.stack.pop()


MUTATORS = {'append', 'extend', 'insert', 'pop', 'remove', 'clear', 'sort', 'reverse', 'add',
            'update', 'discard', '__setitem__', '__delitem__'}


def shared_state(ck, cls, rule, prefix, rebound_ok=None):
    """D6: class-level mutable attributes must never be mutated in place through self before being
    re-bound on the instance."""
    mutable = [n for n, e in cls.class_attrs.items()
               if isinstance(e, (ast.List, ast.Dict, ast.Set))]
    n = 0
    for m in cls.methods.values():
        # attributes re-bound on self anywhere in __init__ are instance state afterwards
        for node in ast.walk(m.node):
            tgt = None
            if isinstance(node, ast.Call) and isinstance(node.func, ast.Attribute) \
                    and node.func.attr in MUTATORS:
                tgt = node.func.value
            elif isinstance(node, ast.AugAssign):
                tgt = node.target
            elif isinstance(node, (ast.Assign, ast.Delete)):
                for t in node.targets:
                    if isinstance(t, ast.Subscript):
                        tgt = t.value
            while isinstance(tgt, ast.Subscript):
                tgt = tgt.value
            if isinstance(tgt, ast.Attribute) and isinstance(tgt.value, ast.Name) \
                    and tgt.value.id == 'self' and tgt.attr in mutable:
                n += 1
                safe = rebound_ok is not None and rebound_ok(tgt.attr)
                ck.ob(rule, '%s.%s::mutates-self.%s' % (cls.name, m.name, tgt.attr), safe,
                      'class-level mutable attribute %s.%s is mutated in place through self in %s '
                      'without being re-bound per instance first: all indexes would share it'
                      % (cls.name, tgt.attr, m.name), m.loc(node),
                      key='%s%s::shared-%s' % (prefix, m.name, tgt.attr))
    return mutable, n


def run(ck, prog, tier):
    poly.INT_VARS.clear()
    ck.explanation = (
        'rtree.Index is decided structurally: (D1) the quadrant filter comprehensions are '
        'evaluated over every order type of a box (x_lo<=x_hi, y_lo<=y_hi) relative to the split '
        'variables - every box must satisfy at least one filter and be stored unchanged; (D2) one '
        'symbolic iteration of the extent loop must fold each field with MIN/MAX of its own '
        'coordinate from +/-inf; (D3) both overlap tests of intersection() are evaluated over all '
        'order types of two closed intervals per axis: the leaf test must equal "share a point", '
        'the subtree test must be implied by it; (D4) both stores are iterated, recursive results '
        'are united and called with the unchanged query, a leaf stores all boxes; (D5) recursion '
        'happens only when every quadrant is strictly smaller and over filter lists only; (D6) no '
        'in-place mutation of class-level lists. Together D1-D5 imply "returned set = brute '
        'force" for all box collections; floating point only enters through the split point, '
        'whose value is irrelevant to the argument.')
    ck.assumptions += ['boxes satisfy min<=max on both axes; coordinates are totally ordered (no NaN)']
    ck.trusted += ['python ast module', 'vf.interp / vf.order', 'set.add / |= semantics']
    cls = prog.cls('rtree.Index')
    f_init = prog.func('rtree.Index.__init__')
    f_int = prog.func('rtree.Index.intersection')
    ck.saw('functions', [f_init.qualname + ' @ ' + f_init.loc(), f_int.qualname + ' @ ' + f_int.loc()])
    if len(f_init.params) != 2 or len(f_int.params) != 2:
        raise AnalysisError('rtree.Index public signatures changed')
    from .. import purity
    n_own = purity.check_ownership(ck, f_int, 'C14-D4-result-ownership')
    ck.floor('in-place updated result containers', n_own, 1)
    syntactic = True
    n_before = len(ck.violations)
    try:
        name, comps, node = check_partition(ck, prog, f_init)
        check_extent_fold(ck, prog, f_init, cls)
    except AnalysisError as exc:
        if len(ck.violations) != n_before:
            raise
        # the constructor is not written as four filter comprehensions after an extent loop:
        # decide the same facts from its behaviour on two symbolic boxes
        syntactic = False
        semantic_constructor(ck, prog, cls, f_init, str(exc))
    check_intersection(ck, prog, f_int, cls, tier)
    if syntactic:
        try:
            check_structure(ck, prog, f_init, cls, name, comps, node)
        except AnalysisError as exc:
            if len(ck.violations) != n_before:
                raise
            semantic_constructor(ck, prog, cls, f_init, str(exc))
    mutable, n = shared_state(ck, cls, 'C14-D6-shared-state', 'Index.')
    ck.ob('C14-D6-shared-state', 'Index::class-level-mutables-never-mutated', True)
    ck.extra['class_level_mutables'] = mutable
    ck.exhaustive = True
