"""C06 - motion/configuration helpers emit exactly the documented EBB command text.

Both layers are interpreted (vf/legacy.py for the function-style helpers, vf/ebb3.py for the class
layer; nothing runs) and the *sequence of abstract texts handed to the transport* is extracted per
helper and per presence pattern of its optional arguments, as string templates whose slots are
named by positional parameter index.

  D1  template table: the extracted sequences equal the documented command rows (SPEC below),
      for every presence pattern of the optional arguments - a supplied argument must appear
      whatever its value (a truthiness test on it forks the abstract path and is reported)
  D2  layer agreement: paired helpers of the two layers emit the same templates
  D4  motor resolutions reach the EM command only through a clamp to 0..5 (piecewise-affine
      identity of the extracted slot expression with clamp(n,0,5))
  D5  timed pause: one-iteration interval analysis of the chunking loop over integer regions of the
      remaining time n: loop runs iff n >= 1; each emitted duration lies in 1..750; the remainder
      decreases by exactly the emitted duration and stays >= 0 (or the chunk is the whole remainder
      and the loop ends) - so the durations sum to n by induction; nothing is sent for n <= 0
  D6  low-level move suppression is exactly "neither axis can move" over the 64 zero/non-zero
      cases of its six arguments
  D7  with no port no helper hands anything to a live transport
"""
import ast
import itertools
import os
from fractions import Fraction

from .. import poly
from ..ebb3 import (Engine, EBB3Hooks, most_derived, public_methods, OK, PORT, is_port_call,
                    ts_of_state)
from ..legacy import LegacyHooks, LPORT, run_helper, transports
from ..interp import (Interp, Outcome, Opaque, Str, Slot, Tup, Const, Cmp, IsNone, Truthy, In, NotC,
                      AndC, OrC, Pred, State, ObjRef, Effect, Bound, FuncRef, ExtRef, NONE, TRUE,
                      FALSE, fold_cond, type_of, assigned_names)
from ..loops import Region, SplitNeeded, affine_in, OneIterMixin, UnrollMixin, Unbounded
from ..poly import Sym, mk_func
from ..model import AnalysisError, Program
from ..report import Check, VERIF

# the pause-chunking loops are judged by the loop rules of D5 (regions / closed form / witness
# search), summarised elsewhere on purpose
EXPECTED_GAPS = {('loop', '*')}

CLAMP = '{clamp%d}'

# ---------------------------------------------------------------------------- specification
# Rows are transcribed from the EBB command reference as quoted in the helpers' own docstrings
# ("SM,<duration>,<axis1>,<axis2>", "HM,<rate>[,<p1>,<p2>]", "LM,...[,Clear]", "SP,<v>,<dur>[,<pin>]",
# "SC,4/5/11/12,<v>", "EM,<r1>,<r2>", "XM,<dur>,<A>,<B>", "PO,B,<pin>,<v>", "PD,B,<pin>,<dir>", "SR,<ms>[,<state>]",
# "SL", "QL", "QS", "QC", "QP", "QB", "QE", "TP", "CS", "T3"), slots = positional parameter index after the
# port / self parameter.  A row maps the frozenset of optional parameters supplied -> sequence of
# (kind, text).  '*' = any presence pattern.
def row(*items):
    return tuple(items)


LEGACY_SPEC = {
    'doABMove': {'*': row(('command', 'XM,{2},{0},{1}'))},
    'doXYMove': {'*': row(('command', 'SM,{2},{1},{0}'))},
    'doAbsMove': {frozenset({'position1', 'position2'}): row(('command', 'HM,{0},{1},{2}')),
                  'else': row(('command', 'HM,{0}'))},
    'doLowLevelMove': {frozenset({'clear'}): row(('command', 'LM,{0},{1},{2},{3},{4},{5},{6}')),
                       'else': row(('command', 'LM,{0},{1},{2},{3},{4},{5}'))},
    'QueryPenUp': {'*': row(('query', 'QP'))},
    'QueryPRGButton': {'*': row(('query', 'QB'))},
    'sendDisableMotors': {'*': row(('command', 'EM,0,0'))},
    'query_enable_motors': {'*': row(('query', 'PI,E,0'), ('query', 'PI,C,1'), ('query', 'PI,E,2'),
                                     ('query', 'PI,E,1'), ('query', 'PI,A,6'))},
    'query_steps': {'*': row(('query', 'QS'))},
    'sendPenDown': {frozenset({'pin'}): row(('command', 'SP,0,{0},{1}')),
                    'else': row(('command', 'SP,0,{0}'))},
    'sendPenUp': {frozenset({'pin'}): row(('command', 'SP,1,{0},{1}')),
                  'else': row(('command', 'SP,1,{0}'))},
    'PBOutConfig': {'*': row(('command', 'PO,B,{0},{1}'), ('command', 'PD,B,{0},0'))},
    'PBOutValue': {'*': row(('command', 'PO,B,{0},{1}'))},
    'TogglePen': {'*': row(('command', 'TP'))},
    'setPenDownPos': {'*': row(('command', 'SC,5,{0}'))},
    'setPenDownRate': {'*': row(('command', 'SC,12,{0}'))},
    'setPenUpPos': {'*': row(('command', 'SC,4,{0}'))},
    'setPenUpRate': {'*': row(('command', 'SC,11,{0}'))},
    'setEBBLV': {'*': row(('command', 'SL,{0}'))},
    'queryEBBLV': {'*': row(('query', 'QL'))},
    'queryVoltage': {'*': row(('query', 'QC'))},
    'servo_timeout': {frozenset({'state'}): row(('command', 'SR,{0},{1}')),
                      'else': row(('command', 'SR,{0}'))},
}
EBB3_SPEC = {
    'xy_move': {'*': row(('command', 'SM,{2},{1},{0}'))},
    'abs_move': {frozenset({'position1', 'position2'}): row(('command', 'HM,{0},{1},{2}')),
                 'else': row(('command', 'HM,{0}'))},
    'motors_disable': {'*': row(('command', 'EM,0,0'))},
    'motors_query_enabled': {'*': row(('query', 'QE'))},
    'query_steps': {'*': row(('query', 'QS'))},
    'clear_steps': {'*': row(('command', 'CS'))},
    'clear_accumulators': {'*': row(('command', 'T3,1,0,0,0,0,0,0,3'))},
    'pen_lower': {frozenset({'pin'}): row(('command', 'SP,0,{0},{1}')),
                  'else': row(('command', 'SP,0,{0}'))},
    'pen_raise': {frozenset({'pin'}): row(('command', 'SP,1,{0},{1}')),
                  'else': row(('command', 'SP,1,{0}'))},
    'dio_b_config': {'*': row(('command', 'PO,B,{0},{1}'), ('command', 'PD,B,{0},{2}'))},
    'dio_b_set': {'*': row(('command', 'PO,B,{0},{1}'))},
    'dio_b_read': {'*': row(('query', 'PI,B,{0}'))},
    'pen_pos_down': {'*': row(('command', 'SC,5,{0}'))},
    'pen_pos_up': {'*': row(('command', 'SC,4,{0}'))},
    'pen_rate_down': {'*': row(('command', 'SC,12,{0}'))},
    'pen_rate_up': {'*': row(('command', 'SC,11,{0}'))},
    'servo_timeout': {frozenset({'state'}): row(('command', 'SR,{0},{1}')),
                      'else': row(('command', 'SR,{0}'))},
    'query_voltage': {'*': row(('query', 'QC'))},
    'query_current': {'*': row(('query', 'QC'))},
    'var_write': {'*': row(('command', 'SL,{0},{1}'))},
    'var_read': {'*': row(('query', 'QL,{0}'))},
    'query_nickname': {'*': row(('query', 'QT'))},
    'reboot': {'*': row(('write', 'RB'))},
    'bootload': {'*': row(('write', 'BL'))},
    'query_statusbyte': {'*': row(('write', 'QG'))},
}
PAUSE_HELPERS = {'legacy': 'doTimedPause', 'ebb3': 'timed_pause'}
# helpers whose transmissions are judged by other rules / properties
ELSEWHERE = {'ebb3': {'timed_pause': 'C06-D5', 'motors_enable': 'C06-D4 + C16', 'command': 'C05',
                      'query': 'C05', 'write_nickname': 'C16', 'var_write_int32': 'C16',
                      'var_read_int32': 'C16', 'connect': 'C15'},
             'legacy': {'doTimedPause': 'C06-D5', 'sendEnableMotors': 'C06-D4'}}
PAIRS = [('doXYMove', 'xy_move'), ('doAbsMove', 'abs_move'), ('sendDisableMotors', 'motors_disable'),
         ('sendPenDown', 'pen_lower'), ('sendPenUp', 'pen_raise'), ('PBOutValue', 'dio_b_set'),
         ('setPenDownPos', 'pen_pos_down'), ('setPenUpPos', 'pen_pos_up'),
         ('setPenDownRate', 'pen_rate_down'), ('setPenUpRate', 'pen_rate_up'),
         ('servo_timeout', 'servo_timeout'), ('query_steps', 'query_steps'),
         ('queryVoltage', 'query_voltage')]
MAX_CHUNK = 750


# ---------------------------------------------------------------------------- rendering
def clamp_expected(n):
    return max(0, min(5, n))


def is_clamp(sym, atom):
    """Piecewise-affine identity sym(n) == clamp(n, 0, 5) for integer n: both sides are
    piecewise affine with breakpoints among the literals of `sym`; agreement at two points of every
    piece decides identity."""
    if not isinstance(sym, Sym):
        return False
    for a in sym.all_atoms():
        if a[0] == 'v' and a != atom:
            return False
        if a[0] == 'f' and a[1] not in ('MIN', 'MAX', 'TRUNC', 'FLOOR'):
            return False
    pts = list(range(-12, 18)) + [-10 ** 6, -10 ** 6 - 1, 10 ** 6, 10 ** 6 + 1]
    try:
        return all(sym.evaluate({atom[1]: p}) == clamp_expected(p) for p in pts)
    except (KeyError, ZeroDivisionError):
        return False


def render(text, params):
    """String template -> 'SM,{2},{1},{0}' with slots named by parameter index."""
    if isinstance(text, Opaque) and text.label == 'encode' and text.args:
        text = text.args[0]
    if not isinstance(text, Str):
        return '<%s>' % (text.label if isinstance(text, Opaque) else type(text).__name__)
    out = []
    for p in text.parts:
        if isinstance(p, str):
            out.append(p)
            continue
        v = p.value
        done = False
        if isinstance(v, Sym):
            at = v.as_atom()
            if at is not None and at[0] == 'v' and at[1] in params and not p.spec:
                out.append('{%d}' % params.index(at[1]))
                done = True
            else:
                for i, name in enumerate(params):
                    if is_clamp(v, ('v', name)) and not p.spec:
                        out.append(CLAMP % i)
                        done = True
                        break
        if not done:
            out.append('{?%s%s}' % (v, ':' + p.spec if p.spec else ''))
    return ''.join(out)


def strip_cr(s, ck_cr):
    """Legacy texts and direct writes carry exactly one trailing CR; returns (text, ok)."""
    if s.endswith('\r') and not s[:-1].endswith('\r') and '\r' not in s[:-1] and '\n' not in s:
        return s[:-1], True
    return s, False


# ---------------------------------------------------------------------------- extraction
def optional_params(fn, skip_first):
    d = fn.defaults()
    ps = fn.params[1:] if skip_first else fn.params
    return [p for p in ps if p in d and isinstance(d[p], ast.Constant) and d[p].value is None]


def presence_patterns(opts):
    for k in range(len(opts) + 1):
        for sub in itertools.combinations(opts, k):
            yield frozenset(sub)


def legacy_sequences(prog, fn, present, port=LPORT):
    """Set of emitted sequences (tuples of (kind, text)) over all acknowledged paths."""
    params = fn.params[1:]
    over = {}
    for p in optional_params(fn, True):
        over[p] = Sym.var(p) if p in present else NONE
    outs = run_helper(prog, fn, port=port, overrides=over, hooks=LegacyHooks(minver_answers=(TRUE,)))
    seqs = set()
    for o in outs:
        seq = []
        for e in transports(o.state.effects):
            if e.kind == 'transport':
                txt = render(e.args[1], params)
                if txt == 'V\r':
                    continue      # the firmware-version probe of a gated helper (C15)
                seq.append((e.target, txt))
            else:
                seq.append(('write', render(e.args[0] if e.args else None, params)))
        seqs.add(tuple(seq))
    return seqs, outs


def ebb3_sequences(eng, fn, present):
    params = fn.params[1:]
    over = {}
    for p in optional_params(fn, True):
        over[p] = Sym.var(p) if p in present else NONE
    if fn.name == 'write_nickname':
        over[params[0]] = Opaque('param:' + params[0], (), 'str')
    outs = eng.run(fn.name, OK, overrides=over, inject=False)
    seqs = set()
    for o in outs:
        if o.kind == 'raise':
            continue
        effs = o.state.effects
        if any(e.kind == 'summary' and e.args[0].err_set for e in effs):
            continue      # a command was not acknowledged: the rest is blocked (C04)
        if ts_of_state(o.state)[1]:
            continue
        seq = []
        for e in effs:
            if e.kind == 'summary' and e.target in ('command', 'query') and e.args[0].wrote:
                seq.append((e.target, render(e.args[1] if len(e.args) > 1 else None, params)))
            elif e.kind == 'summary' and e.args[0].wrote:
                seq.append((e.target, '<%s>' % e.target))
            elif is_port_call(e, ('write',)):
                seq.append(('write', render(e.args[0] if e.args else None, params)))
        seqs.add(tuple(seq))
    return seqs, outs


def spec_row(spec, present):
    if '*' in spec:
        return spec['*']
    for k, v in spec.items():
        if isinstance(k, frozenset) and k <= present and k == present & k and all(
                p in present for p in k):
            if k == present or True:
                return v
    return spec['else']


def fmt_seq(seq):
    return ' ; '.join('%s "%s"' % (k, t.replace('\r', '\\r')) for k, t in seq) or '(nothing)'


def check_templates(ck, prog, eng, deep=False):
    mod = prog.module('ebb_motion')
    extracted = {'legacy': {}, 'ebb3': {}}
    n_sites = 0
    # ---- legacy layer
    for name, spec in sorted(LEGACY_SPEC.items()):
        fn = prog.func('ebb_motion.' + name)
        opts = optional_params(fn, True)
        for present in presence_patterns(opts):
            seqs, _ = legacy_sequences(prog, fn, present)
            want = tuple((k, t + '\r') for k, t in spec_row(spec, present))
            inst = 'ebb_motion.%s[%s]' % (name, ','.join(sorted(present)) or 'no optional args')
            got = seqs
            if name == 'doLowLevelMove':
                got = {s for s in seqs if s}      # suppression is rule D6
            if name in ('queryVoltage', 'servo_timeout'):
                got = {s for s in seqs if s} or seqs
            ok = got == {want}
            ck.ob('C06-D1-template', inst, ok,
                  '%s with %s supplied hands the transport %s; documented: %s%s'
                  % (fn.qualname, sorted(present) or 'no optional argument',
                     ' | '.join(sorted(fmt_seq(s) for s in got)), fmt_seq(want),
                     ' (an argument that was supplied is dropped for some values: presence must '
                     'be tested with "is not None")' if len(got) > 1 else ''),
                  fn.loc(), key='%s::template[%s]' % (fn.qualname, ','.join(sorted(present))))
            extracted['legacy'][(name, present)] = got
            n_sites += sum(len(s) for s in got)
    # helpers of the legacy module that send but are not in the table
    for name, fn in sorted(mod.functions.items()):
        if name in LEGACY_SPEC or name in ELSEWHERE['legacy'] or name.startswith('_') or not fn.params or \
                fn.params[0] != 'port_name':
            continue
        seqs, _ = legacy_sequences(prog, fn, frozenset())
        if any(seqs_ for seqs_ in seqs if seqs_):
            ck.saw('unlisted_sending_helpers', 'ebb_motion.%s: %s' % (name, sorted(map(fmt_seq, seqs))))
    # ---- EBB3 layer
    methods = public_methods(eng.cls)
    for name, spec in sorted(EBB3_SPEC.items()):
        fn = eng.method(name)
        opts = optional_params(fn, True)
        for present in presence_patterns(opts):
            if name == 'query_voltage':
                present = frozenset()
            seqs, _ = ebb3_sequences(eng, fn, present)
            cr = '\r' if spec_row(spec, present) and spec_row(spec, present)[0][0] == 'write' else ''
            want = tuple((k, t + cr) for k, t in spec_row(spec, present))
            inst = '%s[%s]' % (fn.qualname, ','.join(sorted(present)) or 'no optional args')
            ok = seqs == {want}
            ck.ob('C06-D1-template', inst, ok,
                  '%s with %s supplied hands the transport %s; documented: %s%s'
                  % (fn.qualname, sorted(present) or 'no optional argument',
                     ' | '.join(sorted(fmt_seq(s) for s in seqs)), fmt_seq(want),
                     ' (an argument that was supplied is dropped for some values: presence must '
                     'be tested with "is not None")' if len(seqs) > 1 else ''),
                  fn.loc(), key='%s::template[%s]' % (fn.qualname, ','.join(sorted(present))))
            extracted['ebb3'][(name, present)] = seqs
            n_sites += sum(len(s) for s in seqs)
            if deep:
                # thorough: on paths where a command is NOT acknowledged the helper must have sent a
                # prefix of the documented row and nothing after the failure ("and nothing else")
                params = fn.params[1:]
                over = {p_: (Sym.var(p_) if p_ in present else NONE) for p_ in opts}
                for o in eng.run(fn.name, OK, overrides=over, inject=False):
                    if o.kind == 'raise':
                        continue
                    seq = []
                    for e in o.state.effects:
                        if e.kind == 'summary' and e.target in ('command', 'query') and e.args[0].wrote:
                            seq.append((e.target, render(e.args[1] if len(e.args) > 1 else None, params)))
                        elif is_port_call(e, ('write',)):
                            seq.append(('write', render(e.args[0] if e.args else None, params)))
                    ck.ob('C06-D1-template-prefix', inst, tuple(seq) == want[:len(seq)],
                          '%s: on a path where a command failed it sent %s, which is not a prefix '
                          'of the documented sequence %s' % (fn.qualname, fmt_seq(seq), fmt_seq(want)),
                          fn.loc(), key='%s::template-prefix' % fn.qualname)
    for name, fn in sorted(methods.items()):
        if name in EBB3_SPEC or name in ELSEWHERE['ebb3'] or name.startswith('_') or \
                name in ('disconnect', 'record_error', 'find_first', '_get_port_name',
                         'parse_version', 'min_version'):
            continue
        seqs, _ = ebb3_sequences(eng, fn, frozenset())
        if any(s for s in seqs):
            ck.saw('unlisted_sending_helpers', '%s: %s' % (fn.qualname, sorted(map(fmt_seq, seqs))))
    ck.floor('transport call sites in the extracted tables', n_sites, 50)
    return extracted


def check_pairs(ck, prog, eng, extracted):
    n = 0
    for lname, ename in PAIRS:
        lfn = prog.func('ebb_motion.' + lname)
        efn = eng.method(ename)
        lopts = set(optional_params(lfn, True))
        eopts = set(optional_params(efn, True))
        for (name, present), lseqs in sorted(extracted['legacy'].items(), key=repr):
            if name != lname:
                continue
            # map optional parameters by position
            lp, ep = lfn.params[1:], efn.params[1:]
            try:
                epresent = frozenset(ep[lp.index(p)] for p in present)
            except (ValueError, IndexError):
                continue
            eseqs = extracted['ebb3'].get((ename, epresent))
            if eseqs is None:
                continue
            norm = {tuple((k, t[:-1] if t.endswith('\r') else t) for k, t in s) for s in lseqs}
            n += 1
            ck.ob('C06-D2-layer-agreement', '%s <-> %s [%s]' % (lname, ename, ','.join(sorted(present))),
                  norm == eseqs,
                  'the legacy helper %s emits %s but its EBB3 counterpart %s emits %s for the same '
                  'request' % (lname, sorted(map(fmt_seq, norm)), ename, sorted(map(fmt_seq, eseqs))),
                  lfn.loc(), key='pair::%s-%s[%s]' % (lname, ename, ','.join(sorted(present))))
    ck.floor('layer pairs compared', n, 13)


# ---------------------------------------------------------------------------- D4 clamp
def int_literals(fn_node):
    out = set()
    for n in ast.walk(fn_node):
        if isinstance(n, ast.Constant) and isinstance(n.value, int) and not isinstance(n.value, bool):
            out.add(n.value)
    return out


def clamp_samples(prog, fns):
    """Integer sample points for a piecewise-affine clamp identity: every integer between the
    smallest and largest literal of the code (padded by 3) and two far points on each side - two
    points in every linear piece decide identity with clamp(n, 0, 5)."""
    lits = {0, 5}
    for f in fns:
        lits |= {v for v in int_literals(f.node) if abs(v) <= 40}
    lo, hi = min(lits) - 3, max(lits) + 3
    return list(range(lo, hi + 1)) + [-10 ** 6, -10 ** 6 - 1, 10 ** 6, 10 ** 6 + 1]


def check_clamp_legacy(ck, prog):
    """sendEnableMotors: for every sample resolution the text handed over is EM,c,c with
    c = clamp(res, 0, 5) - whatever way the clamp is written (max/min, if/elif, helper)."""
    fn = prog.func('ebb_motion.sendEnableMotors')
    p = fn.params[1]
    from .. import purity
    pts = clamp_samples(prog, purity.closure(prog, [fn.qualname]))
    bad = None
    n = 0
    for v in pts:
        outs = run_helper(prog, fn, overrides={p: Sym.const(v)}, hooks=LegacyHooks())
        c = clamp_expected(v)
        want = {(('command', 'EM,%d,%d\r' % (c, c)),)}
        got = set()
        for o in outs:
            got.add(tuple((e.target, render(e.args[1], fn.params[1:])) for e in transports(o.state.effects)
                          if e.kind == 'transport'))
        n += 1
        if got != want and bad is None:
            bad = 'for res = %d it hands over %s; expected %s' % (
                v, sorted(map(fmt_seq, got)), fmt_seq(next(iter(want))))
    ck.ob('C06-D4-clamp', fn.qualname, bad is None,
          '%s: %s (EM resolutions must be clamped to 0..5)' % (fn.qualname, bad), fn.loc(),
          key='%s::em-template' % fn.qualname)
    ck.floor('clamp sample points (legacy)', n, 12)


def check_motors_enable(ck, eng):
    """motors_enable: for every sample pair the last command of every acknowledged path is
    EM,clamp(r1),clamp(r2) and only CU,50,0 / QE / EM,clamp(r2),clamp(r2) precede it."""
    fn = eng.method('motors_enable')
    p1, p2 = fn.params[1:3]
    from .. import purity
    pts = clamp_samples(eng.prog, purity.closure(eng.prog, [fn.qualname]))
    pts2 = [v for v in pts if abs(v) < 100][::2] + [pts[0], pts[-1]] + [0, 5, -1, 6]
    bad = None
    n = 0
    for a in sorted(set(pts2)):
        for b in sorted(set(pts2)):
            outs = eng.run('motors_enable', OK, overrides={p1: Sym.const(a), p2: Sym.const(b)},
                           inject=False)
            c1, c2 = clamp_expected(a), clamp_expected(b)
            final = ('command', 'EM,%d,%d' % (c1, c2))
            allowed = {('command', 'CU,50,0'), ('command', 'EM,%d,%d' % (c2, c2)), ('query', 'QE')}
            n += 1
            for o in outs:
                if o.kind == 'raise' or any(e.kind == 'summary' and e.args[0].err_set
                                            for e in o.state.effects):
                    continue
                seq = [(e.target, render(e.args[1] if len(e.args) > 1 else None, []))
                       for e in o.state.effects if e.kind == 'summary' and e.args[0].wrote]
                if (not seq or seq[-1] != final or any(x not in allowed for x in seq[:-1])) \
                        and bad is None:
                    bad = 'for (%d, %d) it sends %s; expected to end with %s after at most ' \
                          'CU,50,0 / QE / the pre-setting EM' % (a, b, fmt_seq(seq), fmt_seq([final]))
                # CU,50,0 (permit a single enabled motor) belongs to the sequence exactly when
                # one of the *clamped* resolutions is zero and the other is not
                single = (c1 == 0) != (c2 == 0)
                has_cu = ('command', 'CU,50,0') in seq
                if seq and single != has_cu and bad is None:
                    bad = 'for (%d, %d), i.e. EM,%d,%d, it %s CU,50,0 (%s); the single-motor ' \
                          'permission is sent exactly when one clamped resolution is 0 and the ' \
                          'other is not' % (a, b, c1, c2, 'sends' if has_cu else 'does not send',
                                            fmt_seq(seq))
    ck.ob('C06-D4-clamp', fn.qualname, bad is None,
          '%s: %s (every resolution slot must be clamp(int(arg),0,5))' % (fn.qualname, bad),
          fn.loc(), key='%s::em-template' % fn.qualname)
    ck.floor('clamp sample pairs (EBB3)', n, 100)


# ---------------------------------------------------------------------------- D5 pause chunking
class ChunkHooksMixin:
    """Interval case analysis of one iteration of the chunking loop (see module docstring)."""

    def init_chunk(self, region, param):
        self.region = region
        self.param = param
        self.atom = ('v', '@n')
        self.iter = None            # dict(test, emitted, next) recorded by the loop hook
        self.entry_value = None

    def chunk_decide(self, cond):
        if isinstance(cond, Cmp) and isinstance(cond.a, Sym) and isinstance(cond.b, Sym) \
                and cond.b == Sym.const(0):
            af = affine_in(cond.a, self.atom)
            if af is not None:
                return self.region.decide_cmp(cond.op, af[0], af[1])
        if isinstance(cond, Truthy) and isinstance(cond.v, Sym):
            af = affine_in(cond.v, self.atom)
            if af is not None:
                return self.region.decide_cmp('!=', af[0], af[1])
        return None

    def chunk_call(self, interp, target, args, kwargs, st, node):
        if isinstance(target, ExtRef) and target.dotted in ('builtins.max', 'builtins.min') and \
                len(args) == 2 and all(isinstance(a, Sym) for a in args):
            d = args[0] - args[1]
            af = affine_in(d, self.atom)
            if af is not None:
                ge = self.region.decide_cmp('>=', af[0], af[1])     # may raise SplitNeeded
                first_is_max = ge
                pick_first = first_is_max if target.dotted.endswith('max') else not first_is_max
                return [(args[0] if pick_first else args[1], st)]
        return None

    def chunk_loop(self, interp, node, st, sent_of):
        if not isinstance(node, ast.While):
            return None
        names, _ = assigned_names(node)
        # loop-carried numeric variable tested by the loop condition
        s = st.copy()
        carried = [n for n in sorted(names) if isinstance(st.env.get(n), Sym)]
        if len(carried) != 1:
            raise AnalysisError('pause loop at line %d: expected one loop-carried counter, found '
                                '%s' % (node.lineno, carried))
        var = carried[0]
        self.entry_value = st.env[var]
        s.env[var] = Sym(poly.Poly.atom(self.atom))
        for n in names:
            if n != var:
                s.env[n] = Opaque('loopvar:' + n)
        res = []
        for c, s1 in interp.ev_cond(node.test, s):
            t = interp.decide(c, s1)
            if t is None:
                raise AnalysisError('pause loop test %s is not decided over the region %r'
                                    % (ast.unparse(node.test), self.region))
            if not t:
                self.iter = {'test': False}
                res.append(Outcome('fall', None, st))
                continue
            n_before = len(sent_of(s1.effects))
            its = []
            for out in interp.exec_block(node.body, s1):
                if out.kind not in ('fall', 'continue'):
                    raise AnalysisError('pause loop body leaves the loop by %s' % out.kind)
                sent = sent_of(out.state.effects)[n_before:]
                its.append({'sent': sent, 'next': out.state.env.get(var)})
            self.iter = {'test': True, 'paths': its, 'var': var}
            # continue after the loop as if it had ended (only trailing code matters now)
            res.append(Outcome('fall', None, st))
        return res


class LegacyChunkHooks(ChunkHooksMixin, LegacyHooks):
    def __init__(self, region, param):
        LegacyHooks.__init__(self)
        self.init_chunk(region, param)

    def decide(self, cond, st):
        r = LegacyHooks.decide(self, cond, st)
        return r if r is not None else self.chunk_decide(cond)

    def call(self, interp, target, args, kwargs, st, node):
        r = self.chunk_call(interp, target, args, kwargs, st, node)
        return r if r is not None else LegacyHooks.call(self, interp, target, args, kwargs, st, node)

    def loop(self, interp, node, st):
        return self.chunk_loop(interp, node, st, lambda effs: transports(effs))


class Ebb3ChunkHooks(ChunkHooksMixin, EBB3Hooks):
    def __init__(self, engine, region, param, exclude):
        EBB3Hooks.__init__(self, engine, inject=False, exclude=exclude)
        self.init_chunk(region, param)

    def decide(self, cond, st):
        r = EBB3Hooks.decide(self, cond, st)
        return r if r is not None else self.chunk_decide(cond)

    def call(self, interp, target, args, kwargs, st, node):
        r = self.chunk_call(interp, target, args, kwargs, st, node)
        return r if r is not None else EBB3Hooks.call(self, interp, target, args, kwargs, st, node)

    def loop(self, interp, node, st):
        def sent_of(effs):
            return [e for e in effs if e.kind == 'summary' and e.args[0].wrote]
        return self.chunk_loop(interp, node, st, sent_of)


def chunk_regions(run_region):
    """Refine (-inf..+inf) until every region is decided; returns [(Region, hooks)]."""
    work = [Region(None, None)]
    done = []
    guard = 0
    while work:
        guard += 1
        if guard > 200:
            raise AnalysisError('pause loop: region refinement does not converge')
        r = work.pop()
        if r.empty():
            continue
        try:
            hk = run_region(r)
        except SplitNeeded as sp:
            a, b = r.split(sp.point)
            if (a.lo, a.hi) == (r.lo, r.hi) or (b.lo, b.hi) == (r.lo, r.hi) or a.empty() or b.empty():
                raise AnalysisError('pause loop: cannot split region %r at %s' % (r, sp.point))
            work.extend([a, b])
            continue
        done.append((r, hk))
    done.sort(key=lambda x: (x[0].lo is not None, x[0].lo or 0))
    return done


def emitted_duration(e, layer):
    """Duration slot of an emitted 'SM,<d>,0,0' text: returns Sym or None."""
    text = e.args[1] if (layer == 'legacy' and e.kind == 'transport') or layer == 'ebb3' else None
    if layer == 'ebb3':
        text = e.args[1] if len(e.args) > 1 else None
    if not isinstance(text, Str):
        return None
    parts = list(text.parts)
    tail = ',0,0\r' if layer == 'legacy' else ',0,0'
    if text.is_lit():
        t = text.text()
        if t.startswith('SM,') and t.endswith(tail):
            mid = t[3:len(t) - len(tail)]
            if mid.isdigit() or (mid.startswith('-') and mid[1:].isdigit()):
                return Sym.const(int(mid))
        return None
    if len(parts) == 3 and parts[0] == 'SM,' and isinstance(parts[1], Slot) and parts[2] == tail \
            and isinstance(parts[1].value, Sym) and not parts[1].spec:
        return parts[1].value
    return None


class ClosedFormMixin(OneIterMixin):
    """Pause written in closed form (divmod / // / % by a literal m, a counted loop of full chunks
    and a remainder): the remaining time is n = m*Q + r with r enumerated over 0..m-1 and Q a
    symbolic integer restricted to a region; comparisons affine in Q are decided per region."""

    def body_ok(self, out):
        return not any(e.kind == 'summary' and e.args[0].err_set for e in out.state.effects)

    def init_closed(self, region):
        self.init_one_iter()
        self.region = region
        self.atom = ('v', '@q')

    def closed_decide(self, cond):
        if isinstance(cond, Cmp) and isinstance(cond.a, Sym) and isinstance(cond.b, Sym) \
                and cond.b == Sym.const(0):
            af = affine_in(cond.a, self.atom)
            if af is not None:
                return self.region.decide_cmp(cond.op, af[0], af[1])
        if isinstance(cond, Truthy) and isinstance(cond.v, Sym):
            af = affine_in(cond.v, self.atom)
            if af is not None:
                return self.region.decide_cmp('!=', af[0], af[1])
        return None


class LegacyClosed(ClosedFormMixin, LegacyHooks):
    def __init__(self, region):
        LegacyHooks.__init__(self)
        self.init_closed(region)

    def decide(self, cond, st):
        r = LegacyHooks.decide(self, cond, st)
        return r if r is not None else self.closed_decide(cond)

    def loop(self, interp, node, st):
        return self.one_iter_loop(interp, node, st)


class Ebb3Closed(ClosedFormMixin, EBB3Hooks):
    def __init__(self, engine, region, exclude):
        EBB3Hooks.__init__(self, engine, inject=False, exclude=exclude)
        self.init_closed(region)

    def decide(self, cond, st):
        r = EBB3Hooks.decide(self, cond, st)
        return r if r is not None else self.closed_decide(cond)

    def loop(self, interp, node, st):
        return self.one_iter_loop(interp, node, st)


def literal_moduli(fn):
    ms = set()
    for node in ast.walk(fn.node):
        c = None
        if isinstance(node, ast.Call) and isinstance(node.func, ast.Name) and \
                node.func.id == 'divmod' and len(node.args) == 2:
            c = node.args[1]
        elif isinstance(node, ast.BinOp) and isinstance(node.op, (ast.FloorDiv, ast.Mod)):
            c = node.right
        if isinstance(c, ast.Constant) and isinstance(c.value, int) and c.value > 0:
            ms.add(c.value)
    return ms


def check_pause_closed(ck, prog, eng, layer, fn, param):
    q = fn.qualname
    ms = literal_moduli(fn)
    if len(ms) != 1:
        raise AnalysisError('%s: neither a while-form chunking loop nor a closed form with one '
                            'literal chunk size (found divisors %s); the pause rule cannot '
                            'conclude' % (q, sorted(ms)))
    m = ms.pop()
    if m > 5000:
        raise AnalysisError('%s: chunk size %d too large to enumerate remainders' % (q, m))
    Q = Sym.var('@q')
    poly.INT_VARS.add('@q')

    def sent_of(effs):
        if layer == 'legacy':
            return transports(effs)
        return [e for e in effs if (e.kind == 'summary' and e.args[0].wrote) or is_port_call(e, ('write',))]

    def run(value, hk):
        if layer == 'legacy':
            return run_helper(prog, fn, overrides={param: value}, hooks=hk)
        return eng.run(fn.name, OK, overrides={param: value}, hooks=hk)

    # ---- n <= 0: nothing is sent (n symbolic over the region (-inf..0])
    hk = (LegacyChunkHooks(Region(None, 0), param) if layer == 'legacy'
          else Ebb3ChunkHooks(eng, Region(None, 0), param, fn.name))
    hk.chunk_loop = lambda *a, **k: None
    n_sym = Sym(poly.Poly.atom(('v', '@n')))
    try:
        outs = run(n_sym, hk)
        sent = [e for o in outs for e in sent_of(o.state.effects)]
        undecided = any(isinstance(c, Cmp) for o in outs for c, t in o.state.path)
    except SplitNeeded:
        sent, undecided = [None], False
    ck.ob('C06-D5-pause-domain', '%s n<=0' % q, not sent and not undecided,
          '%s sends something (or takes an undecided branch) for a pause time n <= 0; none must '
          'be emitted' % q, fn.loc(), key='%s::domain' % q)
    # ---- n = m*Q + r >= 1
    n_cases = 0
    for r in range(m):
        work = [Region(0 if r >= 1 else 1, None)]
        guard = 0
        while work:
            guard += 1
            if guard > 50:
                raise AnalysisError('%s: region refinement does not converge' % q)
            reg = work.pop()
            if reg.empty():
                continue
            hk = LegacyClosed(reg) if layer == 'legacy' else Ebb3Closed(eng, reg, fn.name)
            try:
                outs = run(m * Q + r, hk)
            except SplitNeeded as sp:
                a, b = reg.split(sp.point)
                work.extend([a, b])
                continue
            inst = '%s n=%d*Q+%d, Q in %r' % (q, m, r, reg)
            def acked_state(st_):
                return not any(e.kind == 'summary' and e.args[0].err_set for e in st_.effects)
            outs = [o for o in outs if (o.kind == 'return' or o.kind == 'fall')
                    and acked_state(o.state)]
            if len(outs) != 1:
                raise AnalysisError('%s: %d paths for %s (a test is not decided by the residue '
                                    'and the region)' % (q, len(outs), inst))
            n_cases += 1
            o = outs[0]
            # total = sum over counted loops (trip count * per-iteration durations) + the rest
            total = Sym.const(0)
            ok_range = True
            in_loop = {}
            for rec in hk.loop_records:
                start = len(rec.entry.effects)
                per_iter = []
                bodies = [b for b in rec.bodies if acked_state(b.state)]
                for b in bodies:
                    per_iter = sent_of(b.state.effects)[len(sent_of(rec.entry.effects)):]
                itv = rec.iter_value
                trips = None
                if isinstance(itv, Opaque) and itv.label == 'range' and len(itv.args) == 1 and \
                        isinstance(itv.args[0], Sym):
                    trips = itv.args[0]
                if trips is None or len(bodies) != 1:
                    raise AnalysisError('%s: loop at line %d is not a counted loop' % (q, rec.line))
                af = affine_in(trips, ('v', '@q'))
                if af is None:
                    raise AnalysisError('%s: trip count %s is not affine in the quotient' % (q, trips))
                lo_t, _hi = reg.sign_range(af[0], af[1])
                if lo_t < 0:
                    raise SplitNeeded(0) if False else AnalysisError(
                        '%s: trip count %s may be negative' % (q, trips))
                for e in per_iter:
                    d = emitted_duration(e, layer)
                    in_loop[id(e)] = True
                    if d is None or not d.is_const():
                        ok_range = False
                        continue
                    if not 1 <= d.const_value() <= MAX_CHUNK:
                        ok_range = False
                    total = total + trips * d
            tail = [e for e in sent_of(o.state.effects) if id(e) not in in_loop]
            for e in tail:
                d = emitted_duration(e, layer)
                if d is None:
                    ok_range = False
                    continue
                af = affine_in(d, ('v', '@q'))
                if af is None:
                    ok_range = False
                    continue
                lo_d, hi_d = reg.sign_range(af[0], af[1])
                if lo_d < 1 or hi_d > MAX_CHUNK:
                    ok_range = False
                total = total + d
            ck.ob('C06-D5-pause-range', inst, ok_range,
                  '%s: for n = %d*Q + %d an emitted zero-move does not have a duration in 1..%d '
                  '(or is not of the form SM,<d>,0,0)' % (q, m, r, MAX_CHUNK), fn.loc(),
                  key='%s::range' % q)
            ck.ob('C06-D5-pause-sum', inst, total == m * Q + r,
                  '%s: for a pause of n = %d*Q + %d ms (Q in %r) the emitted durations add up to '
                  '%s, not n' % (q, m, r, reg, total), fn.loc(), key='%s::sum' % q)
    ck.floor('%s closed-form residue cases' % fn.name, n_cases, m)
    poly.INT_VARS.discard('@q')


class LegacyUnroll(UnrollMixin, LegacyHooks):
    unroll = True

    def loop(self, interp, node, st):
        return self.unroll_loop(interp, node, st)


class Ebb3Unroll(EBB3Hooks):
    unroll = True

    def loop(self, interp, node, st):
        return self.unroll_loop(interp, node, st)


def pause_witness_search(ck, prog, eng, layer, why):
    """The pause code is in a shape neither structural rule understands (`why`).  Interpret it for
    concrete pause times with every loop unrolled exactly: an n whose emitted durations are not
    in 1..750 or do not add up to n is a genuine counterexample; if none is found among the
    samples the check cannot conclude."""
    name = PAUSE_HELPERS[layer]
    fn = prog.func('ebb_motion.' + name) if layer == 'legacy' else eng.method(name)
    param = fn.params[1]
    q = fn.qualname
    samples = list(range(-3, 1512)) + [2249, 2250, 2251, 2999, 3000, 3001, 7500, 7501, 100001]
    for n in samples:
        try:
            if layer == 'legacy':
                outs = run_helper(prog, fn, overrides={param: Sym.const(n)}, hooks=LegacyUnroll())
            else:
                hk = Ebb3Unroll(eng, inject=False, exclude=name)
                outs = eng.run(name, OK, overrides={param: Sym.const(n)}, hooks=hk)
        except Unbounded:
            ck.ob('C06-D5-pause-sum', '%s n=%d' % (q, n), False,
                  '%s does not finish emitting for a pause of %d ms' % (q, n), fn.loc(),
                  key='%s::sum' % q)
            return
        for o in outs:
            if o.kind == 'raise':
                continue
            if any(e.kind == 'summary' and e.args[0].err_set for e in o.state.effects):
                continue
            if any(nt[0] == 'loop-havoc' for nt in o.state.notes) or o.state.path:
                continue      # not an exact run for this n (a loop was summarised): no verdict
            sent = transports(o.state.effects) if layer == 'legacy' else [
                e for e in o.state.effects if e.kind == 'summary' and e.args[0].wrote]
            ds = [emitted_duration(e, layer) for e in sent]
            if any(d is None or not d.is_const() for d in ds):
                raise AnalysisError('%s: %s; and for n=%d an emitted text is not a literal '
                                    'SM,<d>,0,0' % (q, why, n))
            vals = [int(d.const_value()) for d in ds]
            want = max(n, 0)
            if any(not 1 <= v <= MAX_CHUNK for v in vals) or sum(vals) != want:
                ck.ob('C06-D5-pause-sum', '%s n=%d' % (q, n), False,
                      '%s: a pause of %d ms is emitted as zero-moves of %s ms (each must lie in '
                      '1..%d and they must add up to %d)' % (q, n, vals[:8], MAX_CHUNK, want),
                      fn.loc(), key='%s::sum' % q)
                return
    raise AnalysisError('%s: %s; no counterexample among %d sampled pause times; cannot conclude'
                        % (q, why, len(samples)))


def check_pause(ck, prog, eng, layer):
    n_ob, n_vi, n_ff = len(ck.obligations), len(ck.violations), len(ck.floor_failures)
    try:
        r = check_pause_structural(ck, prog, eng, layer)
    except AnalysisError as exc:
        return pause_witness_search(ck, prog, eng, layer, str(exc))
    if len(ck.violations) == n_vi and len(ck.floor_failures) == n_ff:
        return r
    # the structural rules read ONE chunking loop; code of another shape (whole chunks in a loop
    # and the remainder after it, ...) fails them without being wrong.  Their reports stand only
    # if a concrete pause time confirms them: the witness search interprets the helper for about
    # 1500 pause times with every loop unrolled exactly.
    rules = sorted({v['rule'] for v in ck.violations[n_vi:]}) or ['floor']
    try:
        # reports a counterexample (the structural reports then stand as well) or raises
        pause_witness_search(ck, prog, eng, layer, 'the loop rules report %s' % ', '.join(rules))
    except AnalysisError:
        del ck.obligations[n_ob:]
        del ck.violations[n_vi:]
        del ck.floor_failures[n_ff:]
        raise
    return r


def check_pause_structural(ck, prog, eng, layer):
    name = PAUSE_HELPERS[layer]
    if layer == 'legacy':
        fn = prog.func('ebb_motion.' + name)
        param = fn.params[1]

        def run_region(r):
            hk = LegacyChunkHooks(r, param)
            outs = run_helper(prog, fn, overrides={param: Sym.var(param)}, hooks=hk)
            hk.outs = outs
            return hk
    else:
        fn = eng.method(name)
        param = fn.params[1]

        def run_region(r):
            hk = Ebb3ChunkHooks(eng, r, param, name)
            hk.outs = eng.run(name, OK, overrides={param: Sym.var(param)}, hooks=hk)
            return hk
    q = fn.qualname
    from .. import interp as _interp
    runs0 = _interp.GENERATOR_RUNS[0]
    regions = chunk_regions(run_region)
    if _interp.GENERATOR_RUNS[0] != runs0:
        raise AnalysisError('%s draws its chunks from a generator: the chunking loop and the '
                            'loop that sends are two different loops; the loop rules cannot '
                            'conclude' % q)
    atom = ('v', '@n')
    n_true = 0
    for r, hk in regions:
        inst = '%s n in %r' % (q, r)
        if hk.iter is None:
            return check_pause_closed(ck, prog, eng, layer, fn, param)
        ck.ob('C06-D5-pause-start', inst, hk.entry_value == Sym.var(param),
              '%s: the loop does not start from the requested pause time (starts from %s)'
              % (q, hk.entry_value), fn.loc(), key='%s::start' % q)
        want_run = r.lo is not None and r.lo >= 1
        want_skip = r.hi is not None and r.hi <= 0
        if not (want_run or want_skip):
            ck.ob('C06-D5-pause-domain', inst, False,
                  '%s: the loop test does not separate n <= 0 from n >= 1 (region %r is decided '
                  'uniformly)' % (q, r), fn.loc(), key='%s::domain' % q)
            continue
        ck.ob('C06-D5-pause-domain', inst, hk.iter['test'] == want_run,
              '%s: for a remaining time in %r the loop %s; a pause of n>=1 ms must emit moves '
              'and n<=0 none' % (q, r, 'runs' if hk.iter['test'] else 'does not run'),
              fn.loc(), key='%s::domain' % q)
        if not hk.iter['test']:
            continue
        n_true += 1
        for p in hk.iter['paths']:
            sent = p['sent']
            ds = [emitted_duration(e, layer) for e in sent]
            ok_one = len(sent) == 1 and ds[0] is not None
            ck.ob('C06-D5-pause-command', inst, ok_one,
                  '%s: one iteration over %r emits %d command(s) %s; expected exactly one '
                  '"SM,<duration>,0,0"' % (q, r, len(sent), [render(
                      e.args[1] if len(e.args) > 1 else None, fn.params[1:]) for e in sent]),
                  fn.loc(), key='%s::command' % q)
            if not ok_one:
                continue
            e_af = affine_in(ds[0], atom)
            nxt = p['next']
            n_af = affine_in(nxt, atom) if isinstance(nxt, Sym) else None
            if e_af is None or n_af is None:
                ck.ob('C06-D5-pause-chunk', inst, False,
                      '%s: emitted duration %s / next remainder %s are not affine in the remaining '
                      'time' % (q, ds[0], nxt), fn.loc(), key='%s::affine' % q)
                continue
            lo_e, hi_e = r.sign_range(e_af[0], e_af[1])
            ck.ob('C06-D5-pause-range', inst, lo_e >= 1 and hi_e <= MAX_CHUNK,
                  '%s: for a remaining time in %r the emitted duration %s ranges over %s..%s; '
                  'every zero-move must last 1..%d ms' % (q, r, ds[0], lo_e, hi_e, MAX_CHUNK),
                  fn.loc(), key='%s::range' % q)
            # conservation: next = n - emitted and next >= 0   (or emitted == n and next <= 0)
            dec = (Fraction(1) - n_af[0], -n_af[1])       # n - next
            same = dec == (e_af[0], e_af[1])
            lo_n, hi_n = r.sign_range(n_af[0], n_af[1])
            whole = (e_af == (Fraction(1), Fraction(0))) and hi_n <= 0
            ck.ob('C06-D5-pause-sum', inst, (same and lo_n >= 0) or whole,
                  '%s: for a remaining time n in %r the loop emits %s and continues with %s: the '
                  'emitted durations do not add up to the requested pause' % (q, r, ds[0], nxt),
                  fn.loc(), key='%s::sum' % q)
        # nothing is sent after the loop
    ck.floor('%s regions in which the loop runs' % name, n_true, 1)
    for r, hk in regions:
        trailing = None
        for o in hk.outs:
            effs = o.state.effects
            sent = transports(effs) if layer == 'legacy' else [
                e for e in effs if (e.kind == 'summary' and e.args[0].wrote) or is_port_call(e, ('write',))]
            if sent:
                trailing = sent
        ck.ob('C06-D5-pause-nothing-else', '%s n in %r' % (q, r), trailing is None,
              '%s sends something outside the chunking loop' % q, fn.loc(),
              key='%s::outside-loop' % q)
    ck.sample({q: [(repr(r), hk.iter and hk.iter.get('test')) for r, hk in regions]})


# ---------------------------------------------------------------------------- D6 LM suppression
class ZeroCase(LegacyHooks):
    def __init__(self, zero):
        LegacyHooks.__init__(self)
        self.zero = zero
        self.undecided = []

    def decide(self, cond, st):
        r = LegacyHooks.decide(self, cond, st)
        if r is not None:
            return r
        if isinstance(cond, (AndC, OrC, NotC)):
            return None       # decomposed by the interpreter, asked again per conjunct
        if isinstance(cond, Cmp) and cond.op in ('==', '!=') and isinstance(cond.a, Sym) and \
                cond.b == Sym.const(0):
            # the case fixes which parameters are zero: substitute and look at what is left
            left = cond.a.subs({('v', k): Sym.const(0) for k, z in self.zero.items() if z})
            if left.is_const():
                return (left.const_value() == 0) == (cond.op == '==')
            at = cond.a.as_atom()
            neg_at = (-cond.a).as_atom()
            at = at or neg_at
            if at is not None and at[0] == 'v' and at[1] in self.zero:
                return self.zero[at[1]] == (cond.op == '==')
        if isinstance(cond, Truthy) and isinstance(cond.v, Sym):
            at = cond.v.as_atom()
            if at is not None and at[0] == 'v' and at[1] in self.zero:
                return not self.zero[at[1]]
        self.undecided.append(cond)
        return None


class ConcreteCase(LegacyHooks):
    """Decides numeric tests by evaluating them at one concrete point (witness search)."""

    def __init__(self, assign):
        LegacyHooks.__init__(self)
        self.assign = assign
        self.undecided = []

    def decide(self, cond, st):
        r = LegacyHooks.decide(self, cond, st)
        if r is not None:
            return r
        if isinstance(cond, (AndC, OrC, NotC)):
            return None
        from fractions import Fraction
        try:
            if isinstance(cond, Cmp) and isinstance(cond.a, Sym) and isinstance(cond.b, Sym):
                val = (cond.a - cond.b).evaluate({k: Fraction(v) for k, v in self.assign.items()})
                return {'<': val < 0, '<=': val <= 0, '>': val > 0, '>=': val >= 0,
                        '==': val == 0, '!=': val != 0}[cond.op]
            if isinstance(cond, Truthy) and isinstance(cond.v, Sym):
                return cond.v.evaluate({k: Fraction(v) for k, v in self.assign.items()}) != 0
        except (KeyError, ZeroDivisionError, ValueError):
            pass
        self.undecided.append(cond)
        return None


def lm_witness(prog, fn, names, zero):
    """Concrete requests of one zero / non-zero pattern on which doLowLevelMove's decision to send
    differs from the specification; None if a test was not decided by a concrete point."""
    r1, s1, a1, r2, s2, a2 = names
    free = [n for n in names if not zero[n]]
    bad = []
    for vals in itertools.product((1, -1, 2), repeat=len(free)):
        asg = {n: 0 for n in names}
        asg.update(dict(zip(free, vals)))
        idle1 = (asg[r1] == 0 and asg[a1] == 0) or asg[s1] == 0
        idle2 = (asg[r2] == 0 and asg[a2] == 0) or asg[s2] == 0
        want = not (idle1 and idle2)
        hk = ConcreteCase(asg)
        outs = run_helper(prog, fn, overrides={'clear': NONE}, hooks=hk)
        if hk.undecided:
            return None
        sends = {bool(transports(o.state.effects)) for o in outs if o.kind == 'return'}
        if sends != {want}:
            bad.append((asg, sends, want))
    return bad


def check_lm_suppression(ck, prog):
    fn = prog.func('ebb_motion.doLowLevelMove')
    names = fn.params[1:7]
    if len(names) != 6:
        raise AnalysisError('doLowLevelMove signature changed')
    r1, s1, a1, r2, s2, a2 = names
    n = 0
    pending = []
    for bits in itertools.product((True, False), repeat=6):
        zero = dict(zip(names, bits))
        idle1 = (zero[r1] and zero[a1]) or zero[s1]
        idle2 = (zero[r2] and zero[a2]) or zero[s2]
        want_send = not (idle1 and idle2)
        hk = ZeroCase(zero)
        outs = run_helper(prog, fn, overrides={'clear': NONE}, hooks=hk)
        sends = {bool(transports(o.state.effects)) for o in outs if o.kind == 'return'}
        n += 1
        case = ', '.join('%s%s0' % (k, '=' if z else '!=') for k, z in zero.items())
        if hk.undecided and sends != {want_send} and want_send in sends:
            # a relation between two non-zero parameters (rate == accel) is not fixed by the
            # zero / non-zero case: both outcomes were explored, the expected one among them
            pending.append((case, hk.undecided[0], zero))
            continue
        ck.ob('C06-D6-lm-suppression', 'doLowLevelMove[%s]' % case, sends == {want_send},
              'doLowLevelMove with %s %s; a low-level move must be suppressed exactly when neither '
              'axis can move (rate and accel both zero, or no steps, on both axes)%s'
              % (case, {True: 'is sent', False: 'is suppressed'}.get(
                  next(iter(sends)) if len(sends) == 1 else None,
                  'is sent for some values and suppressed for others'),
                 '; undecided test: %s' % hk.undecided[0] if hk.undecided else ''),
              fn.loc(), key='ebb_motion.doLowLevelMove::suppression')
    ck.floor('LM zero/non-zero cases', n, 64)
    # a relation between non-zero parameters: decide by concrete requests of the pending patterns
    still = []
    for case, cond, zero in pending:
        wit = lm_witness(prog, fn, names, zero)
        if wit is None:
            still.append((case, cond))
        elif wit:
            asg, sends, want = wit[0]
            ck.ob('C06-D6-lm-suppression', 'doLowLevelMove[%s]' % case, False,
                  'doLowLevelMove(%s) %s, but %s: a low-level move must be suppressed exactly when '
                  'neither axis can move (rate and accel both zero, or no steps, on both axes)'
                  % (', '.join('%s=%d' % (k, asg[k]) for k in names),
                     'is suppressed' if sends == {False} else 'is sent' if sends == {True}
                     else 'is sent on some paths only',
                     'it must be sent' if want else 'neither axis can move'),
                  fn.loc(), key='ebb_motion.doLowLevelMove::suppression')
        else:
            ck.ob('C06-D6-lm-suppression', 'doLowLevelMove[%s] by concrete requests' % case, True)
            note = ('doLowLevelMove relates two parameters in its suppression test; those zero / '
                    'non-zero patterns were decided on all requests with non-zero values in '
                    '{1, -1, 2} only')
            if note not in ck.assumptions:
                ck.assumptions.append(note)
    pending = still
    if pending and not ck.violations:
        raise AnalysisError('doLowLevelMove: the suppression test compares two parameters with '
                            'each other (%r); %d of 64 zero/non-zero cases do not decide it'
                            % (pending[0][1], len(pending)))


# ---------------------------------------------------------------------------- D7 no port
def check_no_port(ck, prog):
    mod = prog.module('ebb_motion')
    n = 0
    for name, fn in sorted(mod.functions.items()):
        if not fn.params or fn.params[0] != 'port_name':
            continue
        over = {p: Sym.var(p) for p in optional_params(fn, True)}
        outs = run_helper(prog, fn, port=NONE, overrides=over)
        sent = [e for o in outs for e in transports(o.state.effects)]
        n += 1
        ck.ob('C06-D7-no-port', fn.qualname, not sent,
              '%s hands %s to the transport although no port was given' % (
                  fn.qualname, [render(e.args[1], fn.params[1:]) for e in sent if e.kind == 'transport']),
              fn.loc(), key='%s::sends-without-port' % fn.qualname)
    ck.floor("legacy helpers taking a port", n, 24)


def analyse(ck, prog, deep=False):
    poly.INT_VARS.clear()
    base, cls, family = most_derived(prog)
    eng = Engine(prog, cls, inject=False)
    # all parameters are integers in the firmware domain: int(x) is the identity on them
    for f in list(prog.module('ebb_motion').functions.values()) + list(public_methods(cls).values()):
        poly.INT_VARS.update(f.params)
    poly.INT_VARS.add('@n')
    try:
        extracted = check_templates(ck, prog, eng, deep)
        check_pairs(ck, prog, eng, extracted)
        check_motors_enable(ck, eng)
        check_clamp_legacy(ck, prog)
        for layer in ('legacy', 'ebb3'):
            check_pause(ck, prog, eng, layer)
        check_lm_suppression(ck, prog)
        check_no_port(ck, prog)
        # "with no port, nothing is sent" presupposes that a disconnected object has no port
        from .c04 import check_disconnect
        from ..ebb3 import Engine as _Engine
        check_disconnect(ck, _Engine(prog, cls), 'C06-D8-no-port-after-disconnect')
        # whether motors_enable sends the preliminary EM,r,r depends on how the QE reply is
        # decoded: a wrong entry of that table makes the helper send text that is not documented
        # for the request (or omit documented text)
        from .c16 import check_decode_map
        check_decode_map(ck, _Engine(prog, cls), prefix='C06-D9')
        # ... and on the comparison made with the decoded value: the command sequence of the
        # single-motor protocol (CU,50,0 / QE / preliminary EM,r,r only when the board's global
        # resolution differs / EM,r1,r2) is decided per (request, board state) case
        from . import c16 as _c16
        _c16.check_motors_enable(_c16.Renamed(ck, {'C16-D5-motor-protocol':
                                                   'C06-D10-motor-protocol'}),
                                 _Engine(prog, cls, inject=False))
        # what a helper sends depends on its arguments, not on earlier calls
        from .. import purity
        reqs = [n for n in public_methods(cls) if not n.startswith('_')
                and n not in ('connect', 'disconnect', '__init__', 'find_first', 'parse_version')]
        purity.check_instance_state(ck, cls, reqs, 'C06-R-state')
    finally:
        poly.INT_VARS.clear()
    for k, v in list(extracted['ebb3'].items())[:10]:
        ck.sample({'ebb3.%s[%s]' % (k[0], ','.join(sorted(k[1]))): sorted(map(fmt_seq, v))})
    for k, v in list(extracted['legacy'].items())[:10]:
        ck.sample({'legacy.%s[%s]' % (k[0], ','.join(sorted(k[1]))): sorted(map(fmt_seq, v))})


def run(ck, prog, tier):
    ck.explanation = (
        'Both helper layers are interpreted abstractly (parsed source; nothing runs) and the '
        'sequence of string templates handed to the transport is extracted per helper and per '
        'presence pattern of its optional arguments, slots named by positional parameter index. '
        'D1 the sequences equal the documented command rows (48 helpers); a supplied optional '
        'argument appears whatever its value. D2 paired helpers of the two layers agree. D4 EM '
        'slots are clamp(arg,0,5) (piecewise-affine identity). D5 the pause loop, analysed for one '
        'iteration over integer regions of the remaining time, emits 1..750 ms chunks that sum to '
        'n, none for n<=0. D6 LM suppression over the 64 zero/non-zero cases. D7 nothing is handed '
        'to a live transport without a port.')
    ck.trusted = ['Python ast', 'vf/interp.py string-template domain', 'vf/legacy.py', 'vf/ebb3.py',
                  'the command rows transcribed from the EBB command reference quoted in the '
                  'helpers\' docstrings (SPEC tables in vf/props/c06.py)']
    ck.assumptions = ['arguments are integers (firmware ranges); str.format/f-string semantics',
                      'the transport primitives deliver the text unchanged (C05-D1, C07-D1)']
    analyse(ck, prog, tier == 'thorough')
