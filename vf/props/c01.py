"""C01 - timed-move prediction == firmware recurrence (move_dist_lt, moveDistLM/LMA)."""
from ..poly import Sym, mk_func
from ..interp import Interp, Hooks, Str, Tup, Opaque, FuncRef, Const, NONE
from ..model import AnalysisError
from .. import purity
from . import motion
from .motion import V, TWO31

CLEAR_TABLE_DOC = 'accumulator cleared to 2^31-1 iff the first non-zero of (tick-1 rate, accel) is negative'


def clear_expected(signs):
    for s in signs:
        if s < 0:
            return TWO31 - 1
        if s > 0:
            return 0
    return 0


def analyse_lt(ck, prog, fn, rule_prefix, oracle, quantities, time_name='time'):
    """Shared by C01/C02: returns nothing; records obligations for D1/D3/D4/D5."""
    motion.declare_ints()
    T = V(time_name)
    params = fn.params
    results = {}
    all_undecided = []
    for mode in ('numeric', 'clear'):
        args = [Str.lit('clear') if (p == 'accum' and mode == 'clear') else V(p) for p in params]
        it_ = Interp(prog)
        it_.trace_arith = True
        outs = it_.run(fn, args)
        results[mode] = outs
        ck.saw('paths', '%s[%s]: %d paths' % (fn.qualname, mode, len(outs)))
        for o in outs:
            if o.kind != 'return':
                ck.ob(rule_prefix + '-D1-identity', '%s[%s]::no-raise' % (fn.name, mode), False,
                      'a path raises %s' % o.value, fn.loc(), key='%s::raises' % fn.name)
        main_paths = 0
        witness_paths = [0]
        covered = {}
        undecided = []
        for o in outs:
            if o.kind != 'return':
                continue
            conds = []
            for c, t in o.state.path:
                nc = motion.norm_path_cond(c, t)
                if nc is None:
                    raise AnalysisError('%s: non-numeric branch condition %r' % (fn.name, c))
                conds.append(nc)
            # D5: the T == 0 exit
            only_t = lambda e: e.all_atoms() == {('v', time_name)}
            tz = [(e, op) for e, op in conds if only_t(e)]
            if any(not (e == T or e == -T) for e, op in tz):
                ck.ob(rule_prefix + '-D5-early-exit', '%s[%s]::time-guard' % (fn.name, mode), False,
                      'a branch tests the tick count against something other than zero (%r): the '
                      'recurrence has no such case inside the domain T>=1' % (tz[0][0],), fn.loc(),
                      key='%s::early-exit' % fn.name)
                continue
            if any(op == '==' for e, op in tz):
                ok = o.value == Tup((Sym.const(0), Sym.const(0))) and len(conds) == 1
                ck.ob(rule_prefix + '-D5-early-exit', '%s[%s]::time==0' % (fn.name, mode), ok,
                      'the time==0 exit must return the literal (0, 0) and be the only early '
                      'return (got %r under %d conditions)' % (o.value, len(conds)), fn.loc(),
                      key='%s::early-exit' % fn.name)
                continue
            rest = [(e, op) for e, op in conds if not only_t(e)]
            if any(op not in ('!=',) for e, op in tz):
                ck.ob(rule_prefix + '-D5-early-exit', '%s[%s]::time-guard' % (fn.name, mode), False,
                      'an early return is taken on a condition on the tick count other than '
                      'time == 0 (inside the property domain T>=1)', fn.loc(),
                      key='%s::early-exit' % fn.name)
                continue
            main_paths += 1

            def by_witness(reason, rule, key, o=o, conds=conds, mode=mode):
                """The symbolic argument failed for this path (`reason`).  Report a violation only
                with a concrete input at which the extracted forms disagree with the recurrence;
                if they agree on the whole sample grid the check cannot conclude."""
                import math
                items = list(o.value.items) if isinstance(o.value, Tup) else []
                if len(items) != 2 or not all(isinstance(x, Sym) for x in items):
                    if isinstance(o.value, Tup) and len(items) == 2 or not isinstance(o.value, Tup):
                        undecided.append('%s: %s, and the returned value is not a pair of '
                                         'numeric normal forms (%r): cannot conclude'
                                         % (fn.name, reason, o.value))
                        return
                    ck.ob(rule, '%s[%s]::returns-pair' % (fn.name, mode), False,
                          'does not return (position, accumulator): %r' % (o.value,), fn.loc(),
                          key='%s::return-shape' % fn.name)
                    return
                names = [p_ for p_ in fn.params if not (p_ == 'accum' and mode == 'clear')]

                def expected_at(pt):
                    if mode == 'numeric':
                        acc0 = Sym.const(pt['accum'])
                    else:
                        sg = tuple((q.evaluate(pt) > 0) - (q.evaluate(pt) < 0) for q in quantities)
                        acc0 = Sym.const(clear_expected(sg))
                    tot = oracle(acc0).evaluate(pt)
                    pos = math.floor(tot / motion.TWO31)
                    return (pos, tot - motion.TWO31 * pos)
                res = motion.path_witness(items, conds, names, expected_at)
                if res[0] == 'witness':
                    _t, pt, k, gv, wv = res
                    ck.ob(rule, '%s[%s]::witness' % (fn.name, mode), False,
                          '%s: at %s the returned %s is %s, the firmware recurrence gives %s (%s)'
                          % (fn.name, ', '.join('%s=%s' % kv for kv in sorted(pt.items())),
                             ('position', 'accumulator')[k], gv, wv, reason), fn.loc(), key=key)
                elif res[0] == 'agree':
                    undecided.append('%s: %s, but the extracted forms agree with the recurrence '
                                     'on all %d sampled inputs of this path; cannot conclude'
                                     % (fn.name, reason, res[1]))
                else:
                    undecided.append('%s: %s, and the extracted forms cannot be evaluated (%s)'
                                     % (fn.name, reason, res[1]))

            if not (isinstance(o.value, Tup) and len(o.value.items) == 2
                    and all(isinstance(x, Sym) for x in o.value.items)):
                by_witness('the result is not a pair of numeric normal forms',
                           rule_prefix + '-D1-identity', '%s::return-shape' % fn.name)
                continue
            # the snap idiom `if abs(A-B) < c: A = B` and similar leave ABS(E) < c assumptions;
            # separate them from sign conditions
            sign_conds, eq_gens = [], []
            bad_cond = None
            rest = merge_tolerance_windows(rest)
            for e, op in rest:
                snap = snap_assumption(e, op)
                if snap == 'zero':
                    eq_gens.append(snap_arg(e))
                elif snap == 'free':
                    pass
                elif snap == 'bad':
                    bad_cond = e
                else:
                    sign_conds.append((e, op))
            if bad_cond is not None:
                by_witness('a tolerance test %r may replace a value by a different one'
                           % (bad_cond,), rule_prefix + '-D1-identity', '%s::snap' % fn.name)
                continue
            if mode == 'numeric':
                if sign_conds:
                    by_witness('the result depends on a branch on %r, which the recurrence does '
                               'not have' % (sign_conds[0][0],), rule_prefix + '-D1-identity',
                               '%s::data-branch' % fn.name)
                    continue
                cases = [((), V('accum'))]
            else:
                try:
                    allowed = motion.sign_cases_of_path(sign_conds, quantities)
                except KeyError as exc:
                    by_witness('the clear rule tests the sign of %r, which is not (a multiple of) '
                               'one of the per-tick rates %s' % (
                                   exc.args[0], ', '.join(repr(q) for q in quantities)),
                               rule_prefix + '-D3-clear-rule', '%s::clear-quantity' % fn.name)
                    witness_paths[0] += 1
                    continue
                cases = [(t, Sym.const(clear_expected(t))) for t in sorted(allowed)]
                for t, _ in cases:
                    covered[t] = covered.get(t, 0) + 1
            for signs, accum0 in cases:
                total = oracle(accum0)
                pos, rem = motion.split_pos_rem(total)
                # raw ROUND atom (not simplified away although P is integer-valued): the snap path
                # returns ROUND(X) with X == P only modulo the path equality
                pos_r, rem_r = motion.split_pos_rem(Sym.func('ROUND', total))
                gp, gr = o.value.items
                inst = '%s[%s]%s' % (fn.name, mode, list(signs) if signs else '')
                ok_p = any(motion.equal_mod(x, y, eq_gens) for x in (gp, motion.strip_int(gp))
                           for y in (pos, pos_r))
                ok_r = any(motion.equal_mod(x, y, eq_gens) for x in (gr, motion.strip_int(gr))
                           for y in (rem, rem_r))
                what = ('sign case %s: expected start accumulator %s' % (list(signs), accum0)) \
                    if signs else 'numeric start accumulator'
                rule = rule_prefix + ('-D3-clear-rule' if signs else '-D1-identity')
                if ok_p and ok_r:
                    ck.ob(rule, inst + '::position', True)
                    ck.ob(rule, inst + '::accumulator', True)
                else:
                    by_witness('the returned forms (%r, %r) are not the normal forms FLOOR(P/2^31), '
                               'P - 2^31*FLOOR(P/2^31) of the recurrence, P = %r (%s)'
                               % (gp, gr, total, what), rule,
                               '%s::%s' % (fn.name, 'clear-table' if signs else
                                           ('position' if not ok_p else 'accumulator')))
                    break
                if len(ck.samples) < 6:
                    ck.sample({'function': fn.name, 'mode': mode, 'signs': list(signs),
                               'position': repr(gp), 'accumulator': repr(gr)})
        if mode == 'clear' and not witness_paths[0]:
            import itertools
            n = len(quantities)
            for t in itertools.product((-1, 0, 1), repeat=n):
                ck.ob(rule_prefix + '-D3-clear-rule', '%s::clear-case-covered%s' % (fn.name, list(t)),
                      covered.get(t, 0) >= 1,
                      'no path of the clear rule handles sign case %s of %s' % (
                          list(t), [repr(q) for q in quantities]), fn.loc(),
                      key='%s::clear-cover' % fn.name)
        ck.floor('%s[%s] main paths' % (fn.name, mode), main_paths, 1)
        if undecided:
            all_undecided.extend(undecided)
    if all_undecided and not ck.violations:
        raise AnalysisError(all_undecided[0])
    if all_undecided:
        ck.extra['undecided_paths'] = all_undecided[:5]
    allouts = results['numeric'] + results['clear']
    n_paths, n_ops = motion.check_precision(ck, rule_prefix + '-D4-precision', fn, allouts)
    ck.floor('%s mpmath operations on analysed paths' % fn.name, n_ops, 5)
    n_div = motion.check_float_division_closure(ck, rule_prefix + '-D4-float-division', prog, fn)
    ck.floor('%s division sites' % fn.name, n_div, 1)
    return results


def merge_tolerance_windows(conds):
    """A tolerance test written without abs(): -c < X < c (both assumed) is ABS(X) < c, and either
    X >= c or X <= -c alone is ABS(X) >= c (0 < c < 1, X without a constant term)."""
    from fractions import Fraction
    bounds = {}          # canonical X (as Sym) -> {'lt': [c], 'gt': [c]} meaning X < c / X > c
    keep, idx = [], []
    for e, op in conds:
        if any(a[0] == 'f' and a[1] == 'ABS' for a in e.atoms()):
            keep.append((e, op))          # already in the abs() form
            continue
        k = e.subs({a: Sym.const(0) for a in e.all_atoms() if a[0] == 'v'})
        if not (k.is_const() and e.is_poly() is not None):
            keep.append((e, op))
            continue
        kc = k.const_value() if k.is_const() else None
        x = e - k if kc is not None else None
        if kc is None or kc == 0 or abs(kc) >= 1 or x is None or x.is_const() or \
                op not in ('<', '<=', '>', '>='):
            keep.append((e, op))
            continue
        # x + kc op 0
        canon, sgn = (x, 1) if repr(x) <= repr(-x) else (-x, -1)
        # sgn*canon + kc op 0
        if sgn == 1:
            rel, c = op, -kc                     # canon op -kc
        else:
            rel = {'<': '>', '<=': '>=', '>': '<', '>=': '<='}[op]
            c = kc                               # canon rel kc
        bounds.setdefault(repr(canon), {'x': canon, 'items': []})['items'].append((rel, c))
        idx.append((len(keep), repr(canon)))
        keep.append(None)
    out = [c for c in keep if c is not None]
    for key, b in bounds.items():
        x = b['x']
        ups = [c for rel, c in b['items'] if rel in ('<', '<=') and c > 0]
        los = [c for rel, c in b['items'] if rel in ('>', '>=') and c < 0]
        outs_hi = [c for rel, c in b['items'] if rel in ('>', '>=') and c > 0]
        outs_lo = [c for rel, c in b['items'] if rel in ('<', '<=') and c < 0]
        used = False
        if ups and los and min(ups) == -max(los):
            out.append((mk_func('ABS', x) - min(ups), '<'))
            used = True
        elif outs_hi and not ups:
            out.append((mk_func('ABS', x) - min(outs_hi), '>='))
            used = True
        elif outs_lo and not los:
            out.append((mk_func('ABS', x) - (-max(outs_lo)), '>='))
            used = True
        if not used:
            # not a tolerance window after all: give the original conditions back
            for rel, c in b['items']:
                out.append((x - c, rel))
    return out


def snap_arg(e):
    """For E = ABS(X) - c return X."""
    for at in e.atoms():
        if at[0] == 'f' and at[1] == 'ABS':
            return at[2][0]
    return None


def snap_assumption(e, op):
    """Classify a path assumption `E op 0` with E = ABS(X) - c, c a positive constant:
    'zero' : ABS(X) < c assumed with X a multiple of 1/6 on integer inputs and c <= 1/6  => X == 0
    'free' : ABS(X) >= c assumed (no information needed)
    'bad'  : ABS(X) < c with c > 1/6: the snap may change the value
    None   : not of this shape."""
    from fractions import Fraction
    x = snap_arg(e)
    if x is None:
        return None
    rest = e - mk_func('ABS', x)
    if not rest.is_const():
        return None
    c = -rest.const_value()
    if op in ('>=', '>'):
        return 'free'
    if op not in ('<', '<='):
        return None
    # X must be integer-valued after scaling by 6
    from ..poly import is_intvalued
    if not is_intvalued(x * 6):
        return 'bad'
    if c < Fraction(1, 6) or (c == Fraction(1, 6) and op == '<'):
        return 'zero'
    return 'bad'


class NoInline(Hooks):
    def __init__(self, quals):
        self.quals = quals

    def inline(self, fn, depth):
        return fn.qualname not in self.quals


def retuple(v):
    """(x[0], x[1], ..., x[n-1]) rebuilt from the elements of one value x, in order -> x."""
    if isinstance(v, Tup) and v.items:
        srcs = set()
        for k, it in enumerate(v.items):
            if isinstance(it, Opaque) and it.label == 'item' and it.args[1] == Sym.const(k):
                srcs.add(it.args[0])
            else:
                return v
        if len(srcs) == 1 and len(v.items) == 2:
            return srcs.pop()
    return v


def check_wrappers(ck, prog):
    """D6: deprecated aliases delegate with the right arguments."""
    target = 'ebb_calc.move_dist_lt'
    f_lma = prog.func('ebb_motion.moveDistLMA')
    f_lm = prog.func('ebb_motion.moveDistLM')
    hooks = NoInline({target})
    a = [V('p0'), V('p1'), V('p2'), V('p3')]
    outs = Interp(prog, hooks).run(f_lma, a)
    want = Opaque('call:' + target, tuple(a))
    ok = len(outs) == 1 and outs[0].kind == 'return' and retuple(outs[0].value) == want
    ck.ob('C01-D6-aliases', 'moveDistLMA::delegates', ok,
          'moveDistLMA(a,b,c,d) must return move_dist_lt(a,b,c,d); got %r' % (
              [o.value for o in outs],), f_lma.loc(), key='moveDistLMA::delegation')
    outs = Interp(prog, hooks).run(f_lm, a[:3])
    call = Opaque('call:' + target, (a[0], a[1], a[2], Sym.const(0)))
    want = Opaque('item', (call, Sym.const(0)))
    ok = len(outs) == 1 and outs[0].kind == 'return' and outs[0].value == want
    ck.ob('C01-D6-aliases', 'moveDistLM::delegates', ok,
          'moveDistLM(a,b,c) must return element 0 of move_dist_lt(a,b,c,0); got %r' % (
              [o.value for o in outs],), f_lm.loc(), key='moveDistLM::delegation')
    ck.saw('functions', [f_lma.qualname + ' @ ' + f_lma.loc(), f_lm.qualname + ' @ ' + f_lm.loc()])


def run(ck, prog, tier):
    ck.explanation = (
        'move_dist_lt is abstractly interpreted in the rational-normal-form domain over the atoms '
        'rate, accel, time, accum and TRUNC(accel/2) (int(a/b) is the opaque atom TRUNC, //, '
        'floor are FLOOR, so the rounding direction is part of the normal form). (D1/D2) With a '
        'numeric accumulator the returned pair must equal FLOOR(P/2^31), P-2^31*FLOOR(P/2^31) '
        'with P = accum + T(rate - TRUNC(accel/2)) + accel*T(T+1)/2, the closed form of the '
        'firmware recurrence - an identity of normal forms, hence over all integer tuples. (D3) '
        'With accum="clear" every path is mapped to the sign cases of (tick-1 rate, accel) it '
        'covers (tested quantities identified modulo earlier equalities); all 9 cases must be '
        'covered and return the oracle with start accumulator 2^31-1 iff the first non-zero is '
        'negative. (D4) On every path the first mpmath operation is preceded by mp.dps = K>=21 '
        '(>=72 bits). (D5) The only early return is time==0 -> (0,0). (D6) The deprecated '
        'aliases delegate with the right arguments. Not decided: that mpmath evaluates the '
        'identity exactly at that precision (library rounding; bound argued in DESIGN.md).')
    ck.assumptions += ['inputs are integers (declared integer atoms); int(x) of an integer-valued '
                       'expression is the identity (lemma: P is integer-valued on integers)',
                       'mpmath rounds correctly to the configured precision; int(accel/2) is '
                       'exact for |accel| < 2^53']
    ck.trusted += ['python ast module', 'vf.poly normal forms (exact Fraction arithmetic)',
                   'vf.interp', 'closed form of the recurrence derived in DESIGN.md C01']
    purity.check(ck, prog, ['ebb_calc.move_dist_lt', 'ebb_motion.moveDistLM', 'ebb_motion.moveDistLMA'], 'C01-R-pure')
    fn = prog.func('ebb_calc.move_dist_lt')
    if fn.params != ['rate', 'accel', 'time', 'accum']:
        raise AnalysisError('move_dist_lt signature changed: %s' % fn.params)
    ck.saw('functions', fn.qualname + ' @ ' + fn.loc())
    motion.declare_ints()
    q1 = V('rate') - motion.half_accel() + V('accel')
    analyse_lt(ck, prog, fn, 'C01', motion.oracle_lt, [q1, V('accel')])
    check_wrappers(ck, prog)
    ck.exhaustive = True
