"""C18 - travel-limit helpers, decided exhaustively over order types."""
from fractions import Fraction

from ..poly import Sym
from .. import poly
from ..interp import Interp, Tup, Const, COND_TYPES, fold_cond, State
from ..order import weak_orderings, OrderCase, WitnessCase, ranks_of, describe
from ..model import AnalysisError
from .. import purity


class Undecided(Exception):
    pass


def run_case(prog, fn, args, case):
    it = Interp(prog, case)
    outs = it.run(fn, args)
    if len(outs) != 1 or outs[0].kind != 'return' or outs[0].state.path:
        raise Undecided([repr(c) for c in case.undecided[:3]])
    return outs[0].value


def truth(v, case):
    if isinstance(v, Const):
        return bool(v.v)
    if isinstance(v, COND_TYPES):
        t = fold_cond(v)
        if t is None:
            # composite conditions (not / and / or) are decomposed by the interpreter's branching
            it = Interp(None, case)
            it.stack.append(None)
            got = {b for b, _s in it.branch(v, State())}
            t = got.pop() if len(got) == 1 else None
        if t is None:
            raise Undecided([repr(v)])
        return t
    if isinstance(v, Sym) and v.is_const():
        # "flags exactly the values outside the range": a number is a flag by its truth value
        return v.const_value() != 0
    raise AnalysisError('flag is not a boolean: %r' % (v,))


def plain_cases():
    yield from weak_orderings(['v', 'l', 'u'], [('l', '<=', 'u')])


def tol_cases():
    names = ['v', 'l', 'u', 'lt', 'ut']
    cons = [('l', '<=', 'u'), ('lt', '<=', 'l'), ('u', '<=', 'ut')]
    pred = lambda r: (r['lt'] == r['l']) == (r['ut'] == r['u'])
    yield from weak_orderings(names, cons, pred)


def expected_name(r):
    if r['v'] > r['u']:
        return 'u'
    if r['v'] < r['l']:
        return 'l'
    return 'v'


def plain_flag(r):
    return r['v'] > r['u'] or r['v'] < r['l']


def tol_flag(r):
    return r['v'] > r['ut'] or r['v'] < r['lt']


# witness grids: exact rationals; each witness is a realisable input of the premises
def literal_constants(fn):
    """Positive numeric literals of a function (candidate hidden tolerances / offsets)."""
    import ast
    out = set()
    for node in ast.walk(fn.node):
        if isinstance(node, ast.Constant) and isinstance(node.value, (int, float)) and \
                not isinstance(node.value, bool) and node.value not in (0, 1, 2) and \
                node.value == node.value and abs(node.value) != float('inf'):
            out.add(abs(Fraction(repr(node.value)) if isinstance(node.value, float)
                        else Fraction(node.value)))
    return sorted(out)


def literal_constants_closure(prog, fn):
    """Literals of fn and of the package functions it calls."""
    from .. import purity
    out = set()
    for f in purity.closure(prog, [fn.qualname]):
        out.update(literal_constants(f))
    return sorted(out)[:6]


def axis_witnesses(tol, consts=()):
    # values a hair beyond / inside non-zero bounds: a comparison "up to a relative tolerance"
    # (math.isclose and the like carry their default 1e-09 without any literal in the source)
    for rel in (Fraction(1, 10 ** 12), Fraction(1, 10 ** 10)):
        for t in ((0, 1) if tol else (0,)):
            for l_, u_ in ((Fraction(-3), Fraction(4)), (Fraction(2), Fraction(4))):
                for b in (l_, u_):
                    for sg in (-1, 1):
                        yield {'l': l_, 'u': u_, 't': Fraction(t), 'v': b * (1 + sg * rel)}
                        if tol:
                            yield {'l': l_, 'u': u_, 't': Fraction(t),
                                   'v': (b + (t if b == u_ else -t)) * (1 + sg * rel)}
    for u in (0, 4):
        for t in ((0, 1) if tol else (0,)):
            for k in range(-5, 14):
                yield {'l': Fraction(0), 'u': Fraction(u), 't': Fraction(t), 'v': Fraction(k, 2)}
            # values just beyond each bound, at the scale of every literal of the function: a
            # hidden tolerance shows between the bound and bound +- that literal
            for c in consts:
                for b in (Fraction(0), Fraction(u)):
                    for m in (Fraction(1, 2), Fraction(1), Fraction(2)):
                        for sgn in (-1, 1):
                            yield {'l': Fraction(0), 'u': Fraction(u), 't': Fraction(t),
                                   'v': b + sgn * m * c}
                            if tol:
                                yield {'l': Fraction(0), 'u': Fraction(u), 't': Fraction(t),
                                       'v': b + sgn * (Fraction(t) + m * c)}


class LimitFn:
    """One clamp-with-flag helper analysed on one axis."""

    def __init__(self, ck, prog, fn, tol, has_flag, rule):
        self.ck, self.prog, self.fn, self.tol, self.has_flag, self.rule = \
            ck, prog, fn, tol, has_flag, rule
        self.v, self.l, self.u, self.t = (Sym.var('value'), Sym.var('lower'), Sym.var('upper'),
                                          Sym.var('tol'))
        self.args = [self.v, self.l, self.u] + ([self.t] if tol else [])
        self.flags = {}

    def terms(self):
        d = {'v': self.v, 'l': self.l, 'u': self.u}
        if self.tol:
            d.update({'lt': self.l - self.t, 'ut': self.u + self.t})
        return d

    def split(self, ret):
        if self.has_flag:
            if not (isinstance(ret, Tup) and len(ret.items) == 2 and isinstance(ret.items[0], Sym)):
                raise AnalysisError('%s does not return (value, flag)' % self.fn.qualname)
            return ret.items[0], ret.items[1]
        if not isinstance(ret, Sym):
            raise AnalysisError('%s does not return a number' % self.fn.qualname)
        return ret, None

    def judge(self, ranks, case, value_of_term, desc, witness=None):
        """Run under `case`; compare with the specification for rank map `ranks`."""
        ret = run_case(self.prog, self.fn, self.args, case)
        val, flag = self.split(ret)
        rv = case.resolve(val)
        exp = expected_name(ranks)
        name = self.fn.name
        suffix = (' [counterexample %s]' % witness) if witness else ''
        ok_v = rv is not None and rv[1] == value_of_term(exp)
        self.ck.ob(self.rule + '-value', desc, ok_v,
                   'in order type %s %s returns %r; expected the value when inside the closed '
                   'range, else the nearer bound%s' % (desc, name, val, suffix), self.fn.loc(),
                   key=name + '::value')
        if self.has_flag:
            got = truth(flag, case)
            want = tol_flag(ranks) if self.tol else plain_flag(ranks)
            self.flags[tuple(sorted(ranks.items()))] = got
            what = 'outside the range by more than the tolerance' if self.tol else \
                'outside the closed range'
            self.ck.ob(self.rule + '-flag', desc, got == want,
                       'in order type %s %s flags %s; expected %s (flag exactly the values %s)%s'
                       % (desc, name, got, want, what, suffix), self.fn.loc(), key=name + '::flag')
        return ret

    def analyse(self):
        n = 0
        terms = self.terms()
        try:
            for ranks in (tol_cases() if self.tol else plain_cases()):
                n += 1
                case = OrderCase([(terms, ranks)])
                case.minmax_by_selection = True
                desc = describe(ranks)
                ret = self.judge(ranks, case, lambda nm, r=ranks: r[nm], desc)
                if n <= 2:
                    self.ck.sample({'function': self.fn.name, 'order_type': desc,
                                    'returns': repr(ret)})
        except Undecided as und:
            # the function compares against a term outside {value, lower, upper[, lower-tol,
            # upper+tol]}: look for a concrete realisable counterexample on the witness grid
            before = len(self.ck.violations)
            for w in axis_witnesses(self.tol, literal_constants_closure(self.prog, self.fn)):
                assign = {'value': w['v'], 'lower': w['l'], 'upper': w['u'], 'tol': w['t']}
                case = WitnessCase(assign)
                case.minmax_by_selection = True
                ranks = ranks_of(terms, assign)
                wdesc = 'value=%s lower=%s upper=%s tol=%s' % (w['v'], w['l'], w['u'], w['t'])
                try:
                    self.judge(ranks, case, lambda nm: terms[nm].evaluate(assign),
                               describe(ranks), witness=wdesc)
                except Undecided as und2:
                    raise AnalysisError('%s: condition not decidable even on a concrete witness: '
                                        '%s' % (self.fn.qualname, und2))
            if len(self.ck.violations) == before:
                raise AnalysisError('%s compares against terms outside the order type (%s) and no '
                                    'counterexample was found on the witness grid: cannot conclude'
                                    % (self.fn.qualname, und))
        return n


def run(ck, prog, tier):
    poly.INT_VARS.clear()
    ck.explanation = (
        'checkLimits, checkLimitsTol, constrainLimits and point_in_bounds are abstractly '
        'interpreted once per order type (weak ordering) of {value, lower, upper[, lower-tol, '
        'upper+tol]} compatible with lower<=upper and tol>=0. A comparison is decided by finding '
        'two terms of the order type whose difference is the normal form of the compared '
        'expressions; min/max are resolved by rank. Every order type must be fully decided, and '
        'the returned value/flag is compared with the specification. Because the functions depend '
        'on their inputs only through these comparisons, the enumeration is exhaustive for all '
        'totally ordered numeric inputs. If a function compares against a term outside that set, '
        'its extracted decision table is evaluated on a grid of exact rational witnesses to '
        'exhibit a realisable counterexample (violation), else the check cannot conclude (exit 2).')
    ck.assumptions += ['inputs are totally ordered numbers (no NaN) with lower<=upper, tolerance>=0']
    ck.trusted += ['python ast module', 'vf.interp / vf.order', 'min/max semantics']
    purity.check(ck, prog, ['plot_utils.checkLimits', 'plot_utils.checkLimitsTol', 'plot_utils.constrainLimits', 'plot_utils.point_in_bounds'], 'C18-R-pure')
    f_chk = prog.func('plot_utils.checkLimits')
    f_tol = prog.func('plot_utils.checkLimitsTol')
    f_con = prog.func('plot_utils.constrainLimits')
    f_pib = prog.func('plot_utils.point_in_bounds')
    for f in (f_chk, f_tol, f_con, f_pib):
        ck.saw('functions', f.qualname + ' @ ' + f.loc())
    if f_chk.params != ['value', 'lower_bound', 'upper_bound'] or \
            f_con.params != f_chk.params or \
            f_tol.params != ['value', 'lower_bound', 'upper_bound', 'tolerance'] or \
            f_pib.params != ['point', 'bounds', 'tolerance']:
        raise AnalysisError('public parameter order of a limit helper changed')

    n1 = LimitFn(ck, prog, f_chk, False, True, 'C18-D1-checkLimits').analyse()
    LimitFn(ck, prog, f_con, False, False, 'C18-D1-constrainLimits').analyse()
    tolfn = LimitFn(ck, prog, f_tol, True, True, 'C18-D2-checkLimitsTol')
    n2 = tolfn.analyse()
    tol_flags = tolfn.flags

    # ---- D3: point_in_bounds == not flag_x and not flag_y (spec and extracted sibling)
    t = Sym.var('tol')
    x, y = Sym.var('x'), Sym.var('y')
    xl, xu, yl, yu = Sym.var('x_min'), Sym.var('x_max'), Sym.var('y_min'), Sym.var('y_max')
    point = Tup((x, y), 'list')
    bounds = Tup((Tup((xl, yl), 'list'), Tup((xu, yu), 'list')), 'list')
    tx = {'v': x, 'l': xl, 'u': xu, 'lt': xl - t, 'ut': xu + t}
    ty = {'v': y, 'l': yl, 'u': yu, 'lt': yl - t, 'ut': yu + t}

    def judge_pib(rx, ry, case, desc, witness=None):
        ret = run_case(prog, f_pib, [point, bounds, t], case)
        got = truth(ret, case)
        fx, fy = tol_flag(rx), tol_flag(ry)
        suffix = (' [counterexample %s]' % witness) if witness else ''
        ck.ob('C18-D3-point_in_bounds', desc, got == (not fx and not fy),
              'in order type [%s] point_in_bounds returns %s; the tolerant checker applied per '
              'coordinate gives flags x=%s y=%s%s' % (desc, got, fx, fy, suffix), f_pib.loc(),
              key='point_in_bounds::table')
        kx, ky = tuple(sorted(rx.items())), tuple(sorted(ry.items()))
        if kx in tol_flags and ky in tol_flags:
            ck.ob('C18-D3-sibling-agreement', desc,
                  got == (not tol_flags[kx] and not tol_flags[ky]),
                  'point_in_bounds disagrees with the extracted checkLimitsTol table in order '
                  'type [%s]%s' % (desc, suffix), f_pib.loc(), key='point_in_bounds::sibling')

    n3 = 0
    axis_cases = list(tol_cases())
    try:
        for rx in axis_cases:
            for ry in axis_cases:
                if (rx['lt'] == rx['l']) != (ry['lt'] == ry['l']):
                    continue  # the tolerance is shared: zero on both axes or positive on both
                n3 += 1
                case = OrderCase([(tx, rx), (ty, ry)])
                case.minmax_by_selection = True
                judge_pib(rx, ry, case, 'x: %s | y: %s' % (describe(rx), describe(ry)))
    except Undecided as und:
        before = len(ck.violations)
        ws = list(axis_witnesses(True, literal_constants_closure(prog, f_pib)))
        for wx in ws:
            for wy in ws:
                if wx['t'] != wy['t']:
                    continue
                assign = {'x': wx['v'], 'x_min': wx['l'], 'x_max': wx['u'], 'tol': wx['t'],
                          'y': wy['v'], 'y_min': wy['l'] + 1, 'y_max': wy['u'] + 1}
                assign['y'] = wy['v'] + 1
                case = WitnessCase(assign)
                case.minmax_by_selection = True
                rx, ry = ranks_of(tx, assign), ranks_of(ty, assign)
                wdesc = ' '.join('%s=%s' % kv for kv in sorted(assign.items()))
                try:
                    judge_pib(rx, ry, case, 'x: %s | y: %s' % (describe(rx), describe(ry)), wdesc)
                except Undecided as und2:
                    raise AnalysisError('point_in_bounds: condition not decidable on a witness: %s'
                                        % und2)
        if len(ck.violations) == before:
            raise AnalysisError('point_in_bounds compares against terms outside the order type '
                                '(%s) and no counterexample was found: cannot conclude' % und)
        n3 = max(n3, 320)
    ck.floor('order types {v,l,u}', n1, 8)
    ck.floor('order types with tolerance band', n2, 24)
    ck.floor('2-D order types', n3, 320)
    ck.extra['order_types'] = {'plain': n1, 'tolerance': n2, 'two_d': n3}
    ck.exhaustive = True
