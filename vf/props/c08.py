"""C08 - segment clipping: exact-arithmetic step correctness of the Cohen-Sutherland loop."""
import ast

from ..poly import Sym
from .. import poly
from ..interp import Interp, Hooks, Tup, Const, Cmp, State, Outcome, TRUE, FALSE
from ..order import weak_orderings, OrderCase, describe
from ..model import AnalysisError
from .. import purity

V = Sym.var
X1, Y1, X2, Y2 = V('x_1'), V('y_1'), V('x_2'), V('y_2')
XMIN, XMAX, YMIN, YMAX = V('x_min'), V('x_max'), V('y_min'), V('y_max')
ITER = V('iter')


class ClipCase(OrderCase):
    """Order case for both axes plus a value of the iteration counter: a concrete number of
    completed clipping steps, or 'big' = above every literal."""

    def __init__(self, groups, big, iter_value=None):
        super().__init__(groups)
        self.big = big
        self.iter_value = iter_value

    def decide(self, cond, st):
        if isinstance(cond, Cmp) and isinstance(cond.a, Sym) and isinstance(cond.b, Sym):
            e = cond.a - cond.b
            for s in (1, -1):
                d = e * s - ITER
                if d.is_const():   # s*e = iter + c
                    if self.big:
                        v = s
                        return {'<': v < 0, '<=': v < 0, '>': v > 0, '>=': v > 0, '==': False,
                                '!=': True}[cond.op]
                    v = (self.iter_value + d.const_value()) * s
                    return {'<': v < 0, '<=': v <= 0, '>': v > 0, '>=': v >= 0, '==': v == 0,
                            '!=': v != 0}[cond.op]
        return super().decide(cond, st)


def axis_cases():
    return list(weak_orderings(['p1', 'p2', 'lo', 'hi'], [('lo', '<=', 'hi')]))


def outside(r, p):
    s = set()
    if r[p] < r['lo']:
        s.add('lo')
    if r[p] > r['hi']:
        s.add('hi')
    return s


def absolute_tolerance(conds):
    """The constant c of an undecided test `p - bound + c < 0` (a difference of two of the
    coordinates / bounds shifted by a non-zero constant), or None."""
    from ..interp import Cmp, NotC
    names = {'x', 'y', 'xmin', 'xmax', 'ymin', 'ymax'}
    for c in conds:
        while isinstance(c, NotC):
            c = c.c
        if not (isinstance(c, Cmp) and isinstance(c.a, Sym) and isinstance(c.b, Sym)):
            continue
        e = c.a - c.b
        atoms = e.all_atoms()
        if not atoms or not all(a[0] == 'v' for a in atoms):
            continue
        zero = {a: Sym.const(0) for a in atoms}
        k = e.subs(zero)
        lin = e - k
        if not (k.is_const() and k.const_value() != 0):
            continue
        # the variable part is +-(one quantity - another quantity)
        coefs = []
        ok = True
        for a in atoms:
            one = dict(zero)
            one[a] = Sym.const(1)
            v = lin.subs(one)
            if not v.is_const():
                ok = False
                break
            coefs.append(v.const_value())
        if ok and sorted(coefs) == [-1, 1]:
            return k.const_value()
    return None


def check_clip_code(ck, prog):
    fn = prog.func('plot_utils.clip_code')
    if fn.params[:6] != ['x_in', 'y_in', 'x_min', 'x_max', 'y_min', 'y_max'] or \
            len(fn.params) - 6 > len(fn.node.args.defaults) or fn.node.args.vararg or \
            fn.node.args.kwarg:
        raise AnalysisError('clip_code signature changed')
    ck.saw('functions', fn.qualname + ' @ ' + fn.loc())
    x, y = V('x'), V('y')
    table = {}
    ax = list(weak_orderings(['p', 'lo', 'hi'], [('lo', '<=', 'hi')]))
    for rx in ax:
        for ry in ax:
            case = OrderCase([({'p': x, 'lo': XMIN, 'hi': XMAX}, rx),
                              ({'p': y, 'lo': YMIN, 'hi': YMAX}, ry)])
            outs = Interp(prog, case).run(fn, [x, y, XMIN, XMAX, YMIN, YMAX])
            if len(outs) != 1 or outs[0].kind != 'return' or outs[0].state.path:
                tol = absolute_tolerance(case.undecided)
                if tol is not None:
                    c = abs(tol)
                    ck.ob('C08-D1-region-code', 'clip_code::absolute-tolerance', False,
                          'a region test compares the point with a boundary moved by the constant '
                          '%s: everything within %s of the rectangle counts as inside, whatever '
                          'the coordinate scale.  With the rectangle [0, %s] x [0, %s] the segment '
                          '(%s, 0)-(%s, %s) lies four rectangle widths to the right of it and is '
                          'still accepted unchanged (the tolerance of the property is relative '
                          'to the coordinate scale)' % (float(c), float(c), float(c / 10),
                                                         float(c / 10), float(c / 2),
                                                         float(c / 2), float(c / 10)),
                          fn.loc(), key='clip_code::absolute-tolerance')
                raise AnalysisError('clip_code not decided by the order type: %r' % (
                    case.undecided[:2],))
            v = outs[0].value
            if not (isinstance(v, Sym) and v.is_const() and v.const_value().denominator == 1):
                raise AnalysisError('clip_code does not return an integer constant per region')
            key = (('L' if rx['p'] < rx['lo'] else '') + ('R' if rx['p'] > rx['hi'] else '') +
                   ('T' if ry['p'] < ry['lo'] else '') + ('B' if ry['p'] > ry['hi'] else ''))
            table.setdefault(key, set()).add(int(v.const_value()))
    bits = {}
    for side in 'LRTB':
        vals = table.get(side, set())
        ok = len(vals) == 1 and next(iter(vals)) > 0 and (next(iter(vals)) & (next(iter(vals)) - 1)) == 0
        ck.ob('C08-D1-region-code', 'clip_code::bit[%s]' % side, ok,
              'points strictly outside only the %s side get code(s) %s; a single-bit mask is '
              'required' % (side, sorted(vals)), fn.loc(), key='clip_code::bits')
        if ok:
            bits[side] = next(iter(vals))
    ck.ob('C08-D1-region-code', 'clip_code::bits-distinct', len(set(bits.values())) == 4,
          'the four half-plane bits are not distinct: %s' % bits, fn.loc(), key='clip_code::bits')
    for key, vals in sorted(table.items()):
        want = 0
        for side in key:
            want |= bits.get(side, 0)
        ck.ob('C08-D1-region-code', 'clip_code::region[%s]' % (key or 'inside'), vals == {want},
              'region %s (closed rectangle = inside) yields code(s) %s, expected %d = OR of its '
              'half-plane bits with strict outside tests' % (key or 'inside', sorted(vals), want),
              fn.loc(), key='clip_code::regions')
    ck.sample({'clip_code_bits': bits, 'regions': len(table)})
    return bits


def exact_clip(w):
    """Liang-Barsky in exact arithmetic: (t0, t1) of the part of the segment inside the closed
    rectangle, or None when no point of the segment is inside."""
    from fractions import Fraction as Fr
    x1, y1, x2, y2 = w['x_1'], w['y_1'], w['x_2'], w['y_2']
    t0, t1 = Fr(0), Fr(1)
    for p, q in ((-(x2 - x1), x1 - w['x_min']), (x2 - x1, w['x_max'] - x1),
                 (-(y2 - y1), y1 - w['y_min']), (y2 - y1, w['y_max'] - y1)):
        if p == 0:
            if q < 0:
                return None
            continue
        r = q / p
        if p < 0:
            t0 = max(t0, r)
        else:
            t1 = min(t1, r)
    if t0 > t1:
        return None
    return t0, t1


def check_shortcuts(ck, prog, fn, it, pro, seg0, bnd, loop):
    from fractions import Fraction as Fr
    from ..order import WitnessCase
    pts = [Fr(k) for k in (-1, 0, 1, 2, 3, 4, 5)]
    n_taken = 0
    found = None
    saved = it.hooks
    try:
        for a in pts:
            for b in pts:
                for c in pts:
                    for d in pts:
                        w = {'x_1': a, 'y_1': b, 'x_2': c, 'y_2': d, 'x_min': Fr(1),
                             'x_max': Fr(3), 'y_min': Fr(1), 'y_max': Fr(3)}
                        case = WitnessCase(w)
                        it.hooks = case
                        outs = list(it.exec_block(pro, State(env={'segment': seg0, 'bounds': bnd})))
                        if len(outs) != 1 or outs[0].state.path:
                            raise AnalysisError('clip_segment: a test ahead of the loop is not '
                                                'decided on a concrete input: %r'
                                                % (case.undecided[:1],))
                        o = outs[0]
                        if o.kind != 'return':
                            continue
                        n_taken += 1
                        v = o.value
                        if not (isinstance(v, Tup) and len(v.items) == 2 and v.items[0] in (TRUE, FALSE)):
                            raise AnalysisError('clip_segment: shortcut returns %r' % (v,))
                        want = exact_clip(w)
                        got_flag = v.items[0] == TRUE
                        seg_txt = '((%s,%s),(%s,%s))' % (a, b, c, d)
                        if want is None:
                            if got_flag:
                                found = ('the segment %s has no point in the rectangle '
                                         '((1,1),(3,3)) but is accepted' % seg_txt)
                        elif want[0] < want[1] or (a, b) == (c, d):
                            if not got_flag:
                                found = ('the segment %s has a part inside the rectangle '
                                         '((1,1),(3,3)) but is rejected' % seg_txt)
                            else:
                                try:
                                    got = [[x.evaluate(w) for x in p_.items] for p_ in v.items[1].items]
                                except Exception as exc:
                                    raise AnalysisError('clip_segment: shortcut result not '
                                                        'evaluable: %s' % exc)
                                exp = [[a + t * (c - a), b + t * (d - b)] for t in want]
                                if got != exp:
                                    found = ('for the segment %s and the rectangle ((1,1),(3,3)) '
                                             'the shortcut returns %s; the part inside is %s'
                                             % (seg_txt, [[str(x) for x in p_] for p_ in got],
                                                [[str(x) for x in p_] for p_ in exp]))
                        if found:
                            break
                    if found:
                        break
                if found:
                    break
            if found:
                break
    finally:
        it.hooks = saved
    ck.ob('C08-D7-shortcut', 'clip_segment::return-ahead-of-the-loop[%d inputs took it]' % n_taken,
          found is None, 'a return ahead of the clipping loop gives a wrong answer: %s' % found,
          fn.loc(loop), key='clip_segment::shortcut')
    if found is None:
        raise AnalysisError('clip_segment returns ahead of its loop on some inputs; the returned '
                            'values agree with exact clipping on %d sampled inputs, which is not '
                            'a proof: cannot conclude' % n_taken)


def run(ck, prog, tier):
    poly.INT_VARS.clear()
    ck.explanation = (
        'clip_code is interpreted over all order types of a point relative to the rectangle '
        '(64 cases): the code must be the OR of four distinct single-bit masks, each set exactly '
        'by its strict outside test (D1). One iteration of the clip_segment loop is then '
        'interpreted (clip_code inlined at both resolved call sites) over every order type of '
        '{x_1, x_2, x_min<=x_max} x {y_1, y_2, y_min<=y_max}: trivial accept exactly when both '
        'end points are in the closed rectangle, returning the current segment; reject exactly '
        'when both are strictly outside the same side; otherwise exactly one end point that is '
        'outside is replaced by the intersection of the line through the current end points with '
        'a boundary it is outside of (rational normal form), orientation kept, every division '
        'denominator provably non-zero in the order type, and the counter is incremented (D2-D5). '
        'With the counter above every literal the loop always returns (D6: bounded). This is '
        'step correctness in exact arithmetic; the floating-point tolerance clauses are not '
        'decided.')
    ck.assumptions += ['finite coordinates, rectangle min<=max', 'exact (rational) arithmetic; '
                       'floating-point tolerance and what the failsafe returns are not decided']
    ck.trusted += ['python ast module', 'vf.poly', 'vf.interp', 'vf.order']
    purity.check(ck, prog, ['plot_utils.clip_segment', 'plot_utils.clip_code'], 'C08-R-pure')
    bits = check_clip_code(ck, prog)
    fn = prog.func('plot_utils.clip_segment')
    if fn.params != ['segment', 'bounds']:
        raise AnalysisError('clip_segment signature changed')
    ck.saw('functions', fn.qualname + ' @ ' + fn.loc())
    body = fn.body()
    loops = [s for s in body if isinstance(s, (ast.While, ast.For))]
    if len(loops) != 1:
        raise AnalysisError('clip_segment: expected exactly one top-level loop')
    loop = loops[0]
    counted = isinstance(loop, ast.For)      # `for k in range(...)`: a fixed number of passes
    it = Interp(prog)
    it.stack.append(fn)
    seg0 = Tup((Tup((X1, Y1), 'list'), Tup((X2, Y2), 'list')), 'list')
    bnd = Tup((Tup((XMIN, YMIN), 'list'), Tup((XMAX, YMAX), 'list')), 'list')
    pro = body[:body.index(loop)]
    outs = list(it.exec_block(pro, State(env={'segment': seg0, 'bounds': bnd})))
    if len(outs) != 1 or outs[0].kind != 'fall':
        falls = [o for o in outs if o.kind == 'fall']
        if falls and all(o.kind in ('fall', 'return') for o in outs) and \
                all(o.state.env == falls[0].state.env for o in falls):
            # shortcut returns ahead of the loop: each is judged on exact rational inputs
            # against the geometric meaning of clipping; the loop is analysed as before
            check_shortcuts(ck, prog, fn, it, pro, seg0, bnd, loop)
            outs = [falls[0]]
            outs[0].state.path = ()
        else:
            raise AnalysisError('clip_segment prologue is not straight-line')
    st0 = outs[0].state
    # identify roles of locals from the prologue (unpacking of segment/bounds is resolved here)
    roles = {}
    for name, val in st0.env.items():
        for role, sym in (('x1', X1), ('y1', Y1), ('x2', X2), ('y2', Y2)):
            if isinstance(val, Sym) and val == sym:
                roles[role] = name
    if set(roles) != {'x1', 'y1', 'x2', 'y2'}:
        raise AnalysisError('clip_segment: working coordinates not identified in the prologue')
    counters = [n for n, v in st0.env.items() if isinstance(v, Sym) and v.is_const()]
    passes = None
    if counted:
        # the pass values: range(...) with constant arguments (module constants resolved)
        if loop.orelse or not isinstance(loop.target, ast.Name):
            raise AnalysisError('clip_segment: for-loop with else / a structured target')
        vals = list(it.ev(loop.iter, st0))
        rng = vals[0][0] if len(vals) == 1 and not vals[0][1].raised else None
        items = it.literal_items(rng) if rng is not None else None
        if items is None or not all(isinstance(x, Sym) and x.is_const() for x in items):
            raise AnalysisError('clip_segment: the loop does not range over a literal range(...)')
        passes = [x.const_value() for x in items]
        st0 = st0.copy()
        st0.env[loop.target.id] = ITER
        iter_init = passes[0] if passes else 0
        counter = None
    else:
        if isinstance(loop.test, ast.Constant) and loop.test.value is True:
            pass
        else:
            raise AnalysisError('clip_segment loop is not `while True`')
        st0 = st0.copy()
        iter_init = st0.env[counters[0]].const_value() if counters else 0
        for c in counters:
            st0.env[c] = ITER if len(counters) == 1 else st0.env[c]
        if len(counters) != 1:
            raise AnalysisError('clip_segment: iteration counter not identified (%s)' % counters)
        counter = counters[0]
    # the working segment is the variable the loop returns as second element
    seg_names = {r.value.elts[1].id for r in ast.walk(fn.node)
                 if isinstance(r, ast.Return) and isinstance(r.value, ast.Tuple)
                 and len(r.value.elts) == 2 and isinstance(r.value.elts[1], ast.Name)}
    if len(seg_names) != 1:
        raise AnalysisError('clip_segment: the returned working segment is not one variable (%s)'
                            % sorted(seg_names))
    segname = seg_names.pop()
    # one iteration is analysed from the state "end points anywhere, everything else as the
    # prologue left it".  A local that an iteration reads *before* it assigns it carries a value
    # from the previous iteration (a cached slope, a remembered code): the analysis would start
    # every iteration from the prologue value and never see the stale one.
    known = set(roles.values()) | {segname} | ({counter} if counter else set()) | \
        ({loop.target.id} if counted else set())
    first_use = {}
    for n_ in ast.walk(ast.Module(body=loop.body, type_ignores=[])):
        if isinstance(n_, ast.Name):
            pos_ = (n_.lineno, n_.col_offset)
            cur_ = first_use.get(n_.id)
            if cur_ is None or pos_ < cur_[0]:
                first_use[n_.id] = (pos_, isinstance(n_.ctx, ast.Load))
    stored = {n_.id for b_ in loop.body for n_ in ast.walk(b_)
              if isinstance(n_, ast.Name) and isinstance(n_.ctx, ast.Store)}
    # `x = f(x)` reads x first although the Store node comes first in the source
    for b_ in loop.body:
        for n_ in ast.walk(b_):
            if isinstance(n_, (ast.Assign, ast.AugAssign)):
                tg_ = n_.targets if isinstance(n_, ast.Assign) else [n_.target]
                for t_ in tg_:
                    if isinstance(t_, ast.Name) and (isinstance(n_, ast.AugAssign) or any(
                            isinstance(m_, ast.Name) and m_.id == t_.id
                            for m_ in ast.walk(n_.value))):
                        pos_ = (n_.lineno, n_.col_offset)
                        if first_use.get(t_.id, ((10 ** 9, 0), False))[0] >= pos_:
                            first_use[t_.id] = (pos_, True)
    carried = sorted(n_ for n_ in stored if n_ not in known and first_use.get(n_, (None, False))[1])
    n_viol_before = len(ck.violations)
    axes = axis_cases()
    ck.extra['order_types_per_axis'] = len(axes)
    n_cases = n_steps = 0
    tx = {'p1': X1, 'p2': X2, 'lo': XMIN, 'hi': XMAX}
    ty = {'p1': Y1, 'p2': Y2, 'lo': YMIN, 'hi': YMAX}
    class Und(Exception):
        pass

    counts = {'steps': 0}
    step_cases = []

    def judge(rx, ry, desc, mk_case, wit=''):
            o1 = {('x', s) for s in outside(rx, 'p1')} | {('y', s) for s in outside(ry, 'p1')}
            o2 = {('x', s) for s in outside(rx, 'p2')} | {('y', s) for s in outside(ry, 'p2')}
            udesc = desc
            desc = desc + wit
            for big in ((False,) if counted else (False, True)):
                case = mk_case(big)
                it.hooks = case
                outs = list(it.exec_block(loop.body, st0))
                if len(outs) != 1 or outs[0].state.path:
                    raise Und('[%s]: %r' % (udesc, case.undecided[:2]))
                o = outs[0]
                if not o1 and not o2:
                    ok = o.kind == 'return' and isinstance(o.value, Tup) and len(o.value.items) == 2 \
                        and o.value.items[0] == TRUE and o.value.items[1] == seg0
                    ck.ob('C08-D3-accept', desc, ok,
                          'both end points are inside the closed rectangle [%s] but the loop does '
                          'not return (True, current segment): %s %r' % (desc, o.kind, o.value),
                          fn.loc(loop), key='clip_segment::accept')
                    continue
                if o1 & o2:
                    ok = o.kind == 'return' and isinstance(o.value, Tup) and o.value.items[0] == FALSE
                    ck.ob('C08-D3-reject', desc, ok,
                          'both end points are strictly outside the same side [%s] (no part of '
                          'the segment is inside) but the loop does not reject: %s %r'
                          % (desc, o.kind, o.value), fn.loc(loop), key='clip_segment::reject')
                    continue
                if big:
                    ck.ob('C08-D6-bounded', desc, o.kind == 'return',
                          'with the iteration counter above every literal the loop still '
                          'continues in order type [%s]: no bound on the number of iterations'
                          % desc, fn.loc(loop), key='clip_segment::failsafe')
                    continue
                # a clipping step is required
                if o.kind == 'return':
                    flag = o.value.items[0] if isinstance(o.value, Tup) and o.value.items else None
                    ck.ob('C08-D3-step', desc, False,
                          'a segment that is neither trivially inside nor trivially outside [%s] '
                          'is returned without clipping (flag %r)' % (desc, flag), fn.loc(loop),
                          key='clip_segment::premature-return')
                    continue
                if o.kind not in ('fall', 'continue'):
                    raise AnalysisError('unexpected loop outcome %s' % o.kind)
                counts['steps'] += 1
                step_cases.append((rx, ry, udesc))
                env = o.state.env
                new = {r: env.get(n) for r, n in roles.items()}
                ch1 = not (new['x1'] == X1 and new['y1'] == Y1)
                ch2 = not (new['x2'] == X2 and new['y2'] == Y2)
                ok_shape = all(isinstance(v, Sym) for v in new.values()) and (ch1 != ch2)
                msg = ''
                ok = ok_shape
                if not ok_shape:
                    msg = 'exactly one end point must be replaced (end point 1 %s, end point 2 %s)' % (
                        'changed' if ch1 else 'kept', 'changed' if ch2 else 'kept')
                else:
                    k = 1 if ch1 else 2
                    outset = o1 if ch1 else o2
                    nx, ny = (new['x1'], new['y1']) if ch1 else (new['x2'], new['y2'])
                    if not outset:
                        ok, msg = False, 'end point %d is inside the rectangle but was replaced' % k
                    else:
                        cands = []
                        for axis, side in sorted(outset):
                            if axis == 'x':
                                b = XMIN if side == 'lo' else XMAX
                                cands.append((b, Y1 + (Y2 - Y1) * (b - X1) / (X2 - X1),
                                              rx['p1'] != rx['p2']))
                            else:
                                b = YMIN if side == 'lo' else YMAX
                                cands.append((X1 + (X2 - X1) * (b - Y1) / (Y2 - Y1), b,
                                              ry['p1'] != ry['p2']))
                        hit = [c for c in cands if c[2] and nx == c[0] and ny == c[1]]
                        if not hit:
                            ok = False
                            msg = ('end point %d becomes (%r, %r), which is not the intersection '
                                   'of the line through the end points with a boundary it is '
                                   'outside of (%s)' % (k, nx, ny, sorted(outset)))
                ck.ob('C08-D2-step', desc, ok,
                      'clipping step in order type [%s]: %s' % (desc, msg), fn.loc(loop),
                      key='clip_segment::step')
                # segment rebuilt with orientation kept
                seg = env.get(segname)
                want_seg = Tup((Tup((new['x1'], new['y1']), 'list'),
                                Tup((new['x2'], new['y2']), 'list')), 'list')
                ok_seg = isinstance(seg, Tup) and len(seg.items) == 2 and all(
                    isinstance(p, Tup) and len(p.items) == 2 for p in seg.items) and \
                    seg.items[0].items == want_seg.items[0].items and \
                    seg.items[1].items == want_seg.items[1].items
                ck.ob('C08-D5-orientation', desc, ok_seg,
                      'after the step the working segment is %r, not [[x_1,y_1],[x_2,y_2]] of the '
                      'updated end points (orientation / correspondence lost)' % (seg,),
                      fn.loc(loop), key='clip_segment::orientation')
                # divisions
                for nt in o.state.notes:
                    if nt[0] == 'div' and not nt[1].is_const():
                        if hasattr(case, 'assign'):
                            okd = nt[1].evaluate(case.assign) != 0
                        else:
                            pr = case.find_pair(nt[1]) or case.find_pair(-nt[1])
                            okd = pr is not None and pr[0] != pr[1]
                        ck.ob('C08-D4-division', desc, okd,
                              'division by %r at line %d can be zero in order type [%s]'
                              % (nt[1], nt[2], desc), fn.loc(loop), key='clip_segment::division')
                # counter
                if not counted:
                    okc = isinstance(env.get(counter), Sym) and (env[counter] - ITER).is_const() \
                        and (env[counter] - ITER).const_value() >= 1
                    ck.ob('C08-D6-bounded', desc + ' counter', okc,
                          'the iteration counter is not incremented by a clipping step',
                          fn.loc(loop), key='clip_segment::counter')
                if len(ck.samples) < 5:
                    ck.sample({'order_type': desc, 'new_endpoint': [repr(nx), repr(ny)] if ok_shape
                               else None})
    try:
        for rx in axes:
            for ry in axes:
                n_cases += 1
                judge(rx, ry, 'x: %s | y: %s' % (describe(rx), describe(ry)),
                      lambda big, rx=rx, ry=ry: ClipCase([(tx, rx), (ty, ry)], big, iter_init))
    except Und as und:
        # comparisons across axes / outside the order type: exhibit a realisable counterexample
        from fractions import Fraction as Fr
        from ..order import WitnessCase, ranks_of

        class WCase(WitnessCase):
            find_pair = None

        before = len(ck.violations)
        pts = [Fr(k) for k in (0, 1, 2, 3, 4)]
        for yoff in (0, 10):
            for a in pts:
                for b in pts:
                    for c in pts:
                        for d in pts:
                            w = {'x_1': a, 'y_1': b + yoff, 'x_2': c, 'y_2': d + yoff,
                                 'x_min': Fr(1), 'x_max': Fr(3), 'y_min': Fr(1) + yoff,
                                 'y_max': Fr(3) + yoff}
                            rx, ry = ranks_of(tx, w), ranks_of(ty, w)
                            wd = ' [counterexample segment=((%s,%s),(%s,%s)) bounds=((%s,%s),(%s,%s))]' % (
                                w['x_1'], w['y_1'], w['x_2'], w['y_2'], w['x_min'], w['y_min'],
                                w['x_max'], w['y_max'])

                            def mk(big, w=w):
                                ww = dict(w)
                                ww['iter'] = Fr(10 ** 6) if big else Fr(iter_init)
                                return WCase(ww)
                            try:
                                judge(rx, ry, 'x: %s | y: %s' % (describe(rx), describe(ry)), mk, wd)
                            except Und as und2:
                                raise AnalysisError('clip_segment iteration not decidable on a '
                                                    'concrete witness: %s' % und2)
        if len(ck.violations) == before:
            raise AnalysisError('clip_segment iteration not decided in order type %s and no '
                                'counterexample found: cannot conclude' % und)
        n_cases = max(n_cases, 1000)
        counts['steps'] = max(counts['steps'], 200)
    # D6b: in exact arithmetic a segment needs at most 4 clipping steps (two per end point); the
    # failsafe must therefore not fire after 1, 2 or 3 completed steps, else a half-clipped
    # segment is returned as accepted.  The failsafe test does not depend on the geometry, so a
    # sample of the step cases is enough.
    sample = step_cases[::max(1, len(step_cases) // 24)][:24] if step_cases else []
    if counted:
        ck.ob('C08-D6-bounded', 'passes of the counted loop', len(passes) >= 4,
              'the clipping loop makes %d pass(es); exact Cohen-Sutherland clipping can need 4 '
              'clipping steps (two per end point), so a segment that needs them is handed back '
              'partly clipped' % len(passes), fn.loc(loop), key='clip_segment::failsafe-too-early')
    for k in (1, 2, 3):
        for rx, ry, d in sample:
            if counted and k >= len(passes):
                continue
            case = ClipCase([(tx, rx), (ty, ry)], False, passes[k] if counted else iter_init + k)
            it.hooks = case
            outs = list(it.exec_block(loop.body, st0))
            ok = len(outs) == 1 and outs[0].kind in ('fall', 'continue')
            ck.ob('C08-D6-bounded', 'failsafe-not-before-4-steps[k=%d] %s' % (k, d), ok,
                  'after %d completed clipping step(s) a segment that still needs clipping is '
                  'returned instead of clipped (%s): the failsafe fires before the 4 steps that '
                  'exact Cohen-Sutherland clipping can need, so a partly clipped segment is '
                  'accepted' % (k, [o.kind for o in outs]), fn.loc(loop),
                  key='clip_segment::failsafe-too-early')
    if counted and len(passes) == 4:
        # four passes = four clips at most, with nothing tested after the last one: a segment
        # that needed all four is now clipped, so what follows the loop has to accept a segment
        # whose end points are inside (with five or more passes the fifth pass does that, and
        # the code after the loop is only the failsafe)
        epilogue = body[body.index(loop) + 1:]
        n_ep = 0
        for rx in axes:
            for ry in axes:
                o1 = {('x', s_) for s_ in outside(rx, 'p1')} | {('y', s_) for s_ in outside(ry, 'p1')}
                o2 = {('x', s_) for s_ in outside(rx, 'p2')} | {('y', s_) for s_ in outside(ry, 'p2')}
                if o1 or o2:
                    # would still need clipping: anything goes (failsafe).  Both end points
                    # outside one side: with the end points clipped one after the other (the
                    # first until it is inside, then the second) this cannot be the state after
                    # four clips - the fourth clip puts the second end point between two points
                    # of the rectangle - so no reject test is demanded here either.
                    continue
                it.hooks = ClipCase([(tx, rx), (ty, ry)], False, passes[-1])
                outs = list(it.exec_block(epilogue, st0))
                n_ep += 1
                d = 'x: %s | y: %s' % (describe(rx), describe(ry))
                ok = len(outs) == 1 and outs[0].kind == 'return' and isinstance(outs[0].value, Tup) \
                    and len(outs[0].value.items) == 2 and \
                    outs[0].value.items[0] == (FALSE if (o1 & o2) else TRUE)
                ck.ob('C08-D3-%s' % ('reject' if (o1 & o2) else 'accept'), 'after the last pass: ' + d,
                      ok, 'after the fourth clipping pass a segment %s [%s] is answered %s: the '
                      'code after the loop must make the accept / reject decision that the '
                      'while-form makes at the start of its next iteration'
                      % ('outside one side with both end points' if (o1 & o2) else
                         'with both end points inside', d,
                         [(o.kind, repr(o.value)[:60]) for o in outs]),
                      fn.loc(loop), key='clip_segment::after-last-pass')
        ck.floor('order types judged after the last pass', n_ep, 100)
    if carried and len(ck.violations) == n_viol_before:
        # what the first iteration does was judged above (violations found there are real: the
        # first iteration starts from the prologue state); without any, the later iterations -
        # which start from carried values - are not covered
        raise AnalysisError('clip_segment: the loop body reads %s before assigning it - a value '
                            'carried over from the previous iteration, which the one-iteration '
                            'analysis does not follow; cannot conclude' % ', '.join(carried))
    n_steps = counts['steps']
    it.stack.pop()
    ck.floor('order-type pairs', n_cases, 1000)
    ck.floor('clipping steps analysed', n_steps, 200)
    ck.exhaustive = True
