"""C12 - length parsing and the four unit tables: extracted, compared with SVG and each other."""
from fractions import Fraction

from ..poly import Sym
from .. import poly
from ..interp import (Interp, Hooks, Opaque, Str, Tup, Const, Cmp, NotC, Truthy, IsNone, FuncRef, In,
                      ExtRef, NONE, Sym as _Sym)
from ..model import AnalysisError
from ..loops import UnrollMixin
from .. import purity

F = Fraction
# SVG 1.1 section 7.10 / CSS absolute units at 96 px per inch: factor unit -> px
SPEC = {'': F(1), 'px': F(1), 'in': F(96), 'mm': F(96) / F('25.4'), 'cm': F(96) / F('2.54'),
        'Q': F(96) / F('101.6'), 'q': F(96) / F('101.6'), 'pc': F(16), 'pt': F(96, 72)}
PARSER_UNITS = ['px', 'in', 'mm', 'cm', 'pt', 'pc', 'Q', '%']
ALL_UNITS = ['', 'px', 'in', 'mm', 'cm', 'pt', 'pc', 'Q', 'q', '%', 'em']


class ConvHooks(Hooks):
    """Converter under one abstract case: the parser is replaced by its summary (value, unit)."""

    def __init__(self, parse_result, attr_present=True):
        self.parse_result = parse_result
        self.attr_present = attr_present

    def call(self, interp, target, args, kwargs, st, node):
        if isinstance(target, FuncRef) and target.qual == 'plot_utils.parseLengthWithUnits':
            return [(self.parse_result, st)]
        return None

    def decide(self, cond, st):
        if isinstance(cond, Truthy) and isinstance(cond.v, Opaque) and cond.v.label == 'm:get':
            return self.attr_present
        return None


def single(outs, what):
    rets = [o for o in outs if o.kind == 'return']
    if len(rets) != len(outs):
        return None, 'raises %s' % [o.value for o in outs if o.kind == 'raise']
    return rets, None


def converter_table(ck, prog):
    v = Sym.var('v')
    f_uu = prog.func('plot_utils.unitsToUserUnits')
    f_back = prog.func('plot_utils.userUnitToUnits')
    f_len = prog.func('plot_utils.getLength')
    f_inch = prog.func('plot_utils.getLengthInches')
    if f_uu.params != ['input_string', 'percent_ref'] or f_back.params != ['distance_uu', 'unit_string'] \
            or f_len.params != ['altself', 'name', 'default'] or f_inch.params != ['altself', 'name']:
        raise AnalysisError('public parameter order of a unit converter changed')
    for f in (f_uu, f_back, f_len, f_inch):
        ck.saw('functions', f.qualname + ' @ ' + f.loc())
    px = prog.module('plot_utils').globals.get('PX_PER_INCH')
    import ast
    ok_px = isinstance(px, ast.Constant) and Fraction(repr(px.value)) == 96
    ck.ob('C12-D1-px-per-inch', 'plot_utils::PX_PER_INCH', ok_px,
          'PX_PER_INCH is %s, SVG/CSS define 96 px per inch' % (ast.unparse(px) if px else None),
          'plotink/plot_utils.py:%d' % (px.lineno if px else 0))
    altself = Opaque('altself', (), 'obj')
    ref, dflt = Sym.var('percent_ref'), Sym.var('default')
    tables = {'unitsToUserUnits': {}, 'userUnitToUnits': {}, 'getLength': {}, 'getLengthInches': {}}

    def record(fname, unit, outs, fn, expect, what):
        rets, err = single(outs, fname)
        inst = '%s[%r]' % (fname, unit)
        if err:
            ck.ob('C12-D1-table', inst, False, '%s(%s) %s' % (fname, what, err), fn.loc(),
                  key='%s::%r' % (fname, unit))
            return
        got = [o.value for o in rets]
        tables[fname][unit] = got
        ok = len(got) == len(expect) and all(
            any(_same(g, e) for g in got) for e in expect) and all(
            any(_same(g, e) for e in expect) for g in got)
        ck.ob('C12-D1-table', inst, ok,
              '%s for unit %r gives %s; SVG table requires %s' % (fname, unit, got, expect),
              fn.loc(), key='%s::%r' % (fname, unit))

    for unit in ALL_UNITS:
        f = SPEC.get(unit)
        pr = Tup((v, Str.lit(unit)))
        # unitsToUserUnits
        outs = Interp(prog, ConvHooks(pr)).run(f_uu, [Opaque('input', (), 'str'), ref])
        if unit == '%':
            # a supplied reference is a number; every path must give value * reference / 100 -
            # also the path on which the reference is zero (it is then substituted: a test of the
            # reference's truthiness treats 0 as "no reference" and answers value / 100)
            exp = [v * ref / 100]
            zero_ref = [o for o in outs if o.kind == 'return' and any(
                isinstance(c, Cmp) and c.a == ref and c.b == _Sym.const(0) and
                ((c.op == '!=' and not t) or (c.op == '==' and t)) for c, t in o.state.path)]
            for o in zero_ref:
                ok0 = isinstance(o.value, _Sym) and o.value == _Sym.const(0)
                ck.ob('C12-D1-table', "unitsToUserUnits['%', reference 0]", ok0,
                      'unitsToUserUnits for a percentage with the supplied reference 0 gives %r; '
                      'value * reference / 100 is 0 (getLength, the attribute reader, answers 0 '
                      'for the same text and reference: the two disagree)' % (o.value,),
                      f_uu.loc(), key="unitsToUserUnits::'%'-zero-reference")
            outs = [o for o in outs if o not in zero_ref]
        else:
            exp = [v * f] if f is not None else [NONE]
        record('unitsToUserUnits', unit, outs, f_uu, exp, 'value with unit %r' % unit)
        if unit == '%':
            outs = Interp(prog, ConvHooks(pr)).run(f_uu, [Opaque('input', (), 'str')])
            record('unitsToUserUnits', '%(no ref)', outs, f_uu, [v / 100], 'percent, no reference')
        # getLength (attribute present)
        outs = Interp(prog, ConvHooks(pr, True)).run(f_len, [altself, Opaque('name', (), 'str'),
                                                              dflt])
        exp = [dflt * v / 100] if unit == '%' else ([v * f] if f is not None else [NONE])
        record('getLength', unit, outs, f_len, exp, 'attribute with unit %r' % unit)
        # getLengthInches
        outs = Interp(prog, ConvHooks(pr, True)).run(f_inch, [altself, Opaque('name', (), 'str')])
        exp = [NONE] if (unit == '%' or f is None) else [v * f / 96]
        record('getLengthInches', unit, outs, f_inch, exp, 'attribute with unit %r' % unit)
        # userUnitToUnits
        outs = Interp(prog, ConvHooks(pr)).run(f_back, [v, Str.lit(unit)])
        exp = [v * 100] if unit == '%' else ([v / f] if f is not None else [NONE])
        record('userUnitToUnits', unit, outs, f_back, exp, 'unit %r' % unit)
        # round trip as normal forms: back(to(v)) == v
        if f is not None and unit in tables['unitsToUserUnits'] and unit in tables['userUnitToUnits']:
            to = tables['unitsToUserUnits'][unit]
            back = tables['userUnitToUnits'][unit]
            ok = len(to) == 1 and len(back) == 1 and isinstance(to[0], _Sym) and \
                isinstance(back[0], _Sym) and back[0].subs({('v', 'v'): to[0]}) == v
            ck.ob('C12-D1-roundtrip', 'roundtrip[%r]' % unit, ok,
                  'userUnitToUnits(unitsToUserUnits(v)) is not the identity for unit %r as a '
                  'normal form' % unit, f_back.loc(), key='roundtrip::%r' % unit)
        ck.sample({'unit': unit, 'to_px': repr(tables['unitsToUserUnits'].get(unit)),
                   'back': repr(tables['userUnitToUnits'].get(unit))})
    # missing attribute / unparsable value (D4: readers propagate None)
    outs = Interp(prog, ConvHooks(Tup((NONE, NONE)))).run(f_uu, [Opaque('input', (), 'str'), ref])
    record('unitsToUserUnits', '<unparsable>', outs, f_uu, [NONE], 'unparsable input')
    outs = Interp(prog, ConvHooks(Tup((NONE, NONE)), True)).run(
        f_len, [altself, Opaque('name', (), 'str'), dflt])
    record('getLength', '<unparsable>', outs, f_len, [NONE], 'unparsable attribute')
    outs = Interp(prog, ConvHooks(Tup((NONE, NONE)), True)).run(
        f_inch, [altself, Opaque('name', (), 'str')])
    record('getLengthInches', '<unparsable>', outs, f_inch, [NONE], 'unparsable attribute')
    outs = Interp(prog, ConvHooks(Tup((v, Str.lit('px'))), False)).run(
        f_len, [altself, Opaque('name', (), 'str'), dflt])
    record('getLength', '<absent>', outs, f_len, [dflt], 'absent attribute')
    outs = Interp(prog, ConvHooks(Tup((v, Str.lit('px'))), False)).run(
        f_inch, [altself, Opaque('name', (), 'str')])
    record('getLengthInches', '<absent>', outs, f_inch, [NONE], 'absent attribute')
    outs = Interp(prog, ConvHooks(None)).run(f_back, [NONE, Str.lit('mm')])
    record('userUnitToUnits', '<None value>', outs, f_back, [NONE], 'None value')
    return tables


def _same(a, b):
    if isinstance(a, _Sym) and isinstance(b, _Sym):
        return a == b
    return a == b and type(a) is type(b)


class ParserHooks(UnrollMixin, Hooks):
    unroll = True            # a loop over the (literal) suffix table is unrolled exactly

    def loop(self, interp, node, st):
        return self.unroll_loop(interp, node, st)

    def may_raise(self, target, args, st, node):
        if isinstance(target, ExtRef) and target.dotted == 'builtins.float' and args \
                and not isinstance(args[0], _Sym):
            return ['ValueError']
        return ()


def parser_table(ck, prog):
    fn = prog.func('plot_utils.parseLengthWithUnits')
    ck.saw('functions', fn.qualname + ' @ ' + fn.loc())
    if len(fn.params) != 1:
        raise AnalysisError('parseLengthWithUnits signature changed')
    # None input
    outs = Interp(prog, ParserHooks()).run(fn, [NONE])
    ok = len(outs) == 1 and outs[0].kind == 'return' and outs[0].value == Tup((NONE, NONE))
    ck.ob('C12-D3-parser', 'parser::None-input', ok,
          'parseLengthWithUnits(None) must return (None, None); got %s' % [
              (o.kind, o.value) for o in outs], fn.loc())
    inp = Opaque('param:string', (), 'str')
    stripped = Opaque('m:strip', (inp,), 'str')
    outs = Interp(prog, ParserHooks()).run(fn, [inp])
    rows = []
    n_fail_paths = 0
    order = []  # suffix literals in test order (from the longest path)
    for o in outs:
        tests = []
        group_items = {}      # slice term -> the literals it was found to be one of
        for c, t in o.state.path:
            while isinstance(c, NotC):
                c, t = c.c, not t
            if isinstance(c, In) and isinstance(c.container, Tup) and c.container.items and all(
                    isinstance(x, Str) and x.is_lit() for x in c.container.items) and \
                    isinstance(c.item, Opaque) and c.item.label == 'slice':
                # s[-k:] in ('Q', 'q'): one suffix test for the whole group
                base, lo, hi, step = c.item.args
                lits = tuple(x.text() for x in c.container.items)
                if base == stripped and hi == NONE and step == NONE and isinstance(lo, _Sym) and \
                        lo.is_const() and lo.const_value() < 0:
                    tests.append((lits, int(-lo.const_value()), t))
                    if t:
                        group_items[c.item] = lits
                    continue
            if isinstance(c, Cmp) and c.op in ('==', '!='):
                # s.removesuffix(lit) != s  <=>  s ends with lit (lit non-empty)
                rs = None
                for x_, y_ in ((c.a, c.b), (c.b, c.a)):
                    if isinstance(x_, Opaque) and x_.label == 'm:removesuffix' and \
                            len(x_.args) == 2 and x_.args[0] == y_ == stripped and \
                            isinstance(x_.args[1], Str) and x_.args[1].is_lit() and x_.args[1].text():
                        rs = x_.args[1].text()
                if rs is not None:
                    tests.append((rs, len(rs), t if c.op == '!=' else not t))
                    continue
            if not (isinstance(c, Cmp) and c.op in ('==', '!=')):
                # a guard that is not a suffix test (e.g. a fast path): the path is still judged
                # by what it returns / raises
                ck.saw('parser_other_guards', repr(c)[:200])
                continue
            if c.op == '!=':
                t = not t
            a, b = c.a, c.b
            if isinstance(a, Str):
                a, b = b, a
            if not (isinstance(b, Str) and b.is_lit() and isinstance(a, Opaque) and a.label == 'slice'):
                raise AnalysisError('parser: branch does not compare a slice with a literal: %r'
                                    % (c,))
            base, lo, hi, step = a.args
            if base != stripped:
                ck.ob('C12-D3-parser', 'parser::strip-first', False,
                      'a suffix test is applied to %r, not to the stripped input (surrounding '
                      'whitespace is part of the property)' % (base,), fn.loc())
                stripped = base
            if not (hi == NONE and step == NONE and isinstance(lo, _Sym) and lo.is_const()
                    and lo.const_value() < 0):
                raise AnalysisError('parser: suffix test is not of the form s[-k:]: %r' % (a,))
            tests.append((b.text(), int(-lo.const_value()), t))
        if o.kind == 'raise':
            ck.ob('C12-D3-parser', 'parser::no-exception', False,
                  'a path of parseLengthWithUnits raises %s (must return (None, None))' % o.value,
                  fn.loc())
            continue
        if len(tests) > len(order):
            order = [l for x in tests for l in (x[0] if isinstance(x[0], tuple) else (x[0],))]
        first = lambda l: l[0] if isinstance(l, tuple) else l
        matched = [x for x in tests if x[2]]
        if any(not (first(a[0]).endswith(first(b[0])) or first(b[0]).endswith(first(a[0])))
               for i, a in enumerate(matched) for b in matched[i + 1:]):
            # two different suffixes cannot both end the same string: an infeasible path (tests
            # evaluated after the first match, e.g. by a comprehension over the suffix table)
            continue
        val = o.value
        if val == Tup((NONE, NONE)):
            n_fail_paths += 1
            if not any(n[0] == 'caught' and 'ValueError' in n[1] for n in o.state.notes):
                ck.ob('C12-D3-parser', 'parser::none-only-on-ValueError', False,
                      'returns (None, None) on a path that is not the ValueError handler', fn.loc())
            continue
        if not (isinstance(val, Tup) and len(val.items) == 2):
            raise AnalysisError('parser: unexpected return %r' % (val,))
        num, unit = val.items
        unit_is_suffix = unit in group_items      # units = s[-k:] after s[-k:] in (...) held
        if not unit_is_suffix and not (isinstance(unit, Str) and unit.is_lit()):
            raise AnalysisError('parser: unit is not a literal on some path')
        if not (isinstance(num, Opaque) and num.label == 'float' and len(num.args) == 1):
            ck.ob('C12-D3-parser', 'parser::float-conversion', False,
                  'numeric part is not produced by float(): %r' % (num,), fn.loc())
            continue
        rest = num.args[0]
        if matched:
            lit, w_test, _ = matched[0] if len(matched) > 1 else matched[-1]
            if isinstance(rest, Opaque) and rest.label == 'slice' and rest.args[0] == stripped \
                    and rest.args[1] == NONE and isinstance(rest.args[2], _Sym) \
                    and rest.args[2].is_const() and rest.args[3] == NONE:
                w_strip = int(-rest.args[2].const_value())
            elif isinstance(rest, Opaque) and rest.label == 'm:removesuffix' and \
                    len(rest.args) == 2 and rest.args[0] == stripped and \
                    isinstance(rest.args[1], Str) and rest.args[1].is_lit():
                # on this path the suffix test held: the suffix is really removed
                w_strip = len(rest.args[1].text()) if any(
                    first(x[0]) == rest.args[1].text() and x[2] for x in tests) else 0
            elif rest == stripped:
                w_strip = 0
            elif isinstance(rest, Opaque) and rest.label == 'slice' and rest.args[0] == inp \
                    and rest.args[1] == NONE and isinstance(rest.args[2], _Sym) \
                    and rest.args[2].is_const() and rest.args[2].const_value() < 0 \
                    and rest.args[3] == NONE and stripped != inp:
                one = first(lit)
                k = int(-rest.args[2].const_value())
                text = '10' + one + ' '
                ck.ob('C12-D3-parser', 'parser::suffix-removed-from-stripped-text', False,
                      'the suffix %r is recognised on the stripped text but its %d characters are '
                      'cut from the unstripped argument: for %r the numeric part becomes %r '
                      '(the property includes surrounding whitespace)'
                      % (one, k, text, text[:-k]), fn.loc(),
                      key='parseLengthWithUnits::slice-of-unstripped')
                continue
            else:
                raise AnalysisError('parser: numeric part is not s[:-k]: %r' % (rest,))
            for one in (lit if isinstance(lit, tuple) else (lit,)):
                rows.append((one, w_test, w_strip, one if unit_is_suffix else unit.text()))
        else:
            if unit_is_suffix:
                raise AnalysisError('parser: unit is not a literal on some path')
            rows.append((None, 0, 0 if rest == stripped else -1, unit.text()))
    canon = {'q': 'Q'}
    seen = set()
    for lit, w_test, w_strip, unit in rows:
        if lit is None:
            ck.ob('C12-D3-parser', 'parser::suffix:<none>', unit in ('px', '') and w_strip == 0,
                  'a number without suffix yields unit %r (expected px) / strips %d chars'
                  % (unit, w_strip), fn.loc())
            continue
        seen.add(lit)
        ok = w_test == len(lit) == w_strip and unit == canon.get(lit, lit)
        ck.ob('C12-D3-parser', 'parser::suffix:%r' % lit, ok,
              'suffix %r: tested on the last %d chars, strips %d chars, yields unit %r; all three '
              'widths must equal %d and the unit must be %r' % (
                  lit, w_test, w_strip, unit, len(lit), canon.get(lit, lit)), fn.loc())
        ck.sample({'suffix': lit, 'tested_width': w_test, 'stripped_width': w_strip, 'unit': unit})
    for u in ['px', 'in', 'mm', 'cm', 'pt', 'pc', 'Q', 'q', '%']:
        if u not in seen:
            ck.ob('C12-D3-parser', 'parser::suffix:%r' % u, False,
                  'supported unit suffix %r is not recognised by the parser' % u, fn.loc())
    for i, a in enumerate(order):
        for b in order[i + 1:]:
            if b != a and b.endswith(a):
                ck.ob('C12-D3-parser', 'parser::order:%r-before-%r' % (a, b), False,
                      'suffix %r is tested before the longer suffix %r that ends with it' % (a, b),
                      fn.loc())
    ck.ob('C12-D3-parser', 'parser::ValueError-handled', n_fail_paths >= 1,
          'float() of the numeric part is not guarded by a ValueError handler returning '
          '(None, None)', fn.loc())
    return rows


def run(ck, prog, tier):
    poly.INT_VARS.clear()
    ck.explanation = (
        'The four converters (getLength, getLengthInches, unitsToUserUnits, userUnitToUnits) are '
        'abstractly interpreted once per unit literal with the parser replaced by its summary '
        '(value atom v, unit); the returned rational normal forms (decimal literals converted '
        'exactly) are compared with the SVG/CSS unit table at 96 px/inch, with each other '
        '(round trip back(to(v)) == v as a normal form) and for None propagation. The parser is '
        'interpreted symbolically on an opaque string: each path yields a row (suffix literal, '
        'tested slice width, stripped width, unit); widths must agree with len(suffix), the unit '
        'with the literal, float() must sit under a ValueError handler returning (None, None). '
        'Not decided: that float() accepts exactly the decimal/scientific numerals and float '
        'rounding of the round trip (exact in Q).')
    ck.assumptions += ['float() parses finite decimal/scientific numerals and raises ValueError '
                       'otherwise (library fact)', 'round trip exact in rational arithmetic; '
                       'floating-point rounding not modelled']
    ck.trusted += ['python ast module', 'vf.interp', 'SVG 1.1 7.10 unit table transcribed in '
                   'vf/props/c12.py']
    purity.check(ck, prog, ['plot_utils.parseLengthWithUnits', 'plot_utils.getLength', 'plot_utils.getLengthInches', 'plot_utils.unitsToUserUnits', 'plot_utils.userUnitToUnits'], 'C12-R-pure')
    tables = converter_table(ck, prog)
    rows = parser_table(ck, prog)
    ck.floor('converter table rows', sum(len(t) for t in tables.values()), 4 * 9)
    ck.floor('parser suffix rows', len(rows), 9)
    ck.exhaustive = True
