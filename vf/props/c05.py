"""C05 - EBB3 command/query framing and fault handling.

All rules are decided on the parsed source with the typestate engine (vf/ebb3.py); nothing runs.

  D1  framing: command/query transmit `strip(request) + CR`, encoded, exactly once on every
      fault-free path (at most once on any path), before the first read, never from inside a loop
  D2  bounded wait: the empty-reply retry loop re-reads through the same pipeline, its counter goes
      up by one on every path and its bound admits exactly 25 iterations
  D3  request-name table (1 letter / 1 letter + arguments / 2 letters), same in command and query
  D4  success table over abstract reply classes (empty, right name, wrong name, with/without
      "Err:"): success exactly for a non-empty reply that starts with the name and has no "Err:";
      a successful query returns the reply minus the name and one separating comma (never indexing
      past a bare-name reply)
  D5  containment: with a SerialException injected at every port call, no request method raises
  D6  failures are latched and reported: a primitive that met a fault ends with `err` set (except
      the frozen reboot/bootloader exemption in `command`); any request method that ends with a
      newly recorded error returns a failure value; recorded messages are non-empty text
  D7  nobody dereferences a failed query: the None / failure results of the primitives (computed
      summaries) never reach an attribute access, subscript, int()/float() or unpacking
"""
import ast
import os

from ..ebb3 import (Engine, EBB3Hooks, most_derived, public_methods, ALL_TS, OK, port_writes,
                    is_port_call, classify_ret, FAILURE_CLASSES, PORT, ts_of_state, describe_effect,
                    initial_state, summarise_outcome)
from ..interp import (Interp, Outcome, Opaque, Str, Slot, Tup, Const, Cmp, IsNone, Truthy, In, NotC, AndC,
                      OrC, Pred, State, ObjRef, NONE, TRUE, FALSE, fold_cond, type_of)
from ..loops import (analyse_retry_loop, while_loops, contains_call_attr, UnrollMixin,
                     Unbounded)
from ..poly import Sym
from ..model import AnalysisError, Program
from ..report import Check, VERIF
from .c04 import method_overrides, NOT_REQUESTS

# loops the engines summarise on purpose (retry / pause / enumeration loops are judged by the
# loop rules of this check, not by unrolling)
EXPECTED_GAPS = {('loop', '*')}

RETRY_BOUND = 25
EXEMPT_NAMES = {'rb', 'r', 'bl'}       # frozen: the board reboots and the port legitimately vanishes
PRIMS = ('command', 'query')


def param_value(fn):
    return Opaque('param:' + fn.params[1], (), 'str')


def stripped(fn):
    return Opaque('m:strip', (param_value(fn),), 'str')


# ---------------------------------------------------------------------------- D1
def check_framing(ck, eng, name):
    fn = eng.method(name)
    outs = eng.run(name, OK, overrides={fn.params[1]: param_value(fn)})
    want = Opaque('encode', (Str((Slot(stripped(fn)), '\r')),), 'bytes')
    n_clean = 0
    bad_count = bad_arg = bad_order = None
    for o in outs:
        effs = o.state.effects
        ws = [e for e in effs if is_port_call(e, ('write', 'writelines'))]
        faulted = any(n[0] == 'raised-by' for n in o.state.notes)
        if len(ws) > 1:
            bad_count = 'writes %d times on one path (lines %s)' % (len(ws), [e.line for e in ws])
        if not faulted:
            n_clean += 1
            if len(ws) != 1:
                bad_count = 'writes %d times on a fault-free path' % len(ws)
        for e in ws:
            if not e.args or e.args[0] != want:
                bad_arg = 'transmits %s at line %d, expected the trimmed request followed by ' \
                          'exactly one carriage return, encoded' % (show(e.args[0] if e.args else None),
                                                                    e.line)
        io = [e for e in effs if is_port_call(e)]
        if ws and io and io[0] is not ws[0] and io[0].target.name in ('readline', 'read'):
            bad_order = 'reads from the port (line %d) before transmitting the request' % io[0].line
    q = fn.qualname
    ck.ob('C05-D1-write-once', q, bad_count is None, '%s %s' % (q, bad_count), fn.loc(),
          key='%s::write-count' % q)
    ck.ob('C05-D1-frame', q, bad_arg is None, '%s %s' % (q, bad_arg), fn.loc(), key='%s::frame' % q)
    ck.ob('C05-D1-write-first', q, bad_order is None, '%s %s' % (q, bad_order), fn.loc(),
          key='%s::write-order' % q)
    in_loop = [l for l in ast.walk(fn.node) if isinstance(l, (ast.While, ast.For))
               and contains_call_attr(l, ('write', 'writelines'))]
    ck.ob('C05-D1-write-not-in-loop', q, not in_loop,
          '%s transmits from inside a loop (line %s): a retried wait would resend the request'
          % (q, [l.lineno for l in in_loop]), fn.loc(), key='%s::write-in-loop' % q)
    ck.floor('%s fault-free paths' % name, n_clean, 4)
    return outs


def show(v):
    if isinstance(v, Opaque) and v.label == 'encode':
        return 'encode(%s)' % show(v.args[0])
    if isinstance(v, Str):
        return '"' + ''.join(p.replace('\r', '\\r') if isinstance(p, str) else '{%s}' % show(p.value)
                             for p in v.parts) + '"'
    if isinstance(v, Opaque):
        if v.label.startswith('m:') and v.args:
            return '%s.%s()' % (show(v.args[0]), v.label[2:])
        return v.label
    return repr(v)


# ---------------------------------------------------------------------------- D2
class LoopSpy(EBB3Hooks):
    def __init__(self, *a, **k):
        EBB3Hooks.__init__(self, *a, **k)
        self.loops = {}

    def loop(self, interp, node, st):
        if isinstance(node, ast.While) and node.lineno not in self.loops:
            self.loops[node.lineno] = analyse_retry_loop(interp, node, st)
        return None


def reads_on_timeout(eng, fn, hooks_cls, kind):
    """Number of port reads performed when every read comes back empty, by exact unrolling of the
    loops under the all-empty abstract case.  Returns (count or None, hooks)."""
    hk = hooks_cls(eng, fn, kind, kind[1][-1], REPLY_CASES[0])
    hk.unroll = True
    outs = eng.run(fn.name, OK, overrides={fn.params[1]: param_value(fn)}, hooks=hk)
    if hk.uncountable or not outs:
        return None, hk
    counts = {sum(1 for e in o.state.effects if is_port_call(e, ('readline', 'read', 'read_until')))
              for o in outs}
    if len(counts) != 1:
        return None, hk
    return counts.pop(), hk


def check_retry(ck, eng, name, bound=RETRY_BOUND, prefix='C05'):
    fn = eng.method(name)
    q = fn.qualname
    # (a) total number of reads on a timeout: first read + `bound` empty re-reads
    try:
        n, hk = reads_on_timeout(eng, fn, CaseHooks, REQUEST_KINDS[2])
    except Unbounded as exc:
        ck.ob('%s-D2-retry-bound' % prefix, q, False,
              '%s: the loop at line %s never gives up when every read comes back empty (more '
              'than 3000 re-reads); the property says up to %d' % (q, exc.args[0], bound),
              fn.loc(), key='%s::retry-bound' % q)
        return []
    if n is None:
        raise AnalysisError('%s: cannot count the reads performed on a timeout (a loop test is '
                            'not decided by "every read is empty")' % q)
    ck.ob('%s-D2-retry-bound' % prefix, q, n == bound + 1,
          '%s performs %d read(s) when nothing arrives: the property says the first read plus up '
          'to %d empty re-reads (%d reads)' % (q, n, bound, bound + 1), fn.loc(),
          key='%s::retry-bound' % q)
    # (b) shape facts of the while-form retry loops met while interpreting (helpers included)
    spy = LoopSpy(eng, inject=False, summarised=(), exclude=name)
    eng.run(name, OK, overrides={fn.params[1]: param_value(fn)}, hooks=spy)
    loops = [f for f in spy.loops.values() if contains_call_attr(f.node, ('readline', 'read'))]
    for f in loops:
        ck.saw('retry_loops', {q: f.as_dict()})
        if f.problems:
            continue   # not the counter idiom; the count rule above has decided the bound
        loc = fn.loc(f.node)
        ck.ob('%s-D2-retry-increment' % prefix, q, bool(f.increment_ok),
              '%s: the retry counter is not incremented by exactly one on every path of the loop '
              'body' % q, loc, key='%s::retry-increment' % q)
        ck.ob('%s-D2-retry-pipeline' % prefix, q, bool(f.same_pipeline),
              '%s: the re-read inside the retry loop does not go through the same '
              'read/decode/strip pipeline into the same variable as the first read (first: %s, '
              'loop: %s)' % (q, f.first_shape, f.body_shape), loc, key='%s::retry-pipeline' % q)
    return loops


# ---------------------------------------------------------------------------- D3 / D4
REPLY_CASES = [
    # name, empty, starts with name, has Err:, longer than name, comma follows
    ('timeout (all reads empty)', True, False, False, False, False),
    ('right name, payload after comma', False, True, False, True, True),
    ('right name, payload without comma', False, True, False, True, False),
    ('bare name only', False, True, False, False, False),
    ('right name with Err:', False, True, True, True, True),
    ('wrong name', False, False, False, True, False),
    ('wrong name with Err:', False, False, True, True, False),
]
REQUEST_KINDS = [
    # kind, representative lengths, second char is comma, expected name form
    ('one letter', (1,), None, 'first'),
    ('one letter + arguments', (2, 3, 9), True, 'first'),
    ('two letters', (2, 3, 9), False, 'first-two'),
    # the firmware's two-character names are not all letters: T3, L3, S2 ... (the library sends
    # T3 itself, clear_accumulators)
    ('letter + digit', (2, 3, 9), 'digit', 'first-two'),
]


class CaseHooks(EBB3Hooks):
    fork_undecided = False      # count exactly under a deciding case; never fork
    unroll = False

    """Decides the branch conditions of a primitive from (request kind, reply class)."""

    def __init__(self, engine, fn, kind, length, reply):
        EBB3Hooks.__init__(self, engine, inject=False, summarised=(), exclude=fn.name)
        self.fn = fn
        self.kind, self.length, self.reply = kind, length, reply
        self.req = stripped(fn)
        self.raw = param_value(fn)
        self.names = []           # NAME values seen in startswith tests
        self.bad_index = False
        self.undecided = []
        self.unroll = False       # exact unrolling of while loops whose test the case decides
        self.uncountable = False
        self.bytes_used = None    # a reply used as text while still bytes
        self.arrive = None        # thorough tier: set of read ordinals at which a line arrives

    def loop(self, interp, node, st):
        return self.unroll_loop(interp, node, st)

    def text_use(self, v, what):
        if type_of(v) == 'bytes' and self.bytes_used is None:
            self.bytes_used = 'a reply still of type bytes is used as text (%s)' % what

    def is_request(self, v):
        return v in (self.req, self.raw, Opaque('m:lstrip', (self.raw,), 'str'))

    def is_reply(self, v):
        """Any text value derived from what was read from the port."""
        if isinstance(v, Opaque):
            if v.label.startswith('reply#') or v.label.startswith('havoc:') or \
                    v.label.startswith('loopvar:'):
                return True
            if v.label in ('decode', 'm:strip', 'm:rstrip', 'm:lstrip', 'm:upper', 'm:lower',
                           'm:casefold') and v.args:
                return self.is_reply(v.args[0])
        return False

    @staticmethod
    def case_folded(v):
        """'upper' / 'lower' if the text value went through str.upper() / lower() on its way."""
        while isinstance(v, Opaque) and v.args:
            if v.label == 'm:upper':
                return 'upper'
            if v.label in ('m:lower', 'm:casefold'):
                return 'lower'
            if v.label in ('decode', 'm:strip', 'm:rstrip', 'm:lstrip', 'slice'):
                v = v.args[0]
            else:
                break
        return None

    def name_form(self, v):
        if isinstance(v, Opaque) and v.label in ('item', 'slice') and v.args[0] == self.raw:
            # the request may carry surrounding whitespace (the property's quantifier): its
            # name is read from the trimmed text, ' QG'[:2] is not a name
            return 'characters of the untrimmed request'
        if isinstance(v, Opaque) and v.label == 'item' and self.is_request(v.args[0]) \
                and v.args[1] == Sym.const(0):
            return 'first'
        if isinstance(v, Opaque) and v.label == 'slice' and self.is_request(v.args[0]):
            lo, hi, step = v.args[1:]
            if lo in (NONE, Sym.const(0)) and hi == Sym.const(2) and step == NONE:
                return 'first-two'
            if lo in (NONE, Sym.const(0)) and hi == Sym.const(1) and step == NONE:
                return 'first'
        return None

    def name_len(self):
        return 1 if self.kind[3] == 'first' else 2

    def decide(self, cond, st):
        r = EBB3Hooks.decide(self, cond, st)
        if r is not None:
            return r
        if isinstance(cond, NotC):
            inner = self.decide(cond.c, st)
            return None if inner is None else not inner
        if isinstance(cond, (AndC, OrC)):
            return None      # the interpreter decomposes these and asks again
        _n, empty, starts, has_err, longer, comma = self.reply
        if isinstance(cond, Cmp) and isinstance(cond.a, Sym) and isinstance(cond.b, Sym):
            # comparisons on LEN(request) / LEN(reply) / LEN(name)
            assign = {}
            for at in cond.a.atoms():
                if at[0] == 'f' and at[1] == 'LEN':
                    inner = at[2][0]
                    txt = repr(inner)
                    if 'param:' in txt and 'reply' not in txt and 'havoc' not in txt:
                        if 'item' in txt or 'slice' in txt:
                            assign[at] = Sym.const(self.name_len())
                        else:
                            assign[at] = Sym.const(self.length)
                    else:
                        nl = self.name_len()
                        emp = empty
                        if self.arrive is not None:
                            import re
                            m = re.findall(r'reply#(\d+)', txt)
                            emp = not (m and int(m[-1]) in self.arrive)
                        assign[at] = Sym.const(0 if emp else (nl + 3 if longer else nl))
                else:
                    return None
            val = cond.a.subs(assign)
            return fold_cond(Cmp(cond.op, val, cond.b))
        # request[1:2] (never out of range): '' for a one-letter request, ',' when arguments
        # follow a one-letter name, otherwise the second letter of the name
        def second_char(v):
            if isinstance(v, Opaque) and v.label == 'slice' and self.is_request(v.args[0]) and \
                    v.args[1] == Sym.const(1) and v.args[2] == Sym.const(2) and v.args[3] == NONE:
                if self.length < 2:
                    return ''
                return ',' if self.kind[2] is True else (
                    'digit' if self.kind[2] == 'digit' else 'letter')
            return None
        # character-class predicates on the leading characters of the request
        def lead_text(v):
            # a representative of request[a:b] within the first two characters, or None
            if isinstance(v, Opaque) and v.label == 'item' and self.is_request(v.args[0]) and \
                    isinstance(v.args[1], Sym) and v.args[1].is_const():
                k = int(v.args[1].const_value())
                lo, hi = k, k + 1
            elif isinstance(v, Opaque) and v.label == 'slice' and self.is_request(v.args[0]) and \
                    v.args[3] == NONE and all(x == NONE or (isinstance(x, Sym) and x.is_const())
                                               for x in v.args[1:3]):
                lo = 0 if v.args[1] == NONE else int(v.args[1].const_value())
                hi = None if v.args[2] == NONE else int(v.args[2].const_value())
            else:
                return None
            if lo < 0 or hi is None or hi < 0 or hi > 2:
                return None
            second = {True: ',', False: 'M', 'digit': '3', None: ''}[self.kind[2]]
            rep = ('S' + second)[:self.length]
            return rep[lo:hi]
        pv = cond.v if isinstance(cond, Truthy) else None
        if isinstance(pv, Opaque) and pv.label in ('m:isalpha', 'm:isdigit', 'm:isalnum',
                                                   'm:isupper', 'm:isnumeric') and pv.args:
            txt = lead_text(pv.args[0])
            if txt is not None:
                return bool(getattr(txt, pv.label[2:])())
        if isinstance(cond, Pred) and cond.name in ('isalpha', 'isdigit', 'isalnum') and cond.args:
            txt = lead_text(cond.args[0])
            if txt is not None:
                return bool(getattr(txt, cond.name)())
        if isinstance(cond, In) and second_char(cond.item) is not None and \
                isinstance(cond.container, Tup) and all(
                    isinstance(x, Str) and x.is_lit() for x in cond.container.items):
            return second_char(cond.item) in [x.text() for x in cond.container.items]
        if isinstance(cond, Cmp) and cond.op in ('==', '!=') and isinstance(cond.b, Str) and \
                cond.b.is_lit() and second_char(cond.a) is not None and \
                not cond.b.text().isalpha():
            return (second_char(cond.a) == cond.b.text()) == (cond.op == '==')
        if isinstance(cond, Cmp) and cond.op in ('==', '!='):
            a, b = cond.a, cond.b
            if isinstance(b, Str) and b.is_lit() and isinstance(a, Opaque) and a.label == 'item':
                obj, idx = a.args
                if self.is_request(obj) and b.text() == ',' and idx == Sym.const(1):
                    if self.length < 2:
                        self.bad_index = 'request[1] is read for a one-letter request'
                        return False
                    return (self.kind[2] is True) == (cond.op == '==')
                if self.is_request(obj) and b.text() == ',' and isinstance(idx, Sym) and \
                        idx.is_const() and idx.const_value().denominator == 1 and \
                        idx.const_value() >= 2:
                    # request = name [',' arguments]; arguments never start with a comma
                    k = int(idx.const_value())
                    if self.length <= k:
                        self.bad_index = 'request[%d] is read for a request of %d characters' % (
                            k, self.length)
                        return False
                    return (k == self.name_len()) == (cond.op == '==')
                if self.is_reply(obj) and b.text() == ',':
                    # reply[len(name)] == ','
                    if not longer:
                        self.bad_index = 'the reply is indexed past its end for a bare-name reply'
                        return False
                    return comma == (cond.op == '==')
        if isinstance(cond, Pred) and cond.name == 'startswith' and len(cond.args) == 2 and \
                isinstance(cond.args[1], Str) and cond.args[1].is_lit() and \
                cond.args[1].text() == ',' and isinstance(cond.args[0], Opaque) and \
                cond.args[0].label == 'slice' and self.is_reply(cond.args[0].args[0]):
            # reply[len(name):].startswith(','): slicing never indexes past the end
            return bool(longer and comma)
        if isinstance(cond, Pred) and cond.name == 'startswith' and self.is_reply(cond.args[0]):
            self.names.append(cond.args[1])
            self.text_use(cond.args[0], 'startswith')
            return starts
        if isinstance(cond, In) and isinstance(cond.item, Str) and cond.item.is_lit() and \
                cond.item.text() == 'Err:' and self.is_reply(cond.container):
            self.text_use(cond.container, "'Err:' in reply")
            fold = self.case_folded(cond.container)
            if fold == 'upper' or fold == 'lower':
                return False     # 'Err:' is mixed case: it never occurs in case-folded text
            return has_err
        if isinstance(cond, Truthy) and self.is_reply(cond.v):
            return not empty
        self.undecided.append(cond)
        return None


def slice_start(v, hooks):
    """For a value reply[a:] (or reply[a:][b:]) return the total start offset (Sym) else None."""
    if isinstance(v, Opaque) and v.label == 'slice' and v.args[2] == NONE and v.args[3] == NONE \
            and isinstance(v.args[1], Sym):
        if isinstance(v.args[0], Opaque) and v.args[0].label == 'slice':
            inner = slice_start(v.args[0], hooks)
            # offsets of non-negative slices add up
            return None if inner is None else inner + v.args[1]
        if hooks.is_reply(v.args[0]):
            return v.args[1]
    if isinstance(v, Opaque) and v.label == 'm:removeprefix' and len(v.args) == 2:
        # reply.removeprefix(p): on the success rows the reply starts with the name
        base, p = v.args
        inner = Sym.const(0) if hooks.is_reply(base) else slice_start(base, hooks)
        if inner is None:
            return None
        if hooks.name_form(p) is not None and inner == Sym.const(0):
            return inner + hooks.name_len()
        if isinstance(p, Str) and p.is_lit() and p.text() == ',':
            _n, _e, _s, _h, longer, comma = hooks.reply
            return inner + (1 if (longer and comma) else 0)
    return None


def strips_character_set(v, hooks):
    """reply.lstrip(chars) / strip(chars): removes every leading character of a *set*, which can
    eat the beginning of the payload - never the same as removing the name."""
    return isinstance(v, Opaque) and v.label in ('m:lstrip', 'm:strip') and len(v.args) == 2 and \
        (hooks.is_reply(v.args[0]) or slice_start(v.args[0], hooks) is not None)


class _Deferred:
    """Obligation sink for a case with undecided conditions: failures are kept aside."""

    def __init__(self, ck, undecided, pending):
        self.ck, self.undecided, self.pending = ck, undecided, pending

    def ob(self, rule, instance, ok, detail='', loc='', key=None):
        if ok:
            return self.ck.ob(rule, instance, ok, detail, loc, key)
        self.pending.append((rule, repr(self.undecided[0])[:200], detail))

    def __getattr__(self, name):
        return getattr(self.ck, name)


def check_tables(ck, eng, name):
    fn = eng.method(name)
    q = fn.qualname
    rows = {}
    pending = []
    for kind in REQUEST_KINDS:
        for length in kind[1]:
            for reply in REPLY_CASES:
                hk = CaseHooks(eng, fn, kind, length, reply)
                outs = eng.run(name, OK, overrides={fn.params[1]: param_value(fn)}, hooks=hk)
                inst = '%s[%s,len=%d | %s]' % (q, kind[0], length, reply[0])
                # a case in which the request / reply conditions were not all decided explores
                # infeasible combinations: a mismatch there is not a verdict
                real_ck = ck
                if hk.undecided:
                    ck = _Deferred(real_ck, hk.undecided, pending)
                # D3: the name used in the reply test
                forms = {hk.name_form(n) for n in hk.names}
                if hk.names:
                    ck.ob('C05-D3-name', inst, forms == {kind[3]},
                          '%s derives the request name as %s for a %s request (expected the %s '
                          'character(s))' % (q, sorted(map(str, forms)), kind[0],
                                             'first' if kind[3] == 'first' else 'first two'),
                          fn.loc(), key='%s::name:%s' % (q, kind[0]))
                ck.ob('C05-D2-text-discipline', inst, hk.bytes_used is None,
                      '%s: %s' % (q, hk.bytes_used), fn.loc(), key='%s::bytes-as-text' % q)
                ck.ob('C05-D3-index-guard', inst, not (hk.bad_index and 'request' in hk.bad_index),
                      '%s: %s' % (q, hk.bad_index), fn.loc(), key='%s::request-index' % q)
                # D2: the first line that arrives is the reply - a line that is not empty is never
                # read past (skipping a wrong-name or error line would attribute the next line,
                # which belongs to a later request, to this one and lose the fault)
                if not reply[1] and not hk.uncountable:
                    n_reads = {sum(1 for e in o.state.effects
                                   if is_port_call(e, ('readline', 'read', 'read_until')))
                               for o in outs}
                    n_reads.discard(0)       # paths that return before the exchange
                    ck.ob('C05-D2-first-line-is-the-reply', inst, n_reads <= {1},
                          '%s with reply class "%s" (a line arrives at the first read) performs '
                          '%s reads: only empty reads may be repeated; a non-empty line is the '
                          'reply, whatever it says' % (q, reply[0], sorted(n_reads)), fn.loc(),
                          key='%s::reads-past-a-line' % q)
                # D4: success table
                success = (not reply[1]) and reply[2] and not reply[3]
                for o in outs:
                    cls = 'raise' if o.kind == 'raise' else classify_ret(o.value)
                    _p, err_set = ts_of_state(o.state)
                    if name == 'command':
                        good = (cls == 'true' and not err_set) if success else \
                            (cls == 'false' and err_set)
                    else:
                        good = (cls == 'str' and not err_set) if success else \
                            (cls == 'none' and err_set)
                    ck.ob('C05-D4-success-table', inst, good,
                          '%s with a %s request and reply class "%s" %s and %s; expected %s'
                          % (q, kind[0], reply[0],
                             'raises %s' % o.value if o.kind == 'raise' else 'returns a %s value' % cls,
                             'records an error' if err_set else 'records no error',
                             'success' if success else 'failure (error recorded, failure value)'),
                          fn.loc(), key='%s::success-table:%s' % (q, reply[0]))
                    if name == 'query' and success and o.kind == 'return':
                        start = slice_start(o.value, hk)
                        nl = hk.name_len()
                        want = nl + (1 if (reply[4] and reply[5]) else 0)
                        got = None
                        if start is not None and isinstance(start, Sym):
                            assign = {at: Sym.const(nl) for at in start.atoms()
                                      if at[0] == 'f' and at[1] == 'LEN'}
                            sv = start.subs(assign)
                            got = int(sv.const_value()) if sv.is_const() else None
                        if got is None and not hk.bad_index and \
                                not strips_character_set(o.value, hk):
                            pending.append(('C05-D4-query-result', 'the returned value %r is not '
                                            'a slice of the reply' % (o.value,), ''))
                            continue
                        ck.ob('C05-D4-query-result', inst, got == want and not hk.bad_index,
                              '%s returns the reply from offset %s for reply class "%s" (name '
                              'length %d): expected offset %d (name and one separating comma '
                              'removed)%s' % (q, got, reply[0], nl, want,
                                              '; ' + hk.bad_index if hk.bad_index else ''),
                              fn.loc(), key='%s::result-offset' % q)
                rows[(kind[0], length, reply[0])] = sorted({
                    ('raise' if o.kind == 'raise' else classify_ret(o.value)) for o in outs})
                ck = real_ck
    if pending and not ck.violations:
        raise AnalysisError('%s: %d table entr%s could not be decided because the case analysis '
                            'does not decide %s' % (q, len(pending),
                                                    'y' if len(pending) == 1 else 'ies',
                                                    pending[0][1]))
    ck.sample({q: {'%s|%s' % (k[0], k[2]): v for k, v in list(rows.items())[:8]}})
    return rows


def check_delays(ck, eng, name, bound=RETRY_BOUND):
    """Thorough tier: the reply arrives after k empty reads.  Within the budget (k <= 25) the
    request succeeds having performed k+1 reads; beyond it the request times out after 26."""
    fn = eng.method(name)
    q = fn.qualname
    for kind in REQUEST_KINDS:
        for k in (0, 1, 24, 25, 26):
            hk = CaseHooks(eng, fn, kind, kind[1][-1], REPLY_CASES[1] if k <= bound else REPLY_CASES[0])
            hk.unroll = True
            hk.arrive = frozenset([k]) if k <= bound else frozenset()
            try:
                outs = eng.run(name, OK, overrides={fn.params[1]: param_value(fn)}, hooks=hk)
            except Unbounded as exc:
                ck.ob('C05-D2-retry-bound', '%s[delay %d]' % (q, k), False,
                      '%s: the loop at line %s never gives up' % (q, exc.args[0]), fn.loc(),
                      key='%s::retry-bound' % q)
                continue
            if hk.uncountable:
                raise AnalysisError('%s: delay schedule not decided' % q)
            want_reads = k + 1 if k <= bound else bound + 1
            inst = '%s[%s request, reply after %d empty reads]' % (q, kind[0], k)
            for o in outs:
                n_reads = sum(1 for e in o.state.effects
                              if is_port_call(e, ('readline', 'read', 'read_until')))
                cls = 'raise' if o.kind == 'raise' else classify_ret(o.value)
                _p, err_set = ts_of_state(o.state)
                if k <= bound:
                    good = (cls == ('true' if name == 'command' else 'str')) and not err_set
                else:
                    good = (cls == ('false' if name == 'command' else 'none')) and err_set
                ck.ob('C05-D2-delayed-reply', inst, n_reads == want_reads and good,
                      '%s performs %d read(s) and ends with a %s value (%s) when the reply comes '
                      'after %d empty reads; expected %d reads and %s'
                      % (q, n_reads, cls, 'error recorded' if err_set else 'no error', k,
                         want_reads, 'success' if k <= bound else 'a recorded timeout'),
                      fn.loc(), key='%s::delayed-reply' % q)


# ---------------------------------------------------------------------------- D5 / D6 / D7
def exemption_in_path(path):
    """Literal names of a reboot-style exemption test assumed true on the path, else None."""
    for c, truth in path:
        inner, t = c, truth
        while isinstance(inner, NotC):
            inner, t = inner.c, not t
        if isinstance(inner, In) and isinstance(inner.container, Tup) and t and all(
                isinstance(x, Str) and x.is_lit() for x in inner.container.items):
            names = {x.text() for x in inner.container.items}
            if all(n.isalpha() for n in names):      # a set of request names, not of separators
                return names
    return None


def check_faults(ck, eng, requests):
    from ..ebb3 import EBB3Hooks
    EBB3Hooks.os_faults = True
    # a line that is not ASCII text (line noise, a device that is not an EBB after all) is a
    # mismatched reply like any other: decoding it raises UnicodeDecodeError, which must end as a
    # recorded error and the failure value too, not as an exception out of a request method
    EBB3Hooks.decode_faults = True
    eng._sum.clear()
    try:
        return _check_faults(ck, eng, requests)
    finally:
        EBB3Hooks.os_faults = False
        EBB3Hooks.decode_faults = False
        eng._sum.clear()


def _check_faults(ck, eng, requests):
    n_query_sites = 0
    for name in requests:
        fn = eng.method(name)
        q = fn.qualname
        outs = eng.run(name, OK, overrides=method_overrides(fn))
        raised = None
        escaped = {}       # exception class -> first report (one obligation per class)
        deref = None
        unreported = None
        unlatched = None
        empty_msg = None
        bad_exempt = None
        for o in outs:
            effs = o.state.effects
            n_query_sites += sum(1 for e in effs if e.kind == 'summary' and e.target == 'query')
            if o.kind == 'raise':
                derefs = [n for n in o.state.notes if n[0] == 'none-deref']
                if derefs:
                    deref = 'uses the result of a failed request (%s at line %s) -> %s' % (
                        derefs[-1][1], derefs[-1][2], o.value)
                else:
                    raised = 'lets %s escape (%s)' % (o.value, '; '.join(
                        'raised by %s at line %s' % (n[1], n[2]) for n in o.state.notes
                        if n[0] == 'raised-by') or 'raised in the method')
                    escaped.setdefault(str(o.value), raised)
                continue
            _p, err_set = ts_of_state(o.state)
            cls = classify_ret(o.value)
            if err_set and cls not in FAILURE_CLASSES:
                unreported = 'records an error but returns a %s value instead of its failure ' \
                             'value' % cls
            faulted = [n for n in o.state.notes if n[0] == 'raised-by']
            if name in PRIMS + ('query_statusbyte',) and faulted and not err_set:
                ex = exemption_in_path(o.state.path)
                if ex is not None and name == 'query':
                    # a query has a result to report: even for the reboot-style names a fault
                    # must end as a recorded error and None (today: the empty reply is a timeout)
                    unlatched = 'contains a serial exception (raised by %s, line %s) for the ' \
                                'requests %s without recording an error; only a command, which ' \
                                'has no reply to deliver, may ignore it' % (
                                    faulted[0][1], faulted[0][2], sorted(ex))
                elif ex is None:
                    unlatched = 'contains a serial exception (raised by %s, line %s) without ' \
                                'recording an error' % (faulted[0][1], faulted[0][2])
                elif not ex <= EXEMPT_NAMES:
                    bad_exempt = 'ignores serial exceptions for the requests %s (only the ' \
                                 'reboot/bootloader requests %s may be exempt)' % (
                                     sorted(ex), sorted(EXEMPT_NAMES))
            for e in effs:
                if e.kind == 'store' and e.target == 'self.err' and e.args[0] != NONE:
                    if fold_cond(Truthy(e.args[0])) is not True and \
                            not (isinstance(e.args[0], Sym)):
                        empty_msg = 'stores a possibly empty message into self.err (line %d)' % e.line
        ck.ob('C05-D5-containment', q, not escaped, '%s %s' % (q, raised), fn.loc(),
              key='%s::exception-escapes' % q) if not escaped else None
        for exc_name, why in sorted(escaped.items()):
            # keyed by the class that escapes: a tree that lets OSError out and one that lets
            # UnicodeDecodeError out have different defects
            short = exc_name.rsplit('.', 1)[-1]
            ck.ob('C05-D5-containment', '%s [%s]' % (q, short), False, '%s %s' % (q, why),
                  fn.loc(), key='%s::exception-escapes:%s' % (q, short))
        ck.ob('C05-D7-failed-result-deref', q, deref is None, '%s %s' % (q, deref), fn.loc(),
              key='%s::deref-failed-result' % q)
        ck.ob('C05-D6-failure-reported', q, unreported is None, '%s %s' % (q, unreported), fn.loc(),
              key='%s::failure-not-reported' % q)
        if name in PRIMS + ('query_statusbyte',):
            ck.ob('C05-D6-failure-latched', q, unlatched is None, '%s %s' % (q, unlatched),
                  fn.loc(), key='%s::failure-not-latched' % q)
            ck.ob('C05-D6-exemption-table', q, bad_exempt is None, '%s %s' % (q, bad_exempt),
                  fn.loc(), key='%s::exemption' % q)
            ck.ob('C05-D6-message-nonempty', q, empty_msg is None, '%s %s' % (q, empty_msg),
                  fn.loc(), key='%s::empty-message' % q)
    return n_query_sites


def summaries_consistent(ck, eng):
    """The summaries the callers rely on: query -> (text, no error) | (None, error recorded);
    command -> (True, no error) | (False, error recorded)."""
    for name, ok_cls, bad_cls in (('query', 'str', 'none'), ('command', 'true', 'false')):
        fn = eng.method(name)
        sums = eng.summary(name, (True, False))
        for s in sums:
            good = (s.raised is None) and ((s.ret == ok_cls and not s.err_set) or
                                           (s.ret == bad_cls and s.err_set))
            ck.ob('C05-D6-primitive-contract', '%s -> %s' % (fn.qualname, s.as_dict()), good,
                  '%s from a connected, error-free object can end as %s: the return value and the '
                  'recorded error disagree (callers test one to learn the other)'
                  % (fn.qualname, s.as_dict()), fn.loc(),
                  key='%s::contract:%s:%s' % (fn.qualname, s.ret, s.err_set))


def handler_sets(ck, prog, eng):
    """Sibling agreement: the three transport primitives must contain the same exception classes
    around their port I/O (they are three implementations of one fault-handling contract)."""
    from ..interp import exc_canon
    sets = {}
    prim_names = set(PRIMS + ('query_statusbyte',))

    def self_calls(node):
        for n in ast.walk(node):
            if isinstance(n, ast.Call) and isinstance(n.func, ast.Attribute) and \
                    isinstance(n.func.value, ast.Name) and n.func.value.id == 'self':
                m = eng.cls.lookup(n.func.attr)
                if m is not None and n.func.attr not in prim_names:
                    yield m

    io_memo = {}

    def does_io(node, depth=0):
        """port I/O directly or through private helpers of the class (not through a primitive)."""
        if contains_call_attr(node, ('write', 'readline')):
            return True
        if depth > 6:
            return False
        for m in self_calls(node):
            key = m.qualname
            if key not in io_memo:
                io_memo[key] = False
                io_memo[key] = does_io(m.node, depth + 1)
            if io_memo[key]:
                return True
        return False

    def reachable(fn):
        seen, todo = {fn.qualname: fn}, [fn]
        while todo:
            f = todo.pop()
            for m in self_calls(f.node):
                if m.qualname not in seen:
                    seen[m.qualname] = m
                    todo.append(m)
        return list(seen.values())

    for name in PRIMS + ('query_statusbyte',):
        fn = eng.method(name)
        caught = set()
        for f in reachable(fn):
            it = Interp(prog)
            it.stack.append(f)
            for node in ast.walk(f.node):
                if isinstance(node, ast.Try) and any(does_io(b) for b in node.body):
                    for h in node.handlers:
                        if h.type is None:
                            caught.add('BaseException')
                            continue
                        for t in it.handler_types(h.type):
                            caught.add(exc_canon(it.exc_name(t)))
        from ..interp import exc_is_subclass
        sets[name] = {c for c in caught if not any(
            d != c and exc_is_subclass(c, d) for d in caught)}
    ck.saw('exception_classes_contained', {k: sorted(v) for k, v in sets.items()})
    # compared on the fault classes of the contract (what the fault rules inject, plus the
    # RuntimeError the primitives list): `except ValueError` and `except UnicodeDecodeError`
    # contain the same decode fault, `except Exception` contains all of them
    from ..ebb3 import SERIAL_EXC
    from ..interp import exc_is_subclass as _sub
    faults = (SERIAL_EXC, 'OSError', 'UnicodeDecodeError', 'RuntimeError')
    cover = {k: {f for f in faults if any(_sub(f, c) for c in v)} for k, v in sets.items()}
    ref_cover = cover['command']
    ref = sets['command']
    for name, got in sets.items():
        fn = eng.method(name)
        ck.ob('C05-D5-sibling-handlers', fn.qualname, cover[name] == ref_cover,
              '%s contains %s around its port I/O while command contains %s: the primitives '
              'disagree on which I/O exceptions are contained (a fault of the missing class '
              'escapes from this one only)' % (fn.qualname, sorted(got), sorted(ref)), fn.loc(),
              key='%s::handler-set' % fn.qualname)


def analyse(ck, prog, fixture=False, tier='quick'):
    base, cls, family = most_derived(prog)
    # "waits through up to 25 empty reads" is per request: the primitives may share nothing but
    # the connection typestate with earlier requests (a retry counter kept on the object is a
    # budget per object, not per request)
    from .. import purity
    purity.check_instance_state(ck, cls, list(PRIMS), 'C05-R-state')
    eng = Engine(prog, cls)
    methods = public_methods(cls)
    requests = []
    for name, fn in sorted(methods.items()):
        if name in NOT_REQUESTS or name.startswith('_'):
            continue
        outs = eng.run(name, OK, overrides=method_overrides(fn))
        if any(port_writes(o.state.effects) for o in outs):
            requests.append(name)
    ck.saw('request_methods', requests)
    ck.floor('request methods', len(requests), 2 if fixture else 30)
    for name in PRIMS:
        check_framing(ck, eng, name)
        check_retry(ck, eng, name)
        check_tables(ck, eng, name)
        if tier == 'thorough' and not fixture:
            check_delays(ck, eng, name)
    summaries_consistent(ck, eng)
    if not fixture:
        handler_sets(ck, prog, eng)
    n_sites = check_faults(ck, eng, requests)
    ck.floor('call sites consuming query results', n_sites, 1 if fixture else 9)
    ck.extra['engine_stats'] = eng.stats
    # sibling agreement: command and query derive the name the same way is implied by D3 holding
    # for both against the same table


def run(ck, prog, tier):
    ck.explanation = (
        'Typestate abstract interpretation of EBB3.command/query and of every request method '
        '(parsed source; nothing runs). D1 framing: exactly one write of strip(request)+CR per '
        'fault-free path, before any read, not in a loop. D2 the empty-reply retry loop admits '
        'exactly 25 iterations, unit increment, same read pipeline. D3/D4 decision tables over '
        '3 request kinds x lengths x 7 reply classes: request-name extraction, success exactly '
        'for right-name/no-Err replies, query result offset. D5 no exception escapes any request '
        'method with a SerialException injected at every port call. D6 faults are latched and '
        'every newly recorded error is reported by a failure return value. D7 failed query '
        'results are never dereferenced.')
    ck.trusted = ['Python ast', 'vf/interp.py', 'vf/ebb3.py', 'vf/loops.py',
                  'pyserial raises SerialException (or subclasses) for I/O faults']
    ck.assumptions = ['replies that are well-framed but semantically malformed (non-numeric '
                      'payloads) and non-ASCII bytes are outside the fault classes of the statement',
                      'attribution of replies over whole histories follows from the per-call '
                      'framing rules against a conforming device (device model not analysed)']
    analyse(ck, prog, tier=tier)
    fx = os.path.join(VERIF, 'fixtures', 'c05_bad')
    ck2 = Check('C05', tier, fx, quiet=True)
    from ..interp import suspended_gaps
    try:
        with suspended_gaps():
            analyse(ck2, Program(fx), fixture=True)
    except AnalysisError as exc:
        raise AnalysisError('C05 fixture could not be analysed: %s' % exc)
    fired = {v['rule'] for v in ck2.violations}
    for rule in ('C05-D1-frame', 'C05-D1-write-not-in-loop', 'C05-D2-retry-bound',
                 'C05-D3-name', 'C05-D4-success-table', 'C05-D5-containment',
                 'C05-D6-failure-reported', 'C05-D7-failed-result-deref'):
        ck.canary(rule + ' on fixtures/c05_bad', rule in fired)
