"""C13 - grid index nearest(): structural consistency of the index (partial: geometric optimality
is a metric argument that is not mechanised).

The methods of spatial_grid.Index are interpreted (vf.interp; nothing runs) with every loop taken
for ONE symbolic iteration (vf/loops.OneIterMixin): loop-carried variables are symbols at the start
of the iteration, the iteration's effects and exits are recorded, and the rules below are the
inductive steps that make the index consistent for every geometry and every removal history.

  D1  adjacency: for every position of a cell (first / interior / last / only column x row) the
      neighbours appended by find_adjacents are exactly the in-range cells of the 3x3 block, as
      linear indices index + dx + dy*bins; every cell's list starts with the cell itself
  D2  cell assignment agrees between writer and reader: constructor (start and, under reverse,
      end vertex) and nearest() use floor((coord - min)/bin_size) clamped to bins-1 (the query
      additionally to 0), x with x-quantities and y with y-quantities, linearised x + bins*y; the
      extent loop folds every start vertex - and every end vertex iff reverse - into the four
      extrema; the same non-negative shim widens all four sides; bin size = extent / bins
  D3  end identifiers: start of path k is stored as k from vertices[k][0], end as path_count + k
      from vertices[k][1] only under reverse; nearest() decodes id >= path_count as
      vertices[id - path_count][1] and smaller ids as vertices[id][0], in both scans
  D4  grid <-> lookup: every append of an id to grid[g] is paired with lookup[id] = g; lookup is
      sized 2*count under reverse, count otherwise; remove_path(p) removes p from grid[lookup[p]]
      and, iff reverse, p + path_count from grid[lookup[p + path_count]], and nothing else
  D5  nearest(): the running best starts at (inf, None); it is replaced only by the scanned id
      under dist < (or <=) best with dist = square_dist(query, that id's vertex), both updated
      together; the first scan ranges over adjacents[query cell], the fallback over every cell
      index not in that neighbourhood and continues from the first scan's running best; the early
      return returns the first scan's best, the final return the overall best
  D6  no shared mutable class state: the class-level lists are re-bound on self in __init__
      before any in-place mutation
"""
import ast
import itertools
from fractions import Fraction

from .. import poly
from ..interp import (Interp, Hooks, Outcome, Opaque, Str, Slot, Tup, Const, Cmp, IsNone, Truthy,
                      In, NotC, Pred, State, ObjRef, Effect, Bound, FuncRef, ExtRef, NONE, TRUE,
                      FALSE, fold_cond, type_of)
from ..loops import OneIterMixin, affine_in
from ..poly import Sym, mk_func
from ..model import AnalysisError

V = Sym.var
B, PC = V('B'), V('PC')
XMIN, YMIN, BSX, BSY = V('XMIN'), V('YMIN'), V('BSX'), V('BSY')
GRID = Opaque('GRID', (), 'list')
ADJ = Opaque('ADJ', (), 'list')
LOOKUP = Opaque('LOOKUP', (), 'list')
VERTS = Opaque('VERTS', (), 'list')
QUERY = Tup((V('qx'), V('qy')))


def base_state(reverse=None):
    st = State()
    for f, v in (('xmin', XMIN), ('ymin', YMIN), ('bin_size_x', BSX), ('bin_size_y', BSY),
                 ('bins_per_side', B), ('path_count', PC), ('grid', GRID), ('adjacents', ADJ),
                 ('lookup', LOOKUP), ('vertices', VERTS)):
        st.fields[('self', f)] = v
    st.fields[('self', 'reverse')] = Opaque('REVERSE', (), 'bool') if reverse is None else \
        Const(reverse)
    return st


class GridHooks(OneIterMixin, Hooks):
    def __init__(self, elems=None):
        self.init_one_iter()
        self.elems = elems or {}

    def loop(self, interp, node, st):
        return self.one_iter_loop(interp, node, st)

    def inline(self, fn, depth):
        return fn.qualname != 'plot_utils.square_dist' and depth < 8

    def make_elem(self, node, it, st):
        tgt = ast.unparse(node.target)
        for key, val in self.elems.items():
            if key == tgt or (callable(key) and key(node)):
                return val
        return None


class _GuardNotPositional(Exception):
    """A guard of find_adjacents is not an affine test of the column / row position."""


def run_method(prog, cls, name, kwargs, st, hooks, max_paths=50000):
    it = Interp(prog, hooks, max_paths=max_paths)
    it.self_cls = cls
    fn = cls.lookup(name)
    if fn is None:
        raise AnalysisError('anchor method spatial_grid.Index.%s vanished' % name)
    return fn, it.run(fn, [], kwargs, st=st, self_obj=ObjRef('self', cls))


MODELLED_FIELDS = ('xmin', 'ymin', 'bin_size_x', 'bin_size_y', 'bins_per_side', 'path_count',
                   'grid', 'adjacents', 'lookup', 'vertices', 'reverse')


def check_history_state(ck, cls):
    """The model of the index is the field vocabulary of base_state(): grid, lookup, adjacents,
    geometry.  A field outside it that nearest/remove_path (or the methods they reach through
    self) *store* and that nearest *reads* is state kept across calls - a memo, a cursor: the
    answer then depends on the history of queries, and whether that state is kept valid under
    removals is not something the per-call shape analysis below sees (it would start every call
    from the class-level default).  Stop rather than pass."""
    def reach(name):
        fn0 = cls.lookup(name)
        seen, todo = {}, [fn0] if fn0 is not None else []
        while todo:
            f = todo.pop()
            if f.qualname in seen:
                continue
            seen[f.qualname] = f
            for n in ast.walk(f.node):
                if isinstance(n, ast.Call) and isinstance(n.func, ast.Attribute) and \
                        isinstance(n.func.value, ast.Name) and n.func.value.id == 'self':
                    m = cls.lookup(n.func.attr)
                    if m is not None:
                        todo.append(m)
        return list(seen.values())

    def attrs(fns, ctx):
        out = {}
        for f in fns:
            for n in ast.walk(f.node):
                if isinstance(n, ast.Attribute) and isinstance(n.value, ast.Name) and \
                        n.value.id == 'self' and isinstance(n.ctx, ctx):
                    out.setdefault(n.attr, f.loc(n))
                elif isinstance(n, ast.Call) and isinstance(n.func, ast.Name) and \
                        n.func.id in (('setattr',) if ctx is ast.Store else ('getattr', 'hasattr')) \
                        and len(n.args) >= 2 and isinstance(n.args[0], ast.Name) and \
                        n.args[0].id == 'self':
                    nm = n.args[1].value if isinstance(n.args[1], ast.Constant) else '<computed>'
                    out.setdefault(nm, f.loc(n))
        return out
    near, rem = reach('nearest'), reach('remove_path')
    stored = attrs(near + rem, ast.Store)
    read = attrs(near, ast.Load)
    kept = sorted(a for a in stored if a in read and a not in MODELLED_FIELDS)
    ck.saw('fields', 'stored by nearest/remove_path: %s' % (sorted(stored) or 'none'))
    if kept:
        raise AnalysisError(
            'spatial_grid.Index.nearest consults self.%s (%s), which nearest/remove_path store '
            '(%s): the answer depends on earlier calls (a remembered result, a cursor), and '
            'whether that state stays valid when paths are removed is outside the per-call model '
            'of this check (fields %s)' % (kept[0], read[kept[0]], stored[kept[0]],
                                           ', '.join(MODELLED_FIELDS)))


def cell_form(x, y, xmin, ymin, bsx, bsy, query=False):
    xb = mk_func('MIN', mk_func('FLOOR', (x - xmin) / bsx), B - 1)
    yb = mk_func('MIN', mk_func('FLOOR', (y - ymin) / bsy), B - 1)
    if query:
        xb, yb = mk_func('MAX', xb, 0), mk_func('MAX', yb, 0)
    return xb + B * yb


# ---------------------------------------------------------------------------- D1 adjacency
COL_CASES = ('only', 'first', 'interior', 'last')


class AdjCase(GridHooks):
    """x_col / y_row symbolic; comparisons decided from the position case of column and row."""

    def __init__(self, ccase, rcase):
        GridHooks.__init__(self)
        self.ccase, self.rcase = ccase, rcase
        self.undecided = []

    def make_elem(self, node, it, st):
        names = [n.id for n in ast.walk(node.target) if isinstance(n, ast.Name)]
        if len(names) == 1 and isinstance(it, Opaque) and it.label == 'range':
            # outer loop variable = row, inner = column: decided by which is nested
            return V('@' + names[0])
        return None

    def decide(self, cond, st):
        if not (isinstance(cond, Cmp) and isinstance(cond.a, Sym) and isinstance(cond.b, Sym)
                and cond.b == Sym.const(0)):
            return None
        atoms = [a for a in cond.a.atoms() if a != ('v', 'B')]
        if len(atoms) != 1 or atoms[0][0] != 'v' or not atoms[0][1].startswith('@'):
            return self.gave_up(cond)
        var = atoms[0]
        case = self.cases.get(var[1])
        if case is None:
            return self.gave_up(cond)
        r = decide_position(cond, var, case)
        if r is None:
            return self.gave_up(cond)
        return r

    abort_on_undecided = False

    def gave_up(self, cond):
        self.undecided.append(cond)
        if self.abort_on_undecided:
            # every further fork only multiplies paths the caller will discard
            raise _GuardNotPositional(cond)
        return None


def decide_position(cond, var, case):
    """Truth of (a*v + b*B + c) op 0 for v at position `case` of a range of B cells."""
    e = cond.a
    if not e.is_poly():
        return None
    try:
        c00 = e.subs({var: Sym.const(0), ('v', 'B'): Sym.const(0)})
        c10 = e.subs({var: Sym.const(1), ('v', 'B'): Sym.const(0)})
        c01 = e.subs({var: Sym.const(0), ('v', 'B'): Sym.const(1)})
        c11 = e.subs({var: Sym.const(1), ('v', 'B'): Sym.const(1)})
    except ZeroDivisionError:
        return None
    if not all(x.is_const() for x in (c00, c10, c01, c11)):
        return None
    c = c00.const_value()
    a = c10.const_value() - c
    b = c01.const_value() - c
    if c11.const_value() != a + b + c:
        return None          # not affine
    holds = {'<': lambda v: v < 0, '<=': lambda v: v <= 0, '>': lambda v: v > 0,
             '>=': lambda v: v >= 0, '==': lambda v: v == 0, '!=': lambda v: v != 0}[cond.op]
    inf = float('inf')

    def ray(v0, d):
        """values of the affine form from vertex value v0 along a ray with slope d: (min, max)."""
        if d == 0:
            return v0, v0
        return (v0, inf) if d > 0 else (-inf, v0)
    if case == 'only':           # v = 0, B = 1
        lo = hi = b + c
    elif case == 'first':        # v = 0, B >= 2
        lo, hi = ray(2 * b + c, b)
    elif case == 'last':         # v = B - 1, B >= 2
        lo, hi = ray(a + 2 * b + c, a + b)
    else:                        # 1 <= v <= B - 2, B >= 3: vertex (1,3), rays (0,1) and (1,1)
        v0 = a + 3 * b + c
        l1, h1 = ray(v0, b)
        l2, h2 = ray(v0, a + b)
        lo, hi = min(l1, l2), max(h1, h2)
    t_lo, t_hi = holds(lo), holds(hi)
    if cond.op in ('==', '!='):
        if lo == hi:
            return holds(lo)
        if lo > 0 or hi < 0:
            return cond.op == '!='
        return None
    return t_lo if t_lo == t_hi else None


def expected_neighbours(ccase, rcase):
    dxs = {'only': [0], 'first': [0, 1], 'interior': [-1, 0, 1], 'last': [-1, 0]}[ccase]
    dys = {'only': [0], 'first': [0, 1], 'interior': [-1, 0, 1], 'last': [-1, 0]}[rcase]
    return {(dx, dy) for dx in dxs for dy in dys} - {(0, 0)}


def adjacency_init(prog, cls, fn):
    """How the adjacency lists are created: returns True if list c starts as [c], False if it
    starts empty; AnalysisError for any other shape."""
    for node in ast.walk(fn.node):
        if isinstance(node, ast.Assign) and any(
                isinstance(t, ast.Attribute) and t.attr == 'adjacents' for t in node.targets):
            v = node.value
            if isinstance(v, ast.ListComp) and len(v.generators) == 1 and \
                    isinstance(v.elt, ast.List) and len(v.elt.elts) <= 1 and \
                    isinstance(v.generators[0].target, ast.Name) and not v.generators[0].ifs:
                if v.elt.elts and not (isinstance(v.elt.elts[0], ast.Name) and
                                       v.elt.elts[0].id == v.generators[0].target.id):
                    continue
                it = Interp(prog, Hooks())
                it.self_cls = cls
                it.stack.append(fn)
                st = base_state()
                st.env['self'] = ObjRef('self', cls)
                # locals defined before the assignment (e.g. cell_count) are evaluated by running
                # the statements that precede it
                pre = []
                for stmt in fn.body():
                    if stmt is node:
                        break
                    pre.append(stmt)
                outs = list(it.exec_block(pre, st))
                if len(outs) != 1:
                    continue
                vals = list(it.ev(v.generators[0].iter, outs[0].state))
                if len(vals) == 1 and isinstance(vals[0][0], Opaque) and vals[0][0].label == 'range' \
                        and vals[0][0].args in ((B * B,), (Sym.const(0), B * B)):
                    return bool(v.elt.elts)
    raise AnalysisError('%s: the adjacency lists are not created as one list per cell '
                        '([[c] or [] for c in range(bins*bins)])' % fn.qualname)


def check_adjacents(ck, prog, cls, deep=False):
    fn = cls.lookup('find_adjacents')
    if fn is None:
        raise AnalysisError('anchor method find_adjacents vanished')
    q = fn.qualname
    try:
        has_self = adjacency_init(prog, cls, fn)
    except AnalysisError as exc:
        # the lists are built some other way (one local list per cell appended to the table, a
        # comprehension per cell, ...): only the concrete small-grid search can say anything
        ck.saw('adjacency_fallback', str(exc))
        witness_adjacency(ck, prog, cls, fn, None)
        return
    n_cases = 0
    fallback = False
    # the position-case analysis below either understands the loop nest or hands over to the
    # concrete small-grid search: constructs it cannot model (a linear index split by divmod,
    # ...) decide for the hand-over and are not gaps of the verdict the search then gives
    from ..interp import suspended_gaps, GAP_EVENTS
    sg = suspended_gaps()
    sg.__enter__()
    n_gaps0 = len(GAP_EVENTS)
    try:
        fallback = _adjacency_cases(ck, prog, cls, fn, q, has_self, deep)
        if any(g[0] != 'loop' for g in GAP_EVENTS[n_gaps0:]):
            fallback = True
    finally:
        sg.__exit__(None, None, None)
    if fallback is None:
        return
    if fallback:
        witness_adjacency(ck, prog, cls, fn, has_self)
    elif deep:
        witness_adjacency(ck, prog, cls, fn, has_self, cross_check=True)


def _adjacency_cases(ck, prog, cls, fn, q, has_self, deep):
    n_cases = 0
    fallback = False
    pending_obs = []
    for ccase, rcase in itertools.product(COL_CASES, COL_CASES):
        if (ccase == 'only') != (rcase == 'only'):
            continue           # a 1x1 grid has one row and one column
        results = None
        bad_nest = None
        for swap in (False, True):
            # first pass discovers the two loops over range(bins); which variable is the column
            # is determined by the linearisation column + row*bins
            probe = AdjCase(ccase, rcase)
            probe.cases = {}
            try:
                # only the loop structure is wanted from this pass (nothing is decided in it)
                run_method(prog, cls, 'find_adjacents', {}, base_state(), probe, max_paths=400)
            except AnalysisError:
                pass
            rng = [r for r in probe.loop_records if isinstance(r.iter_value, Opaque) and
                   r.iter_value.label == 'range' and r.iter_value.args in ((B,), (Sym.const(0), B))]
            nodes = []
            for r in rng:
                if r.node not in nodes:
                    nodes.append(r.node)
            if len(nodes) != 2:
                bad_nest = 'expected two nested loops over range(bins_per_side), found %d' % len(nodes)
                break
            outer_n, inner_n = nodes
            if inner_n not in list(ast.walk(outer_n)):
                outer_n, inner_n = inner_n, outer_n
            if inner_n not in list(ast.walk(outer_n)) or inner_n is outer_n:
                bad_nest = 'the loops over rows and columns are not nested'
                break
            outer_v = [n.id for n in ast.walk(outer_n.target) if isinstance(n, ast.Name)][0]
            inner_v = [n.id for n in ast.walk(inner_n.target) if isinstance(n, ast.Name)][0]
            col, row = (outer_v, inner_v) if swap else (inner_v, outer_v)
            hk = AdjCase(ccase, rcase)
            hk.cases = {'@' + col: ccase, '@' + row: rcase}
            hk.abort_on_undecided = True
            try:
                run_method(prog, cls, 'find_adjacents', {}, base_state(), hk)
            except _GuardNotPositional:
                results = (set(), hk, 0)
                break
            appended = set()
            base_idx = V('@' + col) + V('@' + row) * B
            ok_lin = True
            n_paths = 0
            for rec in hk.loop_records:
                if rec.node is not inner_n:
                    continue
                for b_out in rec.bodies:
                    n_paths += 1
                    for e in b_out.state.effects[len(rec.entry.effects):]:
                        if e.kind == 'call' and isinstance(e.target, Bound) and \
                                e.target.name == 'append' and len(e.args) == 1:
                            tgt = e.target.obj
                            if not (isinstance(tgt, Opaque) and tgt.label == 'item' and
                                    isinstance(tgt.args[1], Sym)):
                                continue
                            if tgt.args[1] != base_idx:
                                ok_lin = False
                            d = e.args[0] - base_idx if isinstance(e.args[0], Sym) else None
                            off = ('?', repr(e.args[0]))
                            if d is not None:
                                for dx in (-2, -1, 0, 1, 2):
                                    for dy in (-2, -1, 0, 1, 2):
                                        if d == Sym.const(dx) + B * dy:
                                            off = (dx, dy)
                            appended.add(off)
            if ok_lin:
                results = (appended, hk, n_paths)
                break
        inst = '%s[column %s, row %s]' % (q, ccase, rcase)
        if bad_nest:
            # the row / column loop nest was not found: decide by small concrete grids instead
            ck.saw('adjacency_fallback', '%s: %s' % (q, bad_nest))
            fallback = True
            break
        if results is None:
            ck.ob('C13-D1-linearisation', inst, False,
                  '%s: the cell whose list is extended is not column + row*bins_per_side' % q,
                  fn.loc(), key=q + '::linearisation')
            continue
        appended, hk, n_paths = results
        if hk.undecided or n_paths != 1:
            fallback = True
            continue
        if has_self:
            appended = appended | {(0, 0)}
        want = expected_neighbours(ccase, rcase) | {(0, 0)}
        n_cases += 1
        ck.ob('C13-D1-adjacency', inst, appended == want,
              '%s: a cell in the %s column and %s row gets the neighbourhood offsets %s; the '
              'in-range cells of its 3x3 block (itself included) are %s'
              % (q, ccase, rcase, sorted(appended, key=repr), sorted(want)), fn.loc(),
              key=q + '::adjacency')
    if not fallback:
        ck.floor('adjacency position cases', n_cases, 10)
    return fallback


def witness_adjacency(ck, prog, cls, fn, has_self=True, cross_check=False):
    """Fallback when a guard of find_adjacents is not an affine position test: look for a concrete
    small grid on which the extracted lists are wrong.  A witness is a genuine violation; finding
    none proves nothing, so the check then reports that it cannot conclude."""
    q = fn.qualname
    fors = [n for n in ast.walk(fn.node) if isinstance(n, ast.For)]

    class Concrete(Hooks):
        def field(self, obj, name, st):
            # keep the adjacency container opaque so that every append is an effect on
            # item(ADJ, <cell>) whatever the code bound to self.adjacents
            return ADJ if name == 'adjacents' else None
    for bins in range(1, 6):
        st = base_state()
        st.fields[('self', 'bins_per_side')] = Sym.const(bins)
        # (a) the table the function leaves behind, when the interpreter can follow its
        # construction to a literal list of lists of numbers on this concrete grid
        it0 = Interp(prog, Hooks(), max_paths=200000)
        it0.self_cls = cls
        st_a = st.copy()
        st_a.fields.pop(('self', 'adjacents'), None)
        outs0 = it0.run(fn, [], {}, st=st_a, self_obj=ObjRef('self', cls))
        table = None
        # (only when the one-list-per-cell creation was not recognised: there the appends are read
        # as effects on an opaque table, which does not depend on how far the interpreter can
        # follow updates of a list held in a field)
        if has_self is None and len(outs0) == 1 and outs0[0].kind in ('return', 'fall'):
            tv = outs0[0].state.fields.get(('self', 'adjacents'))
            if isinstance(tv, Tup) and len(tv.items) == bins * bins and all(
                    isinstance(l_, Tup) and all(isinstance(x_, Sym) and x_.is_const()
                                                for x_ in l_.items) for l_ in tv.items):
                table = {c: {int(x_.const_value()) for x_ in l_.items}
                         for c, l_ in enumerate(tv.items)}
        if table is None and has_self is None:
            raise AnalysisError('%s: the adjacency table is neither created as one list per cell '
                                'nor followed to a literal table on a %dx%d grid; cannot conclude'
                                % (q, bins, bins))
        it = Interp(prog, Concrete(), max_paths=200000)
        it.self_cls = cls
        outs = it.run(fn, [], {}, st=st, self_obj=ObjRef('self', cls)) if table is None else []
        got = {c: ({c} if has_self else set()) for c in range(bins * bins)}
        if table is not None:
            got = table
        for o in outs:
            for e in o.state.effects:
                if e.kind == 'call' and isinstance(e.target, Bound) and e.target.name == 'append':
                    tgt = e.target.obj
                    if isinstance(tgt, Opaque) and tgt.label == 'item' and isinstance(tgt.args[1], Sym) \
                            and tgt.args[1].is_const() and isinstance(e.args[0], Sym) and \
                            e.args[0].is_const():
                        got.setdefault(int(tgt.args[1].const_value()), set()).add(
                            int(e.args[0].const_value()))
        for c in range(bins * bins):
            x, y = c % bins, c // bins
            want = {(x + dx) + (y + dy) * bins for dx in (-1, 0, 1) for dy in (-1, 0, 1)
                    if 0 <= x + dx < bins and 0 <= y + dy < bins}
            if got.get(c, set()) != want:
                ck.ob('C13-D1-adjacency', '%s[witness bins=%d cell=%d]' % (q, bins, c), False,
                      '%s: on a %dx%d grid cell %d (column %d, row %d) gets the neighbourhood %s; '
                      'its 3x3 block is %s' % (q, bins, bins, c, x, y, sorted(got.get(c, set())),
                                               sorted(want)), fn.loc(), key=q + '::adjacency')
                return
    if cross_check:
        ck.ob('C13-D1-adjacency', '%s[small-grid cross-check, bins 1..5]' % q, True)
        return
    raise AnalysisError('%s: a guard is not an affine position test and no small-grid witness of '
                        'a wrong neighbourhood exists; cannot conclude' % q)


def mentions_label(v, label):
    """True if the term contains the opaque value standing for an attribute that was never bound
    on self (i.e. the class-level object)."""
    if isinstance(v, Opaque):
        return v.label == label or any(mentions_label(a, label) for a in v.args)
    if isinstance(v, Bound):
        return mentions_label(v.obj, label)
    if isinstance(v, Tup):
        return any(mentions_label(a, label) for a in v.items)
    if isinstance(v, tuple):
        return any(mentions_label(a, label) for a in v)
    return False


# ---------------------------------------------------------------------------- constructor
def strip_max0(v):
    """MAX(e, 0) -> e, outermost and on the column / row terms of e."""
    if not isinstance(v, Sym):
        return v
    changed = True
    while changed:
        changed = False
        for at in v.all_atoms():
            if at[0] == 'f' and at[1] == 'MAX' and len(at[2]) == 2 and \
                    any(a == Sym.const(0) for a in at[2]):
                other = [a for a in at[2] if a != Sym.const(0)]
                if len(other) == 1:
                    v = v.subs({at: other[0]})
                    changed = True
                    break
    return v


def check_init(ck, prog, cls):
    fn = cls.lookup('__init__')
    q = fn.qualname
    x1, y1, x2, y2, k = V('x1'), V('y1'), V('x2'), V('y2'), V('k')
    pair = Tup((Tup((x1, y1), 'list'), Tup((x2, y2), 'list')), 'list')
    for reverse in (False, True):
        hk = GridHooks()

        def make_elem(node, it, st, hk=hk):
            # the element of a loop over the vertices / over enumerate(vertices), whatever the
            # shape of the loop target
            if isinstance(it, Opaque) and it.label == 'param:vertices':
                return pair
            if isinstance(it, Opaque) and it.label == 'enumerate' and it.args and \
                    isinstance(it.args[0], Opaque) and it.args[0].label == 'param:vertices':
                return Tup((k, pair))
            names = [n.id for n in ast.walk(node.target) if isinstance(n, ast.Name)]
            if len(names) == 4:
                return pair
            if len(names) == 5:
                return Tup((k, pair))
            return None
        hk.make_elem = make_elem
        st = State()
        verts = Opaque('param:vertices', (), 'list')
        _, outs = run_method(prog, cls, '__init__', {'vertices': verts, 'bins_per_side': B,
                                                     'reverse': Const(reverse)}, st, hk)
        outs = [o for o in outs if o.kind in ('return', 'fall')]
        if len(outs) != 1:
            raise AnalysisError('%s(reverse=%s): %d paths' % (q, reverse, len(outs)))
        fin = outs[0].state
        tag = 'reverse=%s' % reverse
        recs = [r for r in hk.loop_records if r.node in list(ast.walk(fn.node))
                and isinstance(r.node, ast.For)]
        extent = [r for r in recs if r.elem == pair]
        fill = [r for r in recs if isinstance(r.elem, Tup) and r.elem == Tup((k, pair))]
        if len(extent) != 1 or len(fill) != 1:
            raise AnalysisError('%s: expected one extent loop and one fill loop over the vertices '
                                '(found %d / %d)' % (q, len(extent), len(fill)))
        ext, fil = extent[0], fill[0]
        for r in (ext, fil):
            src = r.iter_value
            ok_src = src == verts or (isinstance(src, Opaque) and src.label == 'enumerate' and
                                      src.args == (verts,))
            ck.ob('C13-D2-loops-over-all-paths', '%s@%d[%s]' % (q, r.line, tag), ok_src,
                  '%s: the loop at line %d does not range over all vertices' % (q, r.line),
                  fn.loc(r.node), key=q + '::loop-source')
        # ---- extent fold (D2)
        if len(ext.bodies) != 1:
            raise AnalysisError('%s: extent loop body has %d paths' % (q, len(ext.bodies)))
        post = ext.bodies[0].state
        names = {}
        for nm, sym in ext.sym_in.items():
            val = post.fields.get(('self', nm[5:])) if nm.startswith('self.') else post.env.get(nm)
            names[nm] = (sym, val)
        folds = {}
        for nm, (sym, val) in names.items():
            if not isinstance(val, Sym) or not isinstance(sym, Sym):
                continue
            at = val.as_atom()
            if val == sym:
                continue
            if at is not None and at[0] == 'f' and at[1] in ('MIN', 'MAX'):
                args = list(at[2])
                rest = [a for a in args if a != sym]
                if len(rest) == len(args) - 1:
                    folds[nm] = (at[1], {repr(a) for a in rest})
        want_coords = {'x': {'x1'} | ({'x2'} if reverse else set()),
                       'y': {'y1'} | ({'y2'} if reverse else set())}
        got = {}
        for nm, (kind, coords) in folds.items():
            got[(kind, tuple(sorted(coords)))] = nm
        expect = {('MIN', tuple(sorted(want_coords['x']))), ('MAX', tuple(sorted(want_coords['x']))),
                  ('MIN', tuple(sorted(want_coords['y']))), ('MAX', tuple(sorted(want_coords['y'])))}
        ck.ob('C13-D2-extent-fold', '%s[%s]' % (q, tag), set(got) == expect and len(folds) == 4,
              '%s (%s): the extent loop folds %s; every start vertex%s must enter min and max of '
              'its own coordinate' % (q, tag, sorted((k_, sorted(c)) for k_, c in folds.values()),
                                      ' and every end vertex' if reverse else ' (and no end vertex)'),
              fn.loc(ext.node), key=q + '::extent-fold')
        if set(got) != expect:
            continue
        xmin_n, xmax_n = got[('MIN', tuple(sorted(want_coords['x'])))], got[('MAX', tuple(sorted(want_coords['x'])))]
        ymin_n, ymax_n = got[('MIN', tuple(sorted(want_coords['y'])))], got[('MAX', tuple(sorted(want_coords['y'])))]
        # start values +-inf
        ent = ext.entry

        def entry_val(nm):
            return ent.fields.get(('self', nm[5:])) if nm.startswith('self.') else ent.env.get(nm)
        INF = V('INF')
        ck.ob('C13-D2-extent-start', '%s[%s]' % (q, tag),
              entry_val(xmin_n) == INF and entry_val(ymin_n) == INF and
              entry_val(xmax_n) == -INF and entry_val(ymax_n) == -INF,
              '%s: the extrema do not start from +inf (minima) / -inf (maxima)' % q,
              fn.loc(ext.node), key=q + '::extent-start')
        # ---- shim and bin sizes, evaluated at the fill loop entry
        fe = fil.entry

        def out_sym(nm):
            return ext.sym_out[nm]
        X0, X1, Y0, Y1 = out_sym(xmin_n), out_sym(xmax_n), out_sym(ymin_n), out_sym(ymax_n)
        f_xmin, f_ymin = fe.fields.get(('self', 'xmin')), fe.fields.get(('self', 'ymin'))
        f_bsx, f_bsy = fe.fields.get(('self', 'bin_size_x')), fe.fields.get(('self', 'bin_size_y'))
        ok_shim = False
        detail = ''
        if all(isinstance(v, Sym) for v in (f_xmin, f_ymin, f_bsx, f_bsy)):
            sx, sy = X0 - f_xmin, Y0 - f_ymin
            ext_sum = (X1 - X0) + (Y1 - Y0)
            ratio = sx / ext_sum if not ext_sum.num.is_zero() else None
            ok_shim = sx == sy and ratio is not None and ratio.is_const() and \
                ratio.const_value() > 0
            if ok_shim:
                ok_bins = f_bsx == ((X1 + sx) - (X0 - sx)) / B and f_bsy == ((Y1 + sy) - (Y0 - sy)) / B
                ck.ob('C13-D2-bin-size', '%s[%s]' % (q, tag), ok_bins,
                      '%s: bin sizes are %s, %s; expected (max + shim - (min - shim)) / bins per '
                      'axis with the same shim on all four sides' % (q, f_bsx, f_bsy),
                      fn.loc(), key=q + '::bin-size')
            detail = 'x shim %s, y shim %s' % (sx, sy)
        ck.ob('C13-D2-shim', '%s[%s]' % (q, tag), ok_shim,
              '%s: the grid origin is not the folded minimum minus one common positive shim '
              'proportional to the extent (%s)' % (q, detail), fn.loc(), key=q + '::shim')
        # ---- fill loop: ids, cells, lookup pairing (D2, D3, D4)
        if len(fil.bodies) != 1:
            raise AnalysisError('%s: fill loop body has %d paths' % (q, len(fil.bodies)))
        body = fil.bodies[0].state
        pcount = fe.fields.get(('self', 'path_count'))
        grid_v = fe.fields.get(('self', 'grid'))
        lookup_v = fe.fields.get(('self', 'lookup'))
        appends, stores = [], []
        start_at = len(fe.effects)
        for e in body.effects[start_at:]:
            if e.kind == 'call' and isinstance(e.target, Bound) and e.target.name == 'append':
                tgt = e.target.obj
                if isinstance(tgt, Opaque) and tgt.label == 'item' and tgt.args[0] == grid_v:
                    appends.append((tgt.args[1], e.args[0]))
                else:
                    appends.append((None, e.args[0] if e.args else None))
            elif e.kind == 'store' and isinstance(e.target, tuple) and e.target[0] == 'item' and \
                    e.target[1] == lookup_v:
                stores.append((e.target[2], e.args[0]))
            elif e.kind in ('store', 'call') and e.kind == 'store':
                stores.append((None, None))
        if not all(isinstance(v, Sym) for v in (f_xmin, f_ymin, f_bsx, f_bsy)):
            raise AnalysisError('%s: grid origin / bin size are not numeric forms' % q)
        want = [(cell_form(x1, y1, f_xmin, f_ymin, f_bsx, f_bsy), k)]
        if reverse:
            want.append((cell_form(x2, y2, f_xmin, f_ymin, f_bsx, f_bsy), pcount + k))
        # every stored coordinate is >= the folded minimum, so column, row and cell are >= 0 in
        # the writer: an additional lower clamp MAX(., 0) there changes nothing
        appends = [(strip_max0(c), i) for c, i in appends]
        stores = [(i, strip_max0(c)) for i, c in stores]
        ck.ob('C13-D3-writer-ids', '%s[%s]' % (q, tag),
              [(repr(c), repr(i)) for c, i in appends] == [(repr(c), repr(i)) for c, i in want],
              '%s (%s) stores (cell, id) = %s; expected the start of path k as id k in the cell of '
              'vertices[k][0]%s, cells = min(floor((coord - min)/bin_size), bins-1), x + bins*y'
              % (q, tag, [(repr(c), repr(i)) for c, i in appends],
                 ' and its end as id path_count + k in the cell of vertices[k][1]' if reverse
                 else ' only'), fn.loc(fil.node), key=q + '::writer-ids')
        ck.ob('C13-D4-lookup-pairing', '%s[%s]' % (q, tag),
              [(repr(i), repr(c)) for i, c in stores] == [(repr(i), repr(c)) for c, i in want],
              '%s (%s) records lookup[id] = cell as %s; every id appended to a cell must be '
              'recorded under the same id with the same cell' % (
                  q, tag, [(repr(i), repr(c)) for i, c in stores]),
              fn.loc(fil.node), key=q + '::lookup-pairing')
        ck.ob('C13-D3-path-count', '%s[%s]' % (q, tag),
              pcount == Sym.func('LEN', V('<param:vertices>')),
              '%s: path_count is not len(vertices)' % q, fn.loc(), key=q + '::path-count')
        # lookup size
        size_ok = False
        for node in ast.walk(fn.node):
            if isinstance(node, ast.Assign) and any(
                    isinstance(t, ast.Attribute) and t.attr == 'lookup' for t in node.targets):
                pass
        lv = lookup_v
        if isinstance(lv, Opaque) and lv.label.startswith('comp@'):
            # find the comprehension node and evaluate its iteration space
            for node in ast.walk(fn.node):
                if isinstance(node, ast.ListComp) and node.lineno == int(lv.label[5:]):
                    it = Interp(prog, Hooks())
                    it.stack.append(fn)
                    s2 = fe.copy()
                    vals = list(it.ev(node.generators[0].iter, s2))
                    if len(vals) == 1 and isinstance(vals[0][0], Opaque) and \
                            vals[0][0].label == 'range':
                        n = vals[0][0].args[-1] if len(vals[0][0].args) <= 2 else None
                        size_ok = isinstance(n, Sym) and n == (2 * pcount if reverse else pcount)
        ck.ob('C13-D4-lookup-size', '%s[%s]' % (q, tag), size_ok,
              '%s (%s): lookup is not sized %s' % (q, tag, '2*path_count' if reverse else 'path_count'),
              fn.loc(), key=q + '::lookup-size')
        # D6: class-level lists re-bound before mutation
        for attr in ('grid', 'adjacents', 'lookup'):
            bad = [e for e in fin.effects if e.kind in ('call', 'store', 'del') and
                   not isinstance(e.target, str) and mentions_label(e.target, 'self.' + attr)]
            ck.ob('C13-D6-no-shared-state', '%s::%s[%s]' % (q, attr, tag), not bad,
                  '%s mutates the class-level list Index.%s in place before binding a fresh list '
                  'on self: all Index objects would share it' % (q, attr), fn.loc(),
                  key=q + '::shared:' + attr)


# ---------------------------------------------------------------------------- nearest
def decode_table(rec, hooks_name='path_index'):
    """From one iteration of an inner scan: list of (branch truth of id >= PC, vertex term,
    dist term, (best_dist', best_index') per update truth)."""
    rows = []
    for b in rec.bodies:
        if b.kind not in ('fall', 'continue'):
            rows.append(('exit', b.kind))
            continue
        rows.append(b)
    return rows


def check_nearest(ck, prog, cls):
    hk = GridHooks()
    fn, outs = run_method(prog, cls, 'nearest', {'vertex_in': QUERY}, base_state(), hk)
    q = fn.qualname
    recs = hk.loop_records
    def strictly_inside(a, b):
        return a is not b and a in list(ast.walk(b))
    outer = [r for r in recs if not any(strictly_inside(r.node, o.node) for o in recs)]
    inner = [r for r in recs if r not in outer]
    if len(outer) != 2 or len(inner) != 2:
        raise AnalysisError('%s: expected two scans, each a loop over cells with a loop over the '
                            'ids of a cell (found %d outer, %d inner loops)' % (q, len(outer), len(inner)))
    # records are appended when a loop finishes: scan 1 (inner, outer), then scan 2
    qcell = cell_form(V('qx'), V('qy'), XMIN, YMIN, BSX, BSY, query=True)
    # ---- scan 1 ranges over the adjacency list of the query cell (D2 reader side)
    it1 = outer[0].iter_value
    src = it1
    if isinstance(src, Opaque) and src.label in ('m:copy', 'list') and src.args:
        src = src.args[0]
    ok = isinstance(src, Opaque) and src.label == 'item' and src.args[0] == ADJ and \
        isinstance(src.args[1], Sym) and src.args[1] == qcell
    ck.ob('C13-D2-query-cell', q, ok,
          '%s: the first scan ranges over %r; expected adjacents[c] with c = max(min(floor((qx - '
          'xmin)/bin_size_x), bins-1), 0) + bins*(same in y) - the cell formula of the '
          'constructor, clamped to the grid' % (q, it1), fn.loc(outer[0].node), key=q + '::query-cell')
    nb = it1
    # ---- fallback ranges over all cells, skipping the neighbourhood
    it2 = outer[1].iter_value
    n_cells = Sym.func('LEN', V('<ADJ>'))
    prefiltered = False
    if isinstance(it2, Opaque) and it2.label.startswith('comp@') and len(it2.args) == 3:
        # [c for c in range(n) if c not in neighbourhood]: same cells, filtered beforehand
        src_it, elt_v, cond_v = it2.args
        var = Opaque('compvar@' + it2.label[5:], (src_it,))
        cc, neg_ = (cond_v.c, True) if isinstance(cond_v, NotC) else (cond_v, False)
        if elt_v == var and isinstance(cc, In) and neg_ and cc.item == var and cc.container == nb:
            prefiltered = True
            it2 = src_it
    ok_all = isinstance(it2, Opaque) and it2.label == 'range' and (
        it2.args in ((n_cells,), (Sym.const(0), n_cells), (B * B,), (Sym.const(0), B * B)) or
        it2.args == (Sym.func('LEN', V('<GRID>')),))
    ck.ob('C13-D5-fallback-range', q, ok_all,
          '%s: the fallback scan ranges over %r, not over every cell of the grid' % (q, it2),
          fn.loc(outer[1].node), key=q + '::fallback-range')
    cell2 = outer[1].elem
    skip_ok = True
    for b in ([] if prefiltered else outer[1].bodies):
        conds = [(c, t) for c, t in b.state.path if isinstance(c, In) or (
            isinstance(c, NotC) and isinstance(c.c, In))]
        ran_inner = any(e.kind == 'loop-enter' and e.target == inner[1].line
                        for e in b.state.effects[len(outer[1].entry.effects):])
        member = None
        for c, t in conds:
            cc, tt = (c.c, not t) if isinstance(c, NotC) else (c, t)
            if cc.item == cell2 and cc.container == nb:
                member = tt
        if member is None:
            skip_ok = False
        elif member and ran_inner:
            skip_ok = False
        elif not member and not ran_inner:
            skip_ok = False
    ck.ob('C13-D5-fallback-skips-only-neighbourhood', q, skip_ok and bool(outer[1].bodies),
          '%s: the fallback scan does not skip exactly the cells of the neighbourhood already '
          'scanned (each other cell must be scanned)' % q, fn.loc(outer[1].node),
          key=q + '::fallback-skip')
    # ---- inner scans: iterate grid[cell], decode ids, update the running best
    for which, (o_rec, i_rec) in enumerate(zip(outer, inner), 1):
        tag = 'scan %d' % which
        ok_iter = i_rec.iter_value == Opaque('item', (GRID, o_rec.elem))
        ck.ob('C13-D5-scans-live-ids', '%s[%s]' % (q, tag), ok_iter,
              '%s (%s) iterates %r; it must iterate grid[cell] for the scanned cell, so that only '
              'ids currently in the grid (not removed) can be returned' % (q, tag, i_rec.iter_value),
              fn.loc(i_rec.node), key=q + '::scan-source')
        pid = i_rec.elem
        bd_in = i_rec.sym_in.get('best_dist', i_rec.entry.env.get('best_dist'))
        bi_in = i_rec.sym_in.get('best_index', i_rec.entry.env.get('best_index'))
        if bd_in is None or bi_in is None:
            raise AnalysisError('%s: the running best (best_dist, best_index) is not carried by '
                                'the %s loop' % (q, tag))
        n_rows = 0
        for b in i_rec.bodies:
            if b.kind not in ('fall', 'continue'):
                ck.ob('C13-D5-update', '%s[%s]' % (q, tag), False,
                      '%s (%s): an iteration leaves the scan by %s' % (q, tag, b.kind),
                      fn.loc(i_rec.node), key=q + '::scan-exit')
                continue
            n_rows += 1
            path = b.state.path[len(i_rec.entry.path):]
            is_end = None
            upd = None
            dist_term = None
            for c, t in path:
                cc, tt = (c.c, not t) if isinstance(c, NotC) else (c, t)
                if isinstance(cc, Cmp) and cc.b == Sym.const(0) and isinstance(cc.a, Sym):
                    pass
                if isinstance(cc, Cmp):
                    a_, b_ = cc.a, cc.b
                    if a_ == pid and b_ == PC and cc.op in ('>=', '<'):
                        is_end = tt if cc.op == '>=' else not tt
                    elif b_ == bd_in and cc.op in ('<', '<='):
                        upd, dist_term = tt, a_
                    elif a_ == bd_in and cc.op in ('>', '>='):
                        upd, dist_term = tt, b_
                    elif (b_ == bd_in and cc.op in ('>', '>=')) or (a_ == bd_in and cc.op in ('<', '<=')):
                        upd, dist_term = (not tt), (a_ if b_ == bd_in else b_)
                        # dist >= best  <=> not (dist < best): accepted as the complement
                        if cc.op in ('>', '<') and False:
                            pass
            if is_end is None or upd is None:
                ck.ob('C13-D5-update', '%s[%s]' % (q, tag), False,
                      '%s (%s): an iteration does not test id >= path_count and dist < best_dist '
                      '(path %s)' % (q, tag, path), fn.loc(i_rec.node), key=q + '::scan-tests')
                continue
            got_vertex = None
            if isinstance(dist_term, Opaque) and dist_term.label == 'call:plot_utils.square_dist':
                args = dist_term.args
                if len(args) == 2 and QUERY in args:
                    got_vertex = args[1] if args[0] == QUERY else args[0]
            # pid - PC is built by the interpreter as binop on an opaque id: normalise textually
            ok_dec = got_vertex is not None and decode_matches(got_vertex, pid, is_end)
            ck.ob('C13-D3-reader-decoding', '%s[%s, %s id]' % (q, tag, 'end' if is_end else 'start'),
                  ok_dec,
                  '%s (%s): for an id %s path_count the distance is measured to %r; the writer '
                  'stored %s' % (q, tag, '>=' if is_end else '<', got_vertex,
                                 'path id - path_count with vertex [1] (the end)' if is_end else
                                 'the path id itself with vertex [0] (the start)'),
                  fn.loc(i_rec.node), key=q + '::decoding')
            bd_out, bi_out = b.state.env.get('best_dist'), b.state.env.get('best_index')
            if upd:
                ok_u = bd_out == dist_term and bi_out == pid
                msg = 'when the scanned end is closer the running best becomes (%r, %r); it must ' \
                      'become (its distance, its id)' % (bd_out, bi_out)
            else:
                ok_u = bd_out == bd_in and bi_out == bi_in
                msg = 'when the scanned end is not closer the running best changes to (%r, %r)' \
                      % (bd_out, bi_out)
            ck.ob('C13-D5-update', '%s[%s, closer=%s]' % (q, tag, upd), ok_u,
                  '%s (%s): %s' % (q, tag, msg), fn.loc(i_rec.node), key=q + '::update')
        ck.floor('%s decision rows' % tag, n_rows, 4)
        # nothing but the inner loop touches the running best inside the outer body
        for b in o_rec.bodies:
            if b.kind not in ('fall', 'continue'):
                continue
            ran = any(e.kind == 'loop-enter' and e.target == i_rec.line
                      for e in b.state.effects[len(o_rec.entry.effects):])
            exp_d = i_rec.sym_out.get('best_dist') if ran else o_rec.sym_in.get('best_dist')
            exp_i = i_rec.sym_out.get('best_index') if ran else o_rec.sym_in.get('best_index')
            ck.ob('C13-D5-running-best-carried', '%s[%s]' % (q, tag),
                  b.state.env.get('best_dist') == exp_d and b.state.env.get('best_index') == exp_i,
                  '%s (%s): the running best is modified outside the id scan' % (q, tag),
                  fn.loc(o_rec.node), key=q + '::best-carried')
    # ---- start values and hand-over between the scans
    e1 = outer[0].entry.env
    ck.ob('C13-D5-start', q, e1.get('best_dist') == V('INF') and e1.get('best_index') == NONE,
          '%s: the running best does not start at (inf, None): (%r, %r)'
          % (q, e1.get('best_dist'), e1.get('best_index')), fn.loc(), key=q + '::start')
    e2 = outer[1].entry.env
    ck.ob('C13-D5-fallback-keeps-best', q,
          e2.get('best_dist') == outer[0].sym_out.get('best_dist') and
          e2.get('best_index') == outer[0].sym_out.get('best_index'),
          '%s: the fallback scan starts from (%r, %r) instead of the running best of the '
          'neighbourhood scan: an end found there (e.g. id 0, which the truthiness test lets fall '
          'through) is forgotten' % (q, e2.get('best_dist'), e2.get('best_index')),
          fn.loc(outer[1].node), key=q + '::fallback-restarts')
    # ---- returns
    rets = [o for o in outs if o.kind == 'return']
    final = [o for o in rets if any(e.kind == 'loop-exit' and e.target == outer[1].line
                                    for e in o.state.effects)]
    early = [o for o in rets if o not in final]
    ok_early = all(o.value == outer[0].sym_out.get('best_index') for o in early)
    ok_final = all(o.value == outer[1].sym_out.get('best_index') for o in final) and final
    ck.ob('C13-D5-returns', q, ok_early and bool(ok_final) and len(rets) == len(outs),
          '%s: returns %s early and %s finally; the early return may only hand out the best of '
          'the neighbourhood scan and the final return the overall running best'
          % (q, [repr(o.value) for o in early], [repr(o.value) for o in final]), fn.loc(),
          key=q + '::returns')
    for o in early:
        truthy = any(isinstance(c, Truthy) and t and c.v == o.value or
                     (isinstance(c, NotC) and isinstance(c.c, IsNone) and c.c.v == o.value and t) or
                     (isinstance(c, IsNone) and not t and c.v == o.value)
                     for c, t in o.state.path)
        ck.ob('C13-D5-early-return-non-none', q, truthy,
              '%s returns early without having established that a best end was found' % q,
              fn.loc(), key=q + '::early-none')


def decode_matches(v, pid, is_end):
    """v == VERTS[pid][0] (start) or VERTS[pid - PC][1] (end)."""
    if not (isinstance(v, Opaque) and v.label == 'item' and isinstance(v.args[1], Sym)
            and v.args[1].is_const()):
        return False
    fld = int(v.args[1].const_value())
    inner = v.args[0]
    if not (isinstance(inner, Opaque) and inner.label == 'item' and inner.args[0] == VERTS):
        return False
    idx = inner.args[1]
    if not is_end:
        return fld == 0 and idx == pid
    if fld != 1:
        return False
    return isinstance(idx, Opaque) and idx.label == 'binop:Sub' and idx.args == (pid, PC)


# ---------------------------------------------------------------------------- remove_path
def check_remove(ck, prog, cls):
    p = V('p')
    for reverse in (False, True):
        hk = GridHooks()
        fn, outs = run_method(prog, cls, 'remove_path', {'path_index': p}, base_state(reverse), hk)
        q = fn.qualname
        want = [(Opaque('item', (GRID, Opaque('item', (LOOKUP, p)))), p)]
        if reverse:
            want.append((Opaque('item', (GRID, Opaque('item', (LOOKUP, p + PC)))), p + PC))
        for o in outs:
            got, other = [], []
            for e in o.state.effects:
                if e.kind == 'call' and isinstance(e.target, Bound) and e.target.name == 'remove':
                    got.append((e.target.obj, e.args[0] if e.args else None))
                elif e.kind in ('store', 'del', 'call'):
                    other.append('%s %r' % (e.kind, e.target))
            ck.ob('C13-D4-remove', '%s[reverse=%s]' % (q, reverse),
                  o.kind == 'return' and [(repr(a), repr(b)) for a, b in got] ==
                  [(repr(a), repr(b)) for a, b in want] and not other,
                  '%s (reverse=%s) performs %s %s; it must remove p from grid[lookup[p]]%s and '
                  'touch nothing else' % (q, reverse, [(repr(a), repr(b)) for a, b in got], other,
                                          ' and p + path_count from grid[lookup[p + path_count]]'
                                          if reverse else ' only'),
                  fn.loc(), key=q + '::remove')


def check_square_dist(ck, prog):
    fn = prog.func('plot_utils.square_dist')
    a, b = Tup((V('ax'), V('ay'))), Tup((V('bx'), V('by')))
    outs = Interp(prog).run(fn, [a, b])
    want = (V('ax') - V('bx')) ** 2 + (V('ay') - V('by')) ** 2
    ck.ob('C13-D5-distance', fn.qualname, len(outs) == 1 and outs[0].kind == 'return'
          and outs[0].value == want,
          'plot_utils.square_dist is not the squared Euclidean distance', fn.loc(),
          key=fn.qualname + '::form')


def run(ck, prog, tier):
    ck.explanation = (
        'spatial_grid.Index interpreted with every loop taken for one symbolic iteration; the '
        'rules are the inductive steps of index consistency. D1 adjacency per column/row '
        'position case (first/interior/last/only), decided from affine position tests. D2 one '
        'cell formula for constructor (start, end) and query; extent fold, common shim, bin '
        'size. D3 id scheme of writer and reader agree. D4 grid<->lookup pairing, lookup size, '
        'remove_path removes exactly the recorded ids. D5 nearest(): start (inf,None), monotone '
        'update by the scanned id only, neighbourhood then all other cells continuing from the '
        'running best, returns. D6 class-level lists re-bound before mutation.')
    ck.trusted = ['Python ast', 'vf/interp.py', 'vf/loops.py (one-iteration induction)',
                  'list.append/remove/copy semantics']
    ck.assumptions = ['geometric optimality ("true nearest within one cell width") follows from '
                      'D1+D2+D5 by a metric argument that is not mechanised',
                      'floating-point floor at cell borders; zero-extent inputs are excluded by '
                      'the statement']
    cls = prog.cls('spatial_grid.Index')
    poly.INT_VARS.clear()
    try:
        poly.INT_VARS.update(['B', 'PC', 'k', 'p'])
        check_history_state(ck, cls)
        check_adjacents(ck, prog, cls, tier == 'thorough')
        check_init(ck, prog, cls)
        check_nearest(ck, prog, cls)
        check_remove(ck, prog, cls)
        check_square_dist(ck, prog)
    finally:
        poly.INT_VARS.clear()
    # find_adjacents is decided on its own (position cases, or the concrete small-grid search):
    # what the constructor analysis could not model *inside* it while passing through is not a
    # gap of any other rule's verdict
    fa = cls.lookup('find_adjacents')
    if fa is not None:
        from ..interp import GAP_EVENTS
        lo, hi = fa.node.lineno, getattr(fa.node, 'end_lineno', fa.node.lineno)
        path = fa.module.path if hasattr(fa.module, 'path') else ''

        def inside(where):
            try:
                f_, ln = where.rsplit(':', 1)
                return lo <= int(ln) <= hi and f_.endswith('spatial_grid.py')
            except ValueError:
                return False
        GAP_EVENTS[:] = [g for g in GAP_EVENTS if not inside(str(g[2]))]
    from .. import purity
    purity.check(ck, prog, ['spatial_grid.Index.nearest', 'spatial_grid.Index.remove_path',
                            'spatial_grid.Index.find_adjacents'], 'C13-R-pure')
