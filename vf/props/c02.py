"""C02 - T3 (jerk) prediction and end rate (move_dist_t3, rate_t3)."""
from ..poly import Sym, mk_func
from ..interp import Interp, Str, Tup
from ..model import AnalysisError
from .. import purity
from . import motion
from .motion import V, TWO31
from .c01 import analyse_lt


def floor_arg(pos):
    """pos = FLOOR(X / 2^31) -> X (ROUND/TRUNC stripped)."""
    at = pos.as_atom()
    if at is None or at[0] != 'f' or at[1] != 'FLOOR':
        return None
    return motion.strip_int(at[2][0] * TWO31)


def check_rate_t3(ck, prog):
    fn = prog.func('ebb_calc.rate_t3')
    if fn.params != ['time', 'rate', 'accel', 'jerk']:
        raise AnalysisError('rate_t3 signature changed')
    ck.saw('functions', fn.qualname + ' @ ' + fn.loc())
    motion.declare_ints()
    T = V('time')
    outs = Interp(prog).run(fn, [V(p) for p in fn.params])
    # the end rate must not depend on the caller's mpmath precision either: any mpmath operation
    # in rate_t3 needs a precision pinned in rate_t3 (today it uses none)
    motion.check_precision(ck, 'C02-D4-precision', fn, outs)
    want = motion.rate_t3_oracle(T)
    n = 0
    for o in outs:
        if o.kind != 'return':
            ck.ob('C02-D2-rate', 'rate_t3::no-raise', False, 'a path raises %s' % o.value, fn.loc())
            continue
        conds = [motion.norm_path_cond(c, t) for c, t in o.state.path]
        if any(c is None for c in conds):
            raise AnalysisError('rate_t3: non-numeric branch condition')
        if any((e == T or e == -T) and op == '==' for e, op in conds):
            continue   # time == 0 is outside the property's domain (T >= 1): unconstrained
        if any(not (e == T or e == -T) for e, op in conds):
            ck.ob('C02-D2-rate', 'rate_t3::no-data-branches', False,
                  'the end rate depends on a branch on %r which the recurrence does not have'
                  % (conds[0][0],), fn.loc(), key='rate_t3::data-branch')
            continue
        n += 1
        got = o.value
        ok = isinstance(got, Sym) and (got == want or motion.strip_int(got) == want)
        ck.ob('C02-D2-rate', 'rate_t3::closed-form', ok,
              'rate after T ticks is %r; the recurrence gives r0 + T*accel + jerk*T(T-1)/2 = %r '
              'with r0 = rate - TRUNC(accel/2) + TRUNC(jerk/6)' % (got, want), fn.loc(),
              key='rate_t3::closed-form')
        ck.sample({'rate_t3': repr(got)})
    ck.floor('rate_t3 main paths', n, 1)


def run(ck, prog, tier):
    ck.explanation = (
        'move_dist_t3 and rate_t3 are abstractly interpreted in the rational-normal-form domain '
        'with TRUNC(accel/2), TRUNC(jerk/6) as opaque rounding atoms. (D1) The returned pair must '
        'equal FLOOR(P3/2^31), P3-2^31*FLOOR(P3/2^31) with P3 = accum + T*r0 + accel*T(T+1)/2 + '
        'jerk*(T^3-T)/6 (closed form of the third-order recurrence; ROUND of the integer-valued '
        'P3 is the identity). The snap `if abs(A-B) < c: A = B` is accepted only when 6*(A-B) is '
        'integer-valued and c <= 1/6, in which case A-B = 0 on that path and the result is '
        'compared modulo that equality. (D2) rate_t3 == ROUND(r0 + T*accel + jerk*T(T-1)/2) for '
        'T>=1. (D3) The clear rule is mapped onto the 27 sign cases of (tick-1 rate, accel+jerk, '
        'jerk): start accumulator 2^31-1 iff the first non-zero is negative, every case covered. '
        '(D4) mp.dps>=21 precedes the first mpmath operation on every path. (D5) With jerk:=0 the '
        'extracted total equals the extracted total of move_dist_lt (sibling agreement). Not '
        'decided: exactness of float evaluation in rate_t3 and of mpmath evaluation.')
    ck.assumptions += ['inputs are integers; P3 and the tick rates are integer-valued on integers '
                       '(T(T+1)/2, (T^3-T)/6 are integers), so ROUND/int of them is the identity',
                       'float arithmetic in rate_t3 is exact in the firmware domain (multiples of '
                       '1/2 below 2^52); mpmath rounds correctly']
    ck.trusted += ['python ast module', 'vf.poly normal forms', 'vf.interp',
                   'closed form of the recurrence derived in DESIGN.md C02']
    purity.check(ck, prog, ['ebb_calc.move_dist_t3', 'ebb_calc.rate_t3'], 'C02-R-pure')
    fn = prog.func('ebb_calc.move_dist_t3')
    if fn.params != ['time', 'rate', 'accel', 'jerk', 'accum']:
        raise AnalysisError('move_dist_t3 signature changed: %s' % fn.params)
    ck.saw('functions', fn.qualname + ' @ ' + fn.loc())
    motion.declare_ints()
    r0 = V('rate') - motion.half_accel() + motion.jerk_sixth()
    quantities = [r0 + V('accel'), V('accel') + V('jerk'), V('jerk')]
    res = analyse_lt(ck, prog, fn, 'C02', motion.oracle_t3, quantities)
    check_rate_t3(ck, prog)
    # D5: zero-jerk coincidence with the extracted move_dist_lt
    f_lt = prog.func('ebb_calc.move_dist_lt')
    motion.declare_ints()
    lt_outs = Interp(prog).run(f_lt, [V(p) for p in f_lt.params])
    lt_tot = [floor_arg(o.value.items[0]) for o in lt_outs
              if o.kind == 'return' and isinstance(o.value, Tup) and o.value.items[0] != Sym.const(0)]
    t3_tot = []
    for o in res['numeric']:
        if o.kind == 'return' and isinstance(o.value, Tup) and o.value.items[0] != Sym.const(0):
            # use the path without equality assumptions (snap not taken)
            conds = [motion.norm_path_cond(c, t) for c, t in o.state.path]
            if any(c is None for c in conds):
                continue
            from .c01 import merge_tolerance_windows
            conds = merge_tolerance_windows(conds)
            if any(op in ('<', '<=') and any(a[0] == 'f' and a[1] == 'ABS' for a in e.atoms())
                   for e, op in conds):
                continue
            t3_tot.append(floor_arg(o.value.items[0]))
    ok = bool(lt_tot) and bool(t3_tot) and None not in lt_tot and None not in t3_tot
    if ok:
        z = t3_tot[0].subs({('v', 'jerk'): Sym.const(0)})
        ok = z == lt_tot[0]
    ck.ob('C02-D5-zero-jerk', 'move_dist_t3[jerk:=0]==move_dist_lt', ok,
          'with jerk = 0 the extracted T3 total %s differs from the extracted timed-move total %s'
          % (t3_tot[:1], lt_tot[:1]), fn.loc(), key='move_dist_t3::zero-jerk')
    ck.exhaustive = True
