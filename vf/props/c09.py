"""C09 - vertex reduction: deletion-only effect rule, early exits, window/deletion index relations,
fast predicate == point-to-segment distance table, reference measurement structure."""
import ast
import itertools
import random
from fractions import Fraction

from ..poly import Sym, mk_func
from .. import poly
from ..interp import (Interp, Hooks, Opaque, Tup, Const, Cmp, NotC, State, Effect, FuncRef, Bound,
                      NONE, TRUE, FALSE, Outcome)
from ..model import AnalysisError
from .. import purity
from .. import loops
from ..interp import Truthy, AndC, OrC
from . import motion

# loops the engines summarise on purpose (retry / pause / enumeration loops are judged by the
# loop rules of this check, not by unrolling)
EXPECTED_GAPS = {('loop', '*')}

V = Sym.var
MUTATORS = {'append', 'extend', 'insert', 'sort', 'reverse', 'remove', 'clear', '__setitem__',
            'add', 'update'}


def parent_map(tree):
    pm = {}
    for n in ast.walk(tree):
        for c in ast.iter_child_nodes(n):
            pm[c] = n
    return pm


def classify_uses(fn, param):
    """Classify every syntactic use of the list parameter: returns list of (kind, node)."""
    pm = parent_map(fn.node)
    uses = []
    for n in ast.walk(fn.node):
        if not (isinstance(n, ast.Name) and n.id == param):
            continue
        par = pm.get(n)
        if isinstance(n.ctx, ast.Store) or isinstance(n.ctx, ast.Del):
            uses.append(('rebind', n))
            continue
        if isinstance(par, ast.Call) and n in par.args and isinstance(par.func, ast.Name) \
                and par.func.id == 'len':
            uses.append(('len', n))
        elif isinstance(par, ast.Subscript) and par.value is n:
            gp = pm.get(par)
            if isinstance(par.ctx, ast.Load):
                uses.append(('read-slice' if isinstance(par.slice, ast.Slice) else 'read-item', n))
            elif isinstance(par.ctx, ast.Del):
                uses.append(('delete', n))
            else:  # Store
                empty = isinstance(gp, ast.Assign) and isinstance(gp.value, (ast.List, ast.Tuple)) \
                    and not gp.value.elts and isinstance(par.slice, ast.Slice)
                uses.append(('delete' if empty else 'element-store', n))
        elif isinstance(par, ast.Attribute) and par.value is n:
            gp = pm.get(par)
            if isinstance(gp, ast.Call) and gp.func is par:
                if par.attr == 'pop':
                    uses.append(('delete', n))
                elif par.attr in MUTATORS:
                    uses.append(('mutator:' + par.attr, n))
                else:
                    uses.append(('method:' + par.attr, n))
            else:
                uses.append(('attr:' + par.attr, n))
        elif isinstance(par, ast.Call) and n in par.args:
            uses.append(('passed-whole', n))
        elif isinstance(par, ast.AugAssign) and par.target is n:
            uses.append(('rebind', n))
        else:
            uses.append(('other:' + type(par).__name__, n))
    return uses


class NoInlinePred(Hooks):
    def inline(self, fn, depth):
        return fn.qualname != 'plot_utils.points_in_tolerance'


def int_lower_bound(e, op, X):
    """For a path fact `E op 0` with E = s*(X - c): the implied integer lower bound on X or None."""
    import math
    for s in (1, -1):
        d = e * s - X
        if d.is_const():
            c = -d.const_value()
            o = op if s == 1 else {'<': '>', '<=': '>=', '>': '<', '>=': '<='}.get(op, op)
            if o == '>':
                return math.floor(c) + 1
            if o == '>=':
                return math.ceil(c)
    return None


READ_ONLY_KINDS = {'len', 'read-slice', 'read-item'}


def resolve_passed_whole(prog, fn, uses, depth=0):
    """A list handed whole to another package function is as harmless as what that function does
    with it: replace each 'passed-whole' use by the callee's uses of the corresponding parameter
    (recursively, depth-limited).  Read-only helpers (len, slicing, indexing, handing on to other
    read-only helpers) become 'read-by-helper'; anything else keeps the callee's kind."""
    out = []
    pm = parent_map(fn.node)
    for kind, n in uses:
        if kind != 'passed-whole' or depth > 3:
            out.append((kind, n))
            continue
        call = pm.get(n)
        kind_t, tgt = prog.resolve_call(fn, call)
        if kind_t != 'func':
            out.append((kind, n))
            continue
        idx = call.args.index(n)
        params = tgt.params[1:] if tgt.cls is not None and tgt.params[:1] == ['self'] else tgt.params
        if idx >= len(params):
            out.append((kind, n))
            continue
        inner = resolve_passed_whole(prog, tgt, classify_uses(tgt, params[idx]), depth + 1)
        if all(k in READ_ONLY_KINDS or k == 'read-by-helper' for k, _ in inner):
            out.append(('read-by-helper', n))
        else:
            worst = [k for k, _ in inner if k not in READ_ONLY_KINDS and k != 'read-by-helper']
            out.append(('helper:%s:%s' % (tgt.name, worst[0]), n))
    return out


def check_effects(ck, prog, fn, f_pred):
    param = fn.params[0]
    uses = resolve_passed_whole(prog, fn, classify_uses(fn, param))
    ck.saw('uses_of_vertex_list', [(k, n.lineno) for k, n in uses])
    allowed = {'len', 'read-slice', 'delete', 'read-by-helper'}
    n_del = 0
    delegated = []
    for kind, n in uses:
        ok = kind in allowed
        if kind == 'delete':
            n_del += 1
        if kind.startswith('helper:') and kind.split(':')[2] in allowed:
            # an allowed operation performed by a helper: the range rule (D2) reads the deletion
            # site in supersample itself and cannot follow it into the helper
            delegated.append('supersample delegates "%s" on the vertex list to helper %s (%s); '
                             'the deletion-range rule cannot follow it'
                             % (kind.split(':')[2], kind.split(':')[1], fn.loc(n)))
            if kind.split(':')[2] == 'delete':
                n_del += 1
            continue
        ck.ob('C09-D1-deletion-only', 'supersample::use[%s@%s]' % (kind, ast.unparse(
            parent_map(fn.node).get(n))[:40]), ok,
              'the vertex list is used as "%s" (%s): only len(), slicing into a copy and '
              'deletions are allowed, otherwise the result is not an in-order subsequence of the '
              'same vertex objects' % (kind, ast.unparse(parent_map(fn.node).get(n))[:60]),
              fn.loc(n), key='supersample::effect:%s' % kind.split(':')[0])
    ck.floor('deletion sites in supersample', n_del, 1)
    # vertices themselves are never stored into: no subscript store with a non-slice index at all
    for node in ast.walk(fn.node):
        if isinstance(node, ast.Subscript) and isinstance(node.ctx, ast.Store) \
                and not isinstance(node.slice, ast.Slice):
            ck.ob('C09-D1-deletion-only', 'supersample::element-store', False,
                  'an element store %s could modify a vertex' % ast.unparse(node), fn.loc(node),
                  key='supersample::effect:element-store')
    # the predicate never mutates its argument
    puses = classify_uses(f_pred, f_pred.params[0])
    for kind, n in puses:
        bad = kind in ('delete', 'element-store', 'rebind') or kind.startswith('mutator')
        ck.ob('C09-D1-deletion-only', 'points_in_tolerance::use[%s@%d]' % (kind, n.lineno),
              not bad, 'the predicate mutates its argument (%s)' % kind, f_pred.loc(n),
              key='points_in_tolerance::effect')
    return delegated


def check_early_exits(ck, prog, fn):
    vlist = Opaque('param:vertices', (), 'list')
    tol = V('tolerance')
    n = Sym.func('LEN', Sym.var('<param:vertices>'))
    outs = Interp(prog, NoInlinePred()).run(fn, [vlist, tol])
    n_mut = 0
    for o in outs:
        if o.kind == 'raise':
            continue
        muts = [e for e in o.state.effects if e.kind in ('store', 'del') or (
            e.kind == 'call' and isinstance(e.target, Bound) and e.target.obj == vlist)]
        if not muts:
            continue
        n_mut += 1
        lo_n, tol_pos = None, False
        for c, t in o.state.path:
            nc = motion.norm_path_cond(c, t)
            if nc is None:
                continue
            e, op = nc
            b = int_lower_bound(e, op, n)
            if b is not None:
                lo_n = b if lo_n is None else max(lo_n, b)
            if (e == tol and op == '>') or (e == -tol and op == '<'):
                tol_pos = True
        ck.ob('C09-D2-early-exits', 'supersample::mutation-needs-len>=3', lo_n is not None and lo_n >= 3,
              'a deletion is reachable without len(vertices) > 2 being established (lists of at '
              'most two vertices must be left unchanged); path bound: len >= %s' % lo_n, fn.loc(),
              key='supersample::len-guard')
        ck.ob('C09-D2-early-exits', 'supersample::mutation-needs-tolerance>0', tol_pos,
              'a deletion is reachable without tolerance > 0 being established (non-positive '
              'tolerances must leave the list unchanged)', fn.loc(),
              key='supersample::tolerance-guard')
    ck.floor('mutating paths of supersample', n_mut, 1)


def affine(e, syms):
    """Decompose Sym e as const + sum(coef[name]*sym) over the given symbols; None if not affine."""
    rest = e
    coefs = {}
    for name, s in syms.items():
        at = s.as_atom()
        c = None
        for m, k in e.num.terms.items():
            if m == ((at, 1),):
                c = k
        coefs[name] = c or 0
        rest = rest - s * (c or 0)
    if not e.is_poly() or not rest.is_const():
        return None
    return coefs, rest.const_value()


def check_loop_nest(ck, prog, fn):
    """D3: extract the affine index relations of the window-extension loop nest and discharge the
    inequalities that make 'first and last survive, only tested vertices are deleted, chord end
    points survive' true for every list."""
    body = fn.body()
    outer = [s for s in body if isinstance(s, ast.While)]
    if len(outer) != 1:
        raise AnalysisError('supersample: expected exactly one top-level while loop')
    outer = outer[0]
    vlist = Opaque('param:vertices', (), 'list')
    n = Sym.func('LEN', Sym.var('<param:vertices>'))
    S, E = V('s'), V('e')
    it = Interp(prog, NoInlinePred())
    it.stack.append(fn)
    st = State(env={fn.params[0]: vlist, fn.params[1]: V('tolerance')})
    pre = [s for s in body[:body.index(outer)] if not isinstance(s, ast.If)]
    outs = list(it.exec_block(pre, st))
    if len(outs) != 1:
        raise AnalysisError('supersample: prologue not straight-line')
    st0 = outs[0].state
    consts = {k: v for k, v in st0.env.items() if isinstance(v, Sym) and v.is_const()}
    if len(consts) != 1:
        raise AnalysisError('supersample: window-start variable not identified (%s)' % list(consts))
    svar, s00 = next(iter(consts.items()))
    s00 = s00.const_value()
    st1 = st0.bind(svar, S)
    syms = {'s': S, 'e': E, 'n': n}

    def bound_of(test_node, state, var_name):
        """cond <=> var < n + c  (integers). returns c (as Fraction) for the form var - n - c < 0."""
        res = []
        for c, s_ in it.ev_cond(test_node, state):
            res.append(c)
        if len(res) != 1 or not isinstance(res[0], Cmp):
            return None
        cnd = res[0]
        e = cnd.a - cnd.b
        af = affine(e, syms)
        if af is None:
            return None
        coefs, k = af
        v = coefs[var_name]
        if v == 0 or coefs['n'] != -v or any(coefs[x] != 0 for x in coefs if x not in (var_name, 'n')):
            return None
        op = cnd.op
        if v < 0:
            op = {'<': '>', '<=': '>=', '>': '<', '>=': '<='}.get(op, op)
        k = k / abs(v)     # var - n + k  op 0
        if op == '<':
            return -k        # var < n - k
        if op == '<=':
            return -k + 1    # var <= n - k  <=> var < n - k + 1
        return None
    g0 = bound_of(outer.test, st1, 's')
    if g0 is None:
        raise AnalysisError('supersample: outer loop test is not of the form start < len(v) + c')
    # outer body: e init, inner loop, deletion, s update
    inner = [s for s in outer.body if isinstance(s, ast.While)]
    if len(inner) != 1:
        raise AnalysisError('supersample: expected exactly one inner while loop')
    inner = inner[0]
    info = {}

    class LoopHook(NoInlinePred):
        def loop(self, interp, node, st_):
            if node is not inner:
                return None
            # identify the window-end variable: assigned in the inner body
            names = {t.id for b in node.body for t in ast.walk(b)
                     if isinstance(t, ast.Name) and isinstance(t.ctx, ast.Store)}
            if len(names) != 1:
                raise AnalysisError('supersample: inner loop assigns %s' % sorted(names))
            evar = names.pop()
            info['evar'] = evar
            info['e_init'] = st_.env.get(evar)
            s2 = st_.bind(evar, E)
            test = node.test
            conj = test.values if isinstance(test, ast.BoolOp) and isinstance(test.op, ast.And) \
                else [test]
            for cnode in conj:
                vals = list(interp.ev(cnode, s2))
                if len(vals) != 1:
                    raise AnalysisError('supersample: inner loop test forks')
                v = vals[0][0]
                if isinstance(v, Opaque) and v.label == 'call:plot_utils.points_in_tolerance':
                    info['pred_args'] = v.args
                else:
                    c0 = bound_of(cnode, s2, 'e')
                    if c0 is None:
                        raise AnalysisError('supersample: inner loop conjunct %s is neither the '
                                            'predicate call nor a bound end < len(v) + c'
                                            % ast.unparse(cnode))
                    info['c0'] = c0
            outs_ = list(interp.exec_block(node.body, s2))
            if len(outs_) != 1 or outs_[0].kind != 'fall' or outs_[0].state.effects != s2.effects:
                raise AnalysisError('supersample: inner loop body is not a plain increment')
            info['e_step'] = outs_[0].state.env[evar] - E
            changed = [k for k in s2.env if outs_[0].state.env.get(k) != s2.env.get(k) and k != evar]
            if changed:
                raise AnalysisError('supersample: inner loop changes %s' % changed)
            return [Outcome('fall', None, s2)]

    it.hooks = LoopHook()
    outs = list(it.exec_block(outer.body, st1))
    if len(outs) != 1 or outs[0].kind != 'fall':
        raise AnalysisError('supersample: outer loop body is not straight-line around the inner loop')
    s_end = outs[0].state
    it.stack.pop()
    for need in ('pred_args', 'c0', 'e_init', 'e_step'):
        if need not in info:
            raise AnalysisError('supersample: could not extract %s' % need)
    # e init = s + e0
    af = affine(info['e_init'], syms) if isinstance(info['e_init'], Sym) else None
    if af is None or af[0]['s'] != 1 or af[0]['e'] != 0 or af[0]['n'] != 0:
        raise AnalysisError('supersample: window end is not initialised to start + const')
    e0 = af[1]
    if not (info['e_step'].is_const() and info['e_step'].const_value() == 1):
        raise AnalysisError('supersample: window end does not advance by exactly 1')
    # predicate argument: slice(v, A, B), tolerance unchanged
    pa = info['pred_args']
    ok_pred = len(pa) == 2 and isinstance(pa[0], Opaque) and pa[0].label == 'slice' \
        and pa[0].args[0] == vlist and pa[0].args[3] == NONE and isinstance(pa[1], Sym)
    if ok_pred:
        ratio = pa[1] / V('tolerance')
        if not ratio.is_const():
            raise AnalysisError('supersample: tolerance passed to the predicate is %r' % (pa[1],))
        ok_pred = 0 < ratio.const_value() <= 1     # a smaller tolerance only deletes less
    ck.ob('C09-D3-window', 'supersample::predicate-call', ok_pred,
          'the in-tolerance predicate must receive a slice copy of the vertex list and a '
          'tolerance not larger than the caller\'s; got %r' % (pa,), fn.loc(inner),
          key='supersample::predicate-call')
    if not ok_pred:
        return
    A, B = pa[0].args[1], pa[0].args[2]
    afA, afB = affine(A, syms), affine(B, syms)
    if afA is None or afB is None or afA[0] != {'s': 1, 'e': 0, 'n': 0} or \
            afB[0] != {'s': 0, 'e': 1, 'n': 0}:
        raise AnalysisError('supersample: tested window is not vertices[start+a : end+b]')
    a0, b0 = afA[1], afB[1]
    # deletion effect
    dels = [e for e in s_end.effects if e.kind in ('store', 'del') and isinstance(e.target, tuple)
            and e.target[0] == 'item' and e.target[1] == vlist]
    if len(dels) != 1 or not (isinstance(dels[0].target[2], tuple) and dels[0].target[2][0] == 'slice'
                              and (dels[0].kind == 'del' or dels[0].args == (Tup((), 'list'),))
                              and dels[0].target[2][3] == NONE):
        raise AnalysisError('supersample: deletion is not a single slice deletion '
                            '(v[a:b] = [] or del v[a:b])')
    lo, hi = dels[0].target[2][1], dels[0].target[2][2]
    afL, afH = affine(lo, syms), affine(hi, syms)
    if afL is None or afH is None or afL[0] != {'s': 1, 'e': 0, 'n': 0} or \
            afH[0] != {'s': 0, 'e': 1, 'n': 0}:
        raise AnalysisError('supersample: deleted slice is not vertices[start+l : end+h]')
    l0, h0 = afL[1], afH[1]
    ds = s_end.env[svar] - S
    if not (ds.is_const() and ds.const_value() >= 1):
        raise AnalysisError('supersample: window start does not advance by a positive constant')
    ds = ds.const_value()
    c0 = info['c0']
    P = dict(a0=a0, b0=b0, l0=l0, h0=h0, e0=e0, c0=c0, g0=g0, s00=s00, ds=ds)
    ck.sample({'loop_nest_parameters': {k: str(v) for k, v in P.items()},
               'meaning': 'window=v[s+a0:e+b0], delete v[s+l0:e+h0], e=s+e0 then e+=1 while '
                          'pred and e<n+c0, outer while s<n+g0, s starts at s00, s+=ds'})
    loc = fn.loc(outer)
    obs = [
        ('deleted-inside-tested-window-low', l0 >= a0 + 1,
         'the deleted slice starts at start%+d but the tested window starts at start%+d: the '
         'window start (or an untested vertex before the interior) is deleted' % (l0, a0)),
        ('deleted-inside-tested-window-high', h0 <= b0 - 2,
         'the deleted slice ends at end%+d (exclusive) but the last accepted window is '
         'v[.. : end-1%+d]: the window end or an untested vertex is deleted' % (h0, b0)),
        ('nothing-deleted-when-first-test-fails', e0 + h0 <= l0,
         'when the predicate fails for the initial window (end = start%+d) the slice '
         'v[start%+d : end%+d] is not empty: an untested vertex is deleted' % (e0, l0, h0)),
        ('accepted-windows-unclamped', c0 + b0 <= 1,
         'the window end may advance while end < len%+d but the tested slice reaches end%+d: an '
         'accepted window can be clamped by the list end, so the next deletion covers untested '
         'vertices' % (c0, b0)),
        ('last-vertex-survives', c0 + h0 <= -1,
         'end can reach len%+d and the deleted slice ends at end%+d (exclusive): the last vertex '
         'can be deleted' % (c0, h0)),
        ('initial-window-in-range', g0 + e0 + b0 <= 1 and g0 - 1 + e0 <= c0,
         'with start < len%+d the initial window v[start%+d : start%+d] can run past the list end'
         % (g0, a0, e0 + b0)),
        ('initial-window-has-interior-point', e0 + b0 - a0 >= 3,
         'the initial window holds %s vertices; the predicate needs at least 3 (it asserts it)'
         % (e0 + b0 - a0)),
        ('first-vertex-survives', s00 + l0 >= 1 and s00 + a0 >= 0,
         'start begins at %s and the deleted slice at start%+d: the first vertex can be deleted'
         % (s00, l0)),
        ('chord-endpoints-survive', b0 - 2 - h0 < ds and l0 >= 1,
         'after a deletion the end vertex of the accepted chord lands at start%+d, which the next '
         'iteration (start%+d, deleting from start%+d) can delete: surviving neighbours would no '
         'longer be the tested chord' % (l0 + b0 - 2 - h0, ds, ds + l0)),
    ]
    for name, ok, msg in obs:
        ck.ob('C09-D3-window', 'supersample::' + name, bool(ok), msg, loc,
              key='supersample::' + name)


def check_predicate(ck, prog, f_pred):
    """D4: decision table of the fast predicate vs the point-to-segment distance."""
    ax, ay, bx, by, tol = V('ax'), V('ay'), V('bx'), V('by'), V('tol')
    pts = [(V('px'), V('py')), (V('qx'), V('qy'))]

    def quantities(px, py):
        t = (px - ax) * (bx - ax) + (py - ay) * (by - ay)
        L2 = (bx - ax) ** 2 + (by - ay) ** 2
        da = (px - ax) ** 2 + (py - ay) ** 2 - tol * tol
        db = (px - bx) ** 2 + (py - by) ** 2 - tol * tol
        cross = (px - ax) * (by - ay) - (bx - ax) * (py - ay)
        dc = cross * cross - tol * tol * L2        # sign equals dist_perp^2 - tol^2 when L2 > 0
        return t, L2, da, db, dc

    def same_sign_form(e, q, L2):
        """e is q up to a positive constant or up to division by L2 (>0 in region C)."""
        for cand in (q, q / L2):
            d = e / cand if not cand.num.is_zero() else None
            if d is not None and d.is_const() and d.const_value() > 0:
                return True
        return False

    total_rows = 0
    for npts in (1, 2):
        interior = pts[:npts]
        inp = Tup((Tup((ax, ay)),) + tuple(Tup(p) for p in interior) + (Tup((bx, by)),), 'list')
        it_ = Interp(prog)
        outs0 = it_.run(f_pred, [inp, tol])
        # a predicate may return a comparison itself (`return dist < tol`, `return not any(...)`):
        # both truth values of the returned condition are then paths of their own
        from ..interp import Outcome, COND_TYPES, to_cond
        outs = []
        for o in outs0:
            if o.kind == 'return' and isinstance(o.value, COND_TYPES):
                for b, s2 in it_.branch(o.value, o.state):
                    outs.append(Outcome('return', TRUE if b else FALSE, s2))
            else:
                outs.append(o)
        ck.saw('paths', 'points_in_tolerance with %d interior point(s): %d paths' % (npts, len(outs)))
        for o in outs:
            if o.kind != 'return':
                ck.ob('C09-D4-predicate', 'points_in_tolerance::no-raise', False,
                      'a path raises %s' % o.value, f_pred.loc(), key='points_in_tolerance::raises')
                continue
            conds = []
            for c, t_ in o.state.path:
                nc = motion.norm_path_cond(c, t_)
                if nc is None:
                    raise AnalysisError('points_in_tolerance: non-numeric condition %r' % (c,))
                conds.append(nc)
            res = o.value
            if res not in (TRUE, FALSE):
                raise AnalysisError('points_in_tolerance returns %r' % (res,))
            # per interior point: collect region facts and distance facts
            verdicts = []
            feasible = True
            for (px, py) in interior:
                t, L2, da, db, dc = quantities(px, py)
                u = L2 - t
                st_allowed = {-1, 0, 1}
                su_allowed = {-1, 0, 1}
                l2zero = None
                dist_facts = []     # (region letter, 'ge'|'lt')
                for e, op in conds:
                    ident = None
                    for name, q in (('t', t), ('u', u), ('L2', L2)):
                        for sgn in (1, -1):
                            d = e - q * sgn
                            if d.num.is_zero():
                                ident = (name, sgn)
                    if ident is not None:
                        name, sgn = ident
                        sat = set(motion.SAT[op])
                        if sgn < 0:
                            sat = {-x for x in sat}
                        if name == 't':
                            st_allowed &= sat
                        elif name == 'u':
                            su_allowed &= sat
                        else:
                            if sat == {0}:
                                l2zero = True
                            elif 0 not in sat:
                                l2zero = False
                        continue
                    for letter, q in (('A', da), ('B', db), ('C', dc)):
                        if same_sign_form(e, q, L2):
                            if op in ('>=', '>'):
                                dist_facts.append((letter, 'ge', op))
                            elif op in ('<', '<='):
                                dist_facts.append((letter, 'lt', op))
                cases = []
                for s_t in st_allowed:
                    for s_u in su_allowed:
                        # feasibility: L2 = t + u >= 0; L2 == 0 => t == 0
                        if s_t < 0 and s_u <= 0:
                            continue
                        if s_t == 0 and s_u < 0:
                            continue
                        if l2zero is True and (s_t, s_u) != (0, 0):
                            continue
                        if l2zero is False and (s_t, s_u) == (0, 0):
                            continue
                        cases.append((s_t, s_u))
                if not cases:
                    feasible = False
                    break
                verdicts.append((cases, dist_facts))
            if not feasible:
                continue
            total_rows += 1
            # decide, per point, whether the path establishes "point passes" / "point fails"
            point_state = []
            for cases, dist_facts in verdicts:
                passes = fails = False
                wrong = None
                for s_t, s_u in cases:
                    if s_t < 0:
                        acc = {'A'}
                    elif s_t == 0:
                        acc = {'A', 'B'} if s_u == 0 else {'A', 'C'}
                    elif s_u < 0:
                        acc = {'B'}
                    elif s_u == 0:
                        acc = {'B', 'C'}
                    else:
                        acc = {'C'}
                    rel = [f for f in dist_facts if f[0] in acc]
                    irr = [f for f in dist_facts if f[0] not in acc]
                    if irr and not rel:
                        wrong = (s_t, s_u, irr[0][0], sorted(acc))
                    for letter, kind, op in rel:
                        if kind == 'ge':
                            fails = True
                            if op == '>':
                                wrong = (s_t, s_u, 'strictness: "closer than" is strict, a point '
                                         'at exactly the tolerance must fail', sorted(acc))
                        else:
                            passes = True
                            if op == '<=':
                                wrong = (s_t, s_u, 'strictness: "closer than" is strict, a point '
                                         'at exactly the tolerance must fail', sorted(acc))
                point_state.append((passes, fails, wrong))
            inst = 'points_in_tolerance[%d pts]::path%d' % (npts, total_rows)
            wrongs = [w for _, _, w in point_state if w]
            if wrongs:
                w = wrongs[0]
                ck.ob('C09-D4-predicate', inst, False,
                      'in region (sign t=%s, sign(|d|^2-t)=%s) the predicate compares the wrong '
                      'distance form / strictness (%s; acceptable forms %s: A=|p-s0|^2, B=|p-s1|^2, '
                      'C=cross^2/|d|^2)' % w, f_pred.loc(), key='points_in_tolerance::table')
                continue
            if res == TRUE:
                ok = all(p and not f for p, f, _ in point_state)
                ck.ob('C09-D4-predicate', inst, ok,
                      'returns True on a path that does not establish distance < tolerance for '
                      'every interior point (%s)' % (point_state,), f_pred.loc(),
                      key='points_in_tolerance::true-path')
            else:
                ok = any(f for p, f, _ in point_state)
                ck.ob('C09-D4-predicate', inst, ok,
                      'returns False on a path where no interior point is at distance >= '
                      'tolerance', f_pred.loc(), key='points_in_tolerance::false-path')
    ck.floor('predicate decision rows', total_rows, 10)


# ---------------------------------------------------------------------------- D5 bounded lists
class _BoundedHooks(loops.UnrollMixin, Hooks):
    """supersample on a list of k distinct vertex objects: every loop test and index is a number,
    the only open question on a path is what the predicate answers for a window."""
    unroll = True
    fork_undecided = True
    fork_depth = 60
    fork_work_cap = 60000
    list_writeback = True

    def __init__(self, pred_qual):
        self.pred_qual = pred_qual
        self.foreign = []

    def loop(self, interp, node, st):
        return self.unroll_loop(interp, node, st)

    def inline(self, fn, depth):
        return fn.qualname != self.pred_qual and depth < 8

    def call(self, interp, target, args, kwargs, st, node):
        if isinstance(target, FuncRef) and target.fn.qualname == self.pred_qual:
            vals = list(args) + [kwargs[k] for k in sorted(kwargs)]
            if len(vals) != 2 or kwargs:
                self.foreign.append('predicate called with %r' % (vals,))
                return None
            win, tol = vals
            if not (isinstance(win, Tup) and all(_vid(e) is not None for e in win.items)
                    and isinstance(tol, Sym) and tol.is_const()):
                self.foreign.append('predicate asked about %r with tolerance %r' % (win, tol))
                return None
            if len(win.items) < 3:
                return [(None, st.raising('AssertionError').note(
                    ('raised-by', 'points_in_tolerance on %d vertices' % len(win.items),
                     node.lineno)))]
            return [(Opaque('accepted', (Tup(win.items, 'tuple'), tol), 'bool'), st)]
        return None

    def decide(self, cond, st):
        if isinstance(cond, (NotC, AndC, OrC)):
            return None
        inner = cond.v if isinstance(cond, Truthy) else None
        if not (isinstance(inner, Opaque) and inner.label == 'accepted'):
            # nothing else is open on a list of known length: stop at once (exploring both
            # outcomes of a test on forgotten values only multiplies meaningless paths)
            raise AnalysisError('supersample: on a list of vertex objects of known length the '
                                'control flow depends on more than the predicate\'s answers '
                                '(test %s)' % repr(cond)[:300])
        return None


def _vid(e):
    if isinstance(e, Opaque) and e.label == 'vertex' and e.args and isinstance(e.args[0], Sym) \
            and e.args[0].is_const():
        return int(e.args[0].const_value())
    return None


def _dist2_to_segment(p, a, b):
    """Exact squared distance from p to the closed segment ab as a pair (numerator, denominator)
    of integers / rationals (no division: the comparisons below cross-multiply)."""
    (px, py), (ax, ay), (bx, by) = p, a, b
    dx, dy = bx - ax, by - ay
    L2 = dx * dx + dy * dy
    t = (px - ax) * dx + (py - ay) * dy
    if L2 == 0 or t <= 0:
        return (px - ax) ** 2 + (py - ay) ** 2, 1
    if t >= L2:
        return (px - bx) ** 2 + (py - by) ** 2, 1
    cr = (px - ax) * dy - (py - ay) * dx
    return cr * cr, L2


def _closer(p, a, b, tol):
    """dist(p, segment ab) < tol for tol > 0; for tol <= 0 the comparison the predicate makes
    (squared distance against the squared tolerance)."""
    num, den = _dist2_to_segment(p, a, b)
    return num < tol * tol * den


SCALE = 20      # concrete coordinates are integers: 1/20 of a unit


def _geometries(k, deep):
    """Vertex lists of length k (integer coordinates in 1/SCALE units): four abscissa patterns
    (uniform, spreading, zig-zag, repeated points), each also closed (last = first), x ordinates
    from a small set - complete for short lists, a fixed pseudo-random selection for longer."""
    ys = [0, 18, -30, 10, 40]
    pats = {
        'uniform': [100 * i for i in range(k)],
        'spreading': [0] + [100 * 2 ** (i - 1) for i in range(1, k)],
        'zig-zag': [0 if i % 2 == 0 else 200 for i in range(k)],
        'repeated': [100 * (i // 2) for i in range(k)],
    }
    cap = 4000 if deep else 700
    rnd = random.Random(k)
    for name, xs in pats.items():
        total = len(ys) ** k
        if total <= cap:
            combos = itertools.product(ys, repeat=k)
        else:
            combos = (tuple(rnd.choice(ys) for _ in range(k)) for _ in range(cap))
        for yy in combos:
            pts = list(zip(xs, yy))
            yield name, pts
            if k >= 3 and pts[-1] != pts[0]:
                yield name + ', closed', pts[:-1] + [pts[0]]


def check_bounded(ck, prog, fn, f_pred, deep, why=None, gaps_from=0):
    """D5: supersample interpreted on lists of 0..N distinct vertex objects (N = 6, thorough 8):
    the control flow is then fully determined except for the answers of the predicate, and both
    answers are followed at every call.  Every leaf of that decision tree carries the windows
    asked about, the answers and the final list.  The tree is then evaluated, with exact rational
    geometry and the predicate's own definition (every interior vertex of a window closer than
    the tolerance to its chord), on a family of vertex lists: the final list must be an in-order
    subsequence keeping both ends, and every deleted vertex must be closer than the tolerance to
    the segment between its surviving neighbours.  A violation is reported only with such a
    concrete list."""
    param, tparam = fn.params
    N = 8 if deep else 6
    n_leaves = n_geo = 0
    shown = set()

    def report(kind, k, tol, name, pts, final, msg):
        if kind in shown:
            return
        shown.add(kind)
        ck.ob('C09-D5-bounded-lists', '%s[n=%d, tolerance=%s]' % (kind, k, tol), False,
              '%s(%s, %s) [%s]: %s%s' % (fn.qualname,
                                         [tuple(c / SCALE for c in p) for p in pts], tol, name, msg,
                                         '' if final is None else '; vertices kept: %s' % (final,)),
              fn.loc(), key='supersample::bounded:%s' % kind)

    for tol in ([Fraction(1), Fraction(-1), Fraction(0)] + ([Fraction(9, 20)] if deep else [])):
        for k in range(0, N + 1):
            if tol <= 0 and k > 4:
                continue
            hk = _BoundedHooks(f_pred.qualname)
            it = Interp(prog, hk, max_paths=400000)
            it.stack.append(fn)
            verts = Tup(tuple(Opaque('vertex', (Sym.const(i),), 'point') for i in range(k)), 'list')
            st = State(env={param: verts, tparam: Sym.const(tol)})
            leaves = []
            for out in it.exec_block(fn.body(), st):
                dec = []
                for c, t in out.state.path:
                    v = c.v if isinstance(c, Truthy) else None
                    if isinstance(v, Opaque) and v.label == 'accepted':
                        dec.append((tuple(_vid(e) for e in v.args[0].items),
                                    v.args[1].const_value(), bool(t)))
                if out.kind == 'raise':
                    leaves.append((dec, 'raise', str(out.value)))
                    continue
                final = out.state.env.get(param)
                if not (isinstance(final, Tup) and final.kind == 'list'):
                    raise AnalysisError('%s: on a list of %d vertices the final value of the '
                                        'list is not followed (%r)' % (fn.qualname, k, final))
                ids = tuple(_vid(e) for e in final.items)
                leaves.append((dec, 'list', ids))
            it.stack.pop()
            from ..interp import GAP_EVENTS
            if len(GAP_EVENTS) > gaps_from:
                raise AnalysisError('%s on a list of %d vertex objects meets a construct the '
                                    'interpreter does not model (%s %s at %s)'
                                    % ((fn.qualname, k) + tuple(GAP_EVENTS[gaps_from][:3])))
            if hk.uncountable:
                raise AnalysisError('%s: on a list of %d vertices a loop is still running after '
                                    '%d iterations along some sequence of predicate answers'
                                    % (fn.qualname, k, hk.fork_depth))
            if hk.foreign:
                raise AnalysisError('%s: on a list of %d vertex objects the control flow depends '
                                    'on more than the predicate\'s answers (%s)'
                                    % (fn.qualname, k, hk.foreign[0][:300]))
            n_leaves += len(leaves)
            witnessed = set()
            geos = list(_geometries(k, deep)) if k else [('empty', [])]
            for name, pts in geos:
                n_geo += 1
                memo = {}

                def accepted(win, t):
                    key = (win, t)
                    if key not in memo:
                        a, b = pts[win[0]], pts[win[-1]]
                        memo[key] = all(_closer(pts[j], a, b, t * SCALE) for j in win[1:-1])
                    return memo[key]
                hit = None
                for li, (dec, kind, val) in enumerate(leaves):
                    if all(accepted(w, t) == ans for w, t, ans in dec):
                        hit = li
                        break
                if hit is None:
                    raise AnalysisError('%s: no leaf of the decision tree for %d vertices matches '
                                        'a concrete list (model error)' % (fn.qualname, k))
                witnessed.add(hit)
                dec, kind, val = leaves[hit]
                if kind == 'raise':
                    report('raises', k, tol, name, pts, None, 'raises %s' % val)
                    continue
                ids = val
                if k <= 2 or tol <= 0:
                    if ids != tuple(range(k)):
                        report('unchanged', k, tol, name, pts, ids,
                               'a list of at most two vertices / a non-positive tolerance must '
                               'leave the list unchanged')
                    continue
                if None in ids or any(b <= a for a, b in zip(ids, ids[1:])):
                    report('subsequence', k, tol, name, pts, ids,
                           'the result is not an in-order subsequence of the given vertex objects')
                    continue
                if not ids or ids[0] != 0 or ids[-1] != k - 1:
                    report('ends', k, tol, name, pts, ids, 'the first / last vertex is not kept')
                    continue
                for a, b in zip(ids, ids[1:]):
                    for j in range(a + 1, b):
                        if not _closer(pts[j], pts[a], pts[b], tol * SCALE):
                            num, den = _dist2_to_segment(pts[j], pts[a], pts[b])
                            report('tolerance', k, tol, name, pts, ids,
                                   'deleted vertex #%d %s is %.6g away from the segment between '
                                   'the surviving vertices #%d and #%d around it (tolerance %s)'
                                   % (j, tuple(c / SCALE for c in pts[j]),
                                      (num / den) ** 0.5 / SCALE, a, b, tol))
            # a leaf that breaks the list discipline whatever the geometry, but that none of the
            # concrete lists reaches, is not a verdict either way
            for li, (dec, kind, val) in enumerate(leaves):
                if li in witnessed:
                    continue
                broken = kind == 'raise' or None in val or any(
                    b <= a for a, b in zip(val, val[1:])) or (
                        k >= 1 and (not val or val[0] != 0 or val[-1] != k - 1))
                if broken and not shown:
                    raise AnalysisError('%s: for %d vertices the answer sequence %s ends with %s, '
                                        'but no concrete list of the family produces that '
                                        'sequence' % (fn.qualname, k, dec, val))
    ck.floor('decision-tree leaves (bounded lists)', n_leaves, 30)
    ck.floor('concrete vertex lists evaluated', n_geo, 3000)
    ck.ob('C09-D5-bounded-lists', 'lists of 0..%d vertices [%d leaves, %d concrete lists]'
          % (N, n_leaves, n_geo), True, '', fn.loc(),
          key='supersample::bounded:summary')
    ck.saw('bounded_lists', {'max_vertices': N, 'leaves': n_leaves, 'concrete_lists': n_geo,
                             'used_because': why or 'always run'})


def check_reference(ck, prog):
    fn = prog.func('plot_utils.max_dist_from_n_points')
    ck.saw('functions', fn.qualname + ' @ ' + fn.loc())
    pts = [Tup((V('x%d' % i), V('y%d' % i))) for i in range(4)]
    outs = Interp(prog).run(fn, [Tup(tuple(pts), 'list')])
    ok = len(outs) == 1 and outs[0].kind == 'return'
    msg = 'not a single returning path'
    if ok:
        v = outs[0].value
        P = lambda i: Opaque('call:ink_extensions.ffgeom.Point', (V('x%d' % i), V('y%d' % i)))
        seg = Opaque('call:ink_extensions.ffgeom.Segment', (P(0), P(3)))
        dist = lambda i: Opaque('m:distanceToPoint', (seg, P(i)))
        want = Opaque('max', (Tup((dist(1), dist(2)), 'list'),), 'num')
        ok = v == want
        msg = 'returns %r; expected max over the interior points of Segment(first, last).' \
              'distanceToPoint(point)' % (v,)
    ck.ob('C09-D4-reference', 'max_dist_from_n_points::structure', ok, msg, fn.loc(),
          key='max_dist_from_n_points::structure')


def run(ck, prog, tier):
    poly.INT_VARS.clear()
    ck.explanation = (
        'supersample: (D1) every syntactic use of the vertex list is classified - only len(), '
        'slicing into a copy and deletions are allowed, and the predicate never mutates its '
        'argument, so the result is an in-order subsequence of the same objects; (D2) abstract '
        'interpretation (loops summarised by havoc) shows every mutating path has established '
        'len>=3 and tolerance>0; (D3) the window-extension loop nest is reduced to affine index '
        'relations (window v[s+a0:e+b0], deletion v[s+l0:e+h0], bounds) extracted from the '
        'normal forms of the slice bounds and loop tests, and nine inequalities are discharged '
        'that imply: first/last vertex survive, only interior vertices of the last accepted, '
        'unclamped window are deleted, the accepted chord end points survive later iterations. '
        'points_in_tolerance: (D4) interpreted on 1 and 2 interior points; every feasible path '
        'is mapped to the regions (sign of t, sign of |d|^2 - t) it covers and must compare the '
        'squared distance form of that region (either neighbour on a boundary) with tolerance^2, '
        'strictly; True only when every interior point passed. max_dist_from_n_points must be '
        'max over interior points of ffgeom.Segment(first,last).distanceToPoint. Not decided: '
        'floating-point evaluation; ffgeom.distanceToPoint itself is trusted as the Euclidean '
        'point-to-segment distance.')
    ck.assumptions += ['ink_extensions.ffgeom.Segment.distanceToPoint is the Euclidean distance '
                       'from a point to a closed segment (dependency, trusted)',
                       'exact arithmetic; floating point not modelled']
    ck.trusted += ['python ast module', 'vf.interp', 'vf.poly', 'list slicing/deletion semantics']
    fn = prog.func('plot_utils.supersample')
    f_pred = prog.func('plot_utils.points_in_tolerance')
    if fn.params != ['vertices', 'tolerance'] or f_pred.params != ['input_points', 'tolerance']:
        raise AnalysisError('supersample / points_in_tolerance signature changed')
    ck.saw('functions', [fn.qualname + ' @ ' + fn.loc(), f_pred.qualname + ' @ ' + f_pred.loc()])
    purity.check(ck, prog, ['plot_utils.supersample', 'plot_utils.points_in_tolerance', 'plot_utils.max_dist_from_n_points'], 'C09-R-pure')
    # reasons why the affine reading of the loop nest (D3) does not apply to this shape of code;
    # the bounded decision-tree analysis (D5) does not depend on how the loops are written or on
    # which helper performs the deletion, and then carries the index clauses alone
    deferred = list(check_effects(ck, prog, fn, f_pred))
    check_early_exits(ck, prog, fn)
    if not deferred:
        try:
            check_loop_nest(ck, prog, fn)
        except AnalysisError as exc:
            deferred.append(str(exc))
    if deferred:
        ck.saw('loop_nest_rule', 'not applicable to this shape: %s' % deferred[0][:300])
    from ..interp import suspended_gaps, GAP_EVENTS
    try:
        with suspended_gaps():
            # constructs the interpreter does not model make the decision tree unreliable: they
            # end this analysis (cannot conclude), they do not taint the other rules
            n0 = len(GAP_EVENTS)
            check_bounded(ck, prog, fn, f_pred, tier == 'thorough',
                          deferred[0] if deferred else None, n0)
    except AnalysisError as exc:
        if deferred and not ck.violations:
            raise AnalysisError('%s; and the bounded analysis: %s' % (deferred[0], exc))
        ck.saw('bounded_lists', 'skipped: %s' % str(exc)[:300])
    check_predicate(ck, prog, f_pred)
    check_reference(ck, prog)
    ck.exhaustive = True
