"""C19 - port discovery picks only EiBotBoards, in enumeration order, and finds by name.

The discovery functions of both layers are interpreted (vf.interp; nothing runs) on *abstract port
lists*: `comports()` yields a list of 0..3 ports, each a tuple (device_k, description_k, hwid_k) of
opaque strings, and an oracle decides the string predicates of the code from the abstract class of
each port.  Loops over the list are unrolled exactly, so order of preference, first-match-wins and
fall-through are decided by enumeration of the port-class lists, not by pattern matching.

  D1  first-board discovery (findPort / EBB3.find_first): for every list of <= 3 ports over the
      classes {name match, id match, both, neither} the result is the device of the first
      name-matching port, else of the first id-matching port, else None
  D2  identity literals: every product-name test is startswith("EiBotBoard") on the description,
      every id test startswith("USB VID:PID=04D8:FD92") on the hardware id (all sites, both layers)
  D3  listing (listEBBports / list_ebb_ports): exactly the matching port entries, unmodified, in
      order; None when there are none
  D4  lookup (find_named_ebb / find_named): for every list of <= 2 ports over the subsets of match
      criteria {SER= tag in hwid, (name) in description, description[11:] starts with name, device
      starts with name, legacy only: SNR= tag in hwid} the result is the device (original
      spelling) of the first port meeting any criterion, else None; every needle and haystack is
      lower-cased on both sides; None for a None name; the two layers agree except for SNR=
  D5  reported name <-> lookup: list_named_ebbs reports description[11:] / the SER= value / (legacy)
      the SNR= value / the device name; the offset 11 equals len("EiBotBoard")+1 and equals the
      lookup's offset; the tag literals equal the lookup's needles
"""
import ast
import itertools

from ..interp import (Interp, Hooks, Opaque, Str, Slot, Tup, Const, Cmp, IsNone, Truthy, In, NotC,
                      AndC, OrC, Pred, State, ObjRef, Effect, Bound, FuncRef, ExtRef, NONE, TRUE, FALSE,
                      fold_cond, type_of)
from ..ebb3 import most_derived, Engine
from ..poly import Sym
from ..model import AnalysisError
from ..loops import UnrollMixin

NAME_LIT = 'EiBotBoard'
ID_LIT = 'USB VID:PID=04D8:FD92'
OFFSET = len(NAME_LIT) + 1
QUERY = Opaque('param:port_name', (), 'str')      # the name being looked up


def port(k):
    return Tup((Opaque('device_%d' % k, (), 'str'), Opaque('description_%d' % k, (), 'str'),
                Opaque('hwid_%d' % k, (), 'str')), 'tuple')


def field_of(v):
    """(k, field index, lowered?, offset) if v derives from a port field by lower()/slicing."""
    lowered, offset = False, 0
    while True:
        if isinstance(v, Opaque) and v.label == 'm:lower' and v.args:
            lowered = True
            v = v.args[0]
        elif isinstance(v, Opaque) and v.label == 'slice' and v.args[2] == NONE and v.args[3] == NONE \
                and isinstance(v.args[1], Sym) and v.args[1].is_const():
            offset += int(v.args[1].const_value())
            v = v.args[0]
        else:
            break
    if isinstance(v, Opaque):
        for i, pre in enumerate(('device_', 'description_', 'hwid_')):
            if v.label.startswith(pre) and not v.args:
                return int(v.label[len(pre):]), i, lowered, offset
    return None


def needle_of(v):
    """(prefix, suffix, fully lower-cased?) if v is built as prefix + QUERY + suffix."""
    if isinstance(v, Opaque) and v.label == 'm:lower' and v.args:
        inner = needle_of(v.args[0])
        if inner is None:
            return None
        return inner[0].lower(), inner[1].lower(), True
    if v == QUERY:
        return '', '', False
    if isinstance(v, Str):
        parts = list(v.parts)
        slots = [p for p in parts if isinstance(p, Slot)]
        if len(slots) != 1:
            return None
        i = parts.index(slots[0])
        pre = ''.join(p for p in parts[:i] if isinstance(p, str))
        suf = ''.join(p for p in parts[i + 1:] if isinstance(p, str))
        inner = needle_of(slots[0].value)
        if inner is None or inner[0] or inner[1]:
            return None
        lowered = inner[2] and pre == pre.lower() and suf == suf.lower()
        return pre, suf, lowered
    return None


PENDING = []      # (instance, condition) of cases the oracles could not decide


class PortOracle(UnrollMixin, Hooks):
    unroll = True
    fork_undecided = True

    def loop(self, interp, node, st):
        return self.unroll_loop(interp, node, st)

    """classes[k] = set of criteria that hold for port k."""

    def __init__(self, ports, classes):
        self.ports = ports
        self.classes = classes
        self.problems = []
        self.literal_sites = []
        self.undecided = []

    def problem(self, msg):
        if msg not in self.problems:
            self.problems.append(msg)

    def call(self, interp, target, args, kwargs, st, node):
        if isinstance(target, ExtRef) and target.dotted.endswith('comports'):
            return [(Tup(tuple(self.ports), 'list'), st)]
        return None

    def decide(self, cond, st):
        r = self._decide(cond, st)
        if r is None and isinstance(cond, Truthy):
            self.regex_use(cond.v)
        if r is None and not isinstance(cond, (AndC, OrC, NotC, Const)) and \
                fold_cond(cond) is None and not self.problems:
            # a condition about the ports that the oracle has no answer for: both outcomes are
            # explored, so a mismatch in this case is not a verdict
            self.undecided.append(cond)
        return r

    def regex_use(self, v):
        """A match of a compiled / literal pattern against a port field whose pattern text
        contains the looked-up name *not* passed through re.escape: names are arbitrary text
        (the library reports them from descriptors), so 'Pen[2]', 'Lab (B)' or 'x^2$' change the
        meaning of the pattern or make it invalid."""
        if not (isinstance(v, Opaque) and v.label in ('m:search', 'm:match', 'm:fullmatch',
                                                      'call:re.search', 'call:re.match',
                                                      'call:re.fullmatch', 'm:findall',
                                                      'call:re.findall') and v.args):
            return
        pat = v.args[0]
        if isinstance(pat, Opaque) and pat.label == 'call:re.compile' and pat.args:
            pat = pat.args[0]

        def raw_name(x):
            if x == QUERY:
                return True
            if isinstance(x, Opaque):
                if x.label in ('call:re.escape',):
                    return False
                return any(raw_name(a) for a in x.args)
            if isinstance(x, Str):
                return any(isinstance(p_, Slot) and raw_name(p_.value) for p_ in x.parts)
            if isinstance(x, Tup):
                return any(raw_name(a) for a in x.items)
            return False
        if raw_name(pat):
            self.problem('the looked-up name is placed in a regular expression without '
                         're.escape: a name such as "Pen[2]" or "Lab (B)" is then read as '
                         'pattern syntax and the board that reports this name is not found '
                         '(or re.error is raised)')

    name_len = 5        # length of the name looked up (find_named*): decides len(name) tests
    name_has_space = False     # the looked-up name contains a blank

    def _decide(self, cond, st):
        # "the description carries a name after the product string": class bit T
        if isinstance(cond, Truthy):
            f = field_of(cond.v)
            if f is not None and f[1] == 1 and not f[2] and f[3] == OFFSET:
                return 'T' in self.classes[f[0]]
        if isinstance(cond, Cmp) and cond.op in ('==', '!=') and isinstance(cond.b, Str) and \
                cond.b.is_lit() and cond.b.text() == '':
            f = field_of(cond.a)
            if f is not None and f[1] == 1 and not f[2] and f[3] == OFFSET:
                return ('T' not in self.classes[f[0]]) == (cond.op == '==')
        if isinstance(cond, Cmp) and isinstance(cond.a, Sym) and isinstance(cond.b, Sym):
            # comparisons on the length of the looked-up name
            lens = [a for a in (cond.a - cond.b).all_atoms()
                    if a[0] == 'f' and a[1] == 'LEN' and 'param:port_name' in repr(a)]
            if lens and all(a in lens or a[0] != 'v' for a in (cond.a - cond.b).atoms()):
                val = (cond.a - cond.b).subs({a: Sym.const(self.name_len) for a in lens})
                if val.is_const():
                    v = val.const_value()
                    return {'<': v < 0, '<=': v <= 0, '>': v > 0, '>=': v >= 0, '==': v == 0,
                            '!=': v != 0}[cond.op]
        if isinstance(cond, Pred) and cond.name == 'startswith' and len(cond.args) == 2:
            hay, needle = cond.args
            f = field_of(hay)
            if f is None:
                return None
            k, idx, lowered, offset = f
            if isinstance(needle, Str) and needle.is_lit():
                lit = needle.text()
                self.literal_sites.append((idx, lit))
                if idx == 1 and not lowered and offset == 0:
                    if lit != NAME_LIT:
                        self.problem('product-name test uses %r, expected %r' % (lit, NAME_LIT))
                        return None
                    return 'N' in self.classes[k]
                if idx == 2 and not lowered and offset == 0:
                    if lit != ID_LIT:
                        self.problem('USB id test uses %r, expected %r' % (lit, ID_LIT))
                        return None
                    return 'V' in self.classes[k]
                self.problem('literal prefix test %r on field %d of the port entry' % (lit, idx))
                return None
            nd = needle_of(needle)
            if nd is not None and nd[0] == '' and nd[1] == '':
                if not (lowered and nd[2]):
                    self.problem('a name comparison is not lower-cased on both sides (field %d)'
                                 % idx)
                    return None
                if idx == 1:
                    if offset != OFFSET:
                        self.problem('the reported-name comparison skips %d characters of the '
                                     'description; the name starts after "%s " (%d)'
                                     % (offset, NAME_LIT, OFFSET))
                        return None
                    return 'P3' in self.classes[k]
                if idx == 0 and offset == 0:
                    return 'P4' in self.classes[k]
                self.problem('name prefix test on field %d at offset %d' % (idx, offset))
            return None
        if isinstance(cond, In) and isinstance(cond.item, Str) and cond.item.is_lit() and \
                cond.item.text() in (NAME_LIT, ID_LIT) and field_of(cond.container) is not None:
            self.problem('the identity literal %r is tested as a substring of field %d; the '
                         'identity tests are prefix tests' % (cond.item.text(),
                                                              field_of(cond.container)[1]))
            return None
        if isinstance(cond, In):
            item, respaced = cond.item, False
            while isinstance(item, Opaque) and item.label == 'm:replace' and len(item.args) == 3 \
                    and item.args[1] == Str.lit(' ') and isinstance(item.args[2], Str) and \
                    item.args[2].is_lit() and item.args[2].text() != ' ':
                item, respaced = item.args[0], True
            nd = needle_of(item)
            f = field_of(cond.container)
            if nd is None or f is None:
                return None
            if respaced and self.name_has_space:
                # the criteria say the entry holds the name as given; with its spaces rewritten
                # the needle is a different text and is not found there
                return False
            k, idx, lowered, offset = f
            pre, suf, nlow = nd
            if not (lowered and nlow):
                self.problem('the %r needle or its haystack is not lower-cased on both sides'
                             % (pre + '<name>' + suf))
                return None
            if offset != 0:
                return None
            key = {('ser=', '', 2): 'P1', ('(', ')', 1): 'P2', ('snr=', '', 2): 'P5'}.get(
                (pre, suf, idx))
            if key is None:
                self.problem('unexpected lookup criterion %r in field %d' % (pre + '<name>' + suf, idx))
                return None
            return key in self.classes[k]
        return None


STALE_NAME = Opaque('PORT_NAME_OF_AN_EARLIER_SEARCH', (), 'str')


def run_fn(prog, fn, hooks, args=None, self_cls=None):
    it = Interp(prog, hooks)
    if fn.cls is not None:
        it.self_cls = self_cls or fn.cls
        # the object may have searched before: what it found then must not survive a search
        # that finds nothing now
        st = State(fields={('self', 'port_name'): STALE_NAME})
        return it.run(fn, [], args or {}, st=st, self_obj=ObjRef('self', it.self_cls))
    return it.run(fn, [], args or {})


def class_lists(classes, max_n):
    for n in range(max_n + 1):
        for combo in itertools.product(classes, repeat=n):
            yield combo


# ---------------------------------------------------------------------------- D1 / D3
FIRST_CLASSES = [frozenset(), frozenset('N'), frozenset('V'), frozenset('NV'),
                 # the same boards carrying a name after the product string (bit T): whether a
                 # board is an EBB does not depend on its being named
                 frozenset('NT'), frozenset('NVT')]


def expected_first(combo):
    for k, c in enumerate(combo):
        if 'N' in c:
            return k
    for k, c in enumerate(combo):
        if 'V' in c:
            return k
    return None


def describe(combo):
    return '[' + ', '.join('+'.join(sorted(c)) or '-' for c in combo) + ']'


def check_first(ck, prog, fn, result_of, label, max_n=3):
    n = 0
    sites = set()
    for combo in class_lists(FIRST_CLASSES, max_n):
        ports = [port(k) for k in range(len(combo))]
        hk = PortOracle(ports, combo)
        outs = run_fn(prog, fn, hk)
        want_k = expected_first(combo)
        want = ports[want_k].items[0] if want_k is not None else NONE
        got = set()
        for o in outs:
            got.add('raise' if o.kind == 'raise' else repr(result_of(o)))
        sites.update(hk.literal_sites)
        n += 1
        inst = '%s ports=%s' % (fn.qualname, describe(combo))
        if hk.problems:
            ck.ob('C19-D2-identity-literals', inst, False, '%s: %s' % (fn.qualname, '; '.join(hk.problems)),
                  fn.loc(), key=fn.qualname + '::literals')
            continue
        if hk.undecided and got != {repr(want)} and repr(want) in got:
            PENDING.append((inst, hk.undecided[0]))
            continue
        ck.ob('C19-D1-first-board', inst, got == {repr(want)},
              '%s on a port list with classes %s (N = description starts with the product name, '
              'V = hardware id starts with the EBB VID:PID) yields %s; expected %s: first name '
              'match, otherwise first id match, otherwise None'
              % (fn.qualname, describe(combo), sorted(got), repr(want)), fn.loc(),
              key=fn.qualname + '::first-board')
    ck.floor('%s port-class lists' % label, n, 85)
    return sites


def check_listing(ck, prog, fn, max_n=3):
    n = 0
    for combo in class_lists(FIRST_CLASSES, max_n):
        ports = [port(k) for k in range(len(combo))]
        hk = PortOracle(ports, combo)
        outs = run_fn(prog, fn, hk)
        keep = [ports[k] for k, c in enumerate(combo) if c & {'N', 'V'}]
        want = Tup(tuple(keep), 'list') if keep else NONE
        got = {('raise' if o.kind == 'raise' else repr(o.value)) for o in outs}
        n += 1
        inst = '%s ports=%s' % (fn.qualname, describe(combo))
        if hk.problems:
            ck.ob('C19-D2-identity-literals', inst, False, '%s: %s' % (fn.qualname, '; '.join(hk.problems)),
                  fn.loc(), key=fn.qualname + '::literals')
            continue
        if hk.undecided and got != {repr(want)} and repr(want) in got:
            PENDING.append((inst, hk.undecided[0]))
            continue
        ck.ob('C19-D3-listing', inst, got == {repr(want)},
              '%s on a port list with classes %s returns %s; expected exactly the entries that '
              'match either test, unmodified and in order (None when there are none)'
              % (fn.qualname, describe(combo), sorted(got)), fn.loc(), key=fn.qualname + '::listing')
    ck.floor('%s port-class lists' % fn.name, n, 85)


# ---------------------------------------------------------------------------- D4
def lookup_classes(legacy):
    crit = ['P1', 'P2', 'P3', 'P4'] + (['P5'] if legacy else [])
    out = [frozenset()]
    for c in crit:
        out.append(frozenset([c]))
    out.append(frozenset(crit))
    out.append(frozenset(['P3', 'P4']))
    if not legacy:
        out.append(frozenset(['P5']))       # the old tag means nothing to the EBB3 layer
    return out


def check_lookup(ck, prog, fn, legacy, max_n=2):
    n = 0
    classes = lookup_classes(legacy)
    active = {'P1', 'P2', 'P3', 'P4'} | ({'P5'} if legacy else set())
    pname = fn.params[0]
    for combo, nlen, blank in [(c, n_, b_) for c in class_lists(classes, max_n)
                               for n_, b_ in ((5, False), (21, False), (5, True))]:
        ports = [port(k) for k in range(len(combo))]
        hk = PortOracle(ports, combo)
        hk.name_len = nlen          # a short name and one longer than any "nickname" limit
        hk.name_has_space = blank   # a name with a blank in it ("East Plotter")
        outs = run_fn(prog, fn, hk, {pname: QUERY})
        want = NONE
        for k, c in enumerate(combo):
            if c & active:
                want = ports[k].items[0]
                break
        got = {('raise' if o.kind == 'raise' else repr(o.value)) for o in outs}
        n += 1
        inst = '%s ports=%s name of %d characters%s' % (fn.qualname, describe(combo), nlen,
                                                       ' with a blank' if blank else '')
        if hk.problems:
            ck.ob('C19-D4-case-insensitive', inst, False,
                  '%s: %s' % (fn.qualname, '; '.join(hk.problems)), fn.loc(),
                  key=fn.qualname + '::criteria')
            continue
        if hk.undecided and got != {repr(want)} and repr(want) in got:
            PENDING.append((inst, hk.undecided[0]))
            continue
        ck.ob('C19-D4-lookup', inst, got == {repr(want)},
              '%s with ports meeting the criteria %s (P1 SER= tag, P2 (name) in description, P3 '
              'description[11:] starts with name, P4 device starts with name, P5 SNR= tag) returns '
              '%s; expected %s: the device of the first port meeting any criterion'
              % (fn.qualname, describe(combo), sorted(got), repr(want)), fn.loc(),
              key=fn.qualname + '::lookup')
    ck.floor('%s criteria lists' % fn.name, n, 50)
    outs = run_fn(prog, fn, PortOracle([port(0)], [frozenset(['P1'])]), {pname: NONE})
    ck.ob('C19-D4-lookup-none', fn.qualname, all(o.kind == 'return' and o.value == NONE for o in outs),
          '%s(None) does not return None' % fn.qualname, fn.loc(), key=fn.qualname + '::none-name')


# ---------------------------------------------------------------------------- D5
class NamedOracle(UnrollMixin, Hooks):
    unroll = True
    fork_undecided = True

    def loop(self, interp, node, st):
        return self.unroll_loop(interp, node, st)

    """list_named_ebbs on a list holding one abstract board of a given naming class."""

    def __init__(self, lister_quals, case):
        self.lister_quals = lister_quals
        self.case = case
        self.finds = []
        self.undecided = []

    def call(self, interp, target, args, kwargs, st, node):
        if isinstance(target, FuncRef) and target.qual in self.lister_quals:
            return [(Tup((port(0),), 'list'), st)]
        return None

    def decide(self, cond, st):
        r = self._decide(cond, st)
        if r is None and not isinstance(cond, (AndC, OrC, NotC, Const)) and fold_cond(cond) is None:
            self.undecided.append(cond)
        return r

    def _decide(self, cond, st):
        c = self.case
        if isinstance(cond, Pred) and cond.name == 'startswith':
            f = field_of(cond.args[0])
            if f and f[1] == 1 and isinstance(cond.args[1], Str) and cond.args[1].is_lit() \
                    and cond.args[1].text() == NAME_LIT:
                return c in ('named', 'unnamed-board')
        if isinstance(cond, Truthy):
            f = field_of(cond.v)
            if f and f[1] == 1:
                return c == 'named'
            t = find_tag(cond.v)
            if t is not None and t[0] in ('SER=', 'SNR='):
                # the text after the tag: a tag of the case's kind carries 8 (or 2) characters
                if c.startswith(t[0][:3].lower()):
                    return True
            if isinstance(cond.v, Opaque) and cond.v.label == 'item' and len(cond.v.args) == 2 and \
                    isinstance(cond.v.args[0], Opaque) and cond.v.args[0].label == 'm:partition' and \
                    len(cond.v.args[0].args) == 2 and isinstance(cond.v.args[0].args[1], Str) and \
                    cond.v.args[0].args[1].is_lit() and cond.v.args[1] == Sym.const(1):
                # hwid.partition(TAG)[1] is TAG when it occurs, '' otherwise
                return self._decide(In(cond.v.args[0].args[1], cond.v.args[0].args[0]), st)
        if isinstance(cond, Cmp) and isinstance(cond.a, Opaque) and cond.a.label == 'm:find' and \
                len(cond.a.args) == 2 and isinstance(cond.a.args[1], Str) and \
                cond.a.args[1].is_lit() and isinstance(cond.b, Sym) and cond.b.is_const():
            # hwid.find(TAG) compared with 0 / -1: "TAG occurs" / "does not occur"
            present = self._decide(In(cond.a.args[1], cond.a.args[0]), st)
            k_ = cond.b.const_value()
            if present is not None:
                table = {('<', 0): not present, ('>=', 0): present, ('==', -1): not present,
                         ('!=', -1): present, ('>', -1): present, ('<=', -1): not present}
                if (cond.op, k_) in table:
                    return table[(cond.op, k_)]
        if isinstance(cond, Cmp) and cond.op in ('==', '!=') and isinstance(cond.b, Str) and \
                cond.b.is_lit() and cond.b.text() == '':
            # description[11:] == ''  <=>  no name after the product string
            f = field_of(cond.a)
            if f and f[1] == 1:
                return (c != 'named') == (cond.op == '==')
        if isinstance(cond, In) and isinstance(cond.item, Str) and cond.item.is_lit():
            f = field_of(cond.container)
            if f and f[1] == 2:
                lit = cond.item.text()
                if lit in ('SER=', ' LOCAT'):
                    return c.startswith('ser')
                if lit == 'SNR=':
                    return c.startswith('snr')
        if isinstance(cond, Cmp) and isinstance(cond.a, Sym):
            if any(at[0] == 'f' and at[1] == 'LEN' for at in cond.a.atoms()):
                # the serial tag is 8 characters long, or 2 in the "-short" cases (a tag of fewer
                # than 3 characters is not taken for a name; the device name is reported)
                n_ = 2 if c.endswith('-short') else 8
                assign = {at: Sym.const(n_) for at in cond.a.atoms() if at[0] == 'f'}
                return fold_cond(Cmp(cond.op, cond.a.subs(assign), cond.b))
        if isinstance(cond, IsNone) and isinstance(cond.v, Opaque):
            return False
        return None


def find_tag(v):
    """For hwid[find(hwid, TAG) + len(TAG) : END] return (TAG, added, END description); the same
    text written with str.partition - hwid.partition(TAG)[2], optionally cut at the next marker
    with .partition(MARK)[0] - is recognised as well."""
    def part(x, k):
        if isinstance(x, Opaque) and x.label == 'item' and len(x.args) == 2 and \
                x.args[1] == Sym.const(k) and isinstance(x.args[0], Opaque) and \
                x.args[0].label == 'm:partition' and len(x.args[0].args) == 2 and \
                isinstance(x.args[0].args[1], Str) and x.args[0].args[1].is_lit():
            return x.args[0].args[0], x.args[0].args[1].text()
        return None
    after = part(v, 2)
    if after is not None:
        f = field_of(after[0])
        if f and f[1] == 2:
            return after[1], len(after[1]), 'end'
    before = part(v, 0)
    if before is not None:
        inner = part(before[0], 2)
        if inner is not None:
            f = field_of(inner[0])
            if f and f[1] == 2:
                return inner[1], len(inner[1]), 'find(%r)' % before[1]
    if not (isinstance(v, Opaque) and v.label == 'slice'):
        return None
    src, lo, hi, step = v.args
    f = field_of(src)
    if not f or f[1] != 2:
        return None
    tag = added = None
    if isinstance(lo, Opaque) and lo.label == 'binop:Add':
        a, b = lo.args
        if isinstance(a, Opaque) and a.label == 'm:find' and isinstance(a.args[1], Str) and \
                isinstance(b, Sym) and b.is_const():
            tag, added = a.args[1].text(), int(b.const_value())
    end = 'end'
    if isinstance(hi, Opaque) and hi.label == 'm:find' and isinstance(hi.args[1], Str):
        end = 'find(%r)' % hi.args[1].text()
    elif isinstance(hi, Sym):
        end = 'len' if any(at[0] == 'f' and at[1] == 'LEN' for at in hi.atoms()) else repr(hi)
    return tag, added, end


def check_reported_names(ck, prog, fn, lister_quals, legacy):
    cases = ['named', 'unnamed-board', 'ser', 'ser-short', 'other'] + (
        ['snr', 'snr-short'] if legacy else [])
    for case in cases:
        hk = NamedOracle(lister_quals, case)
        outs = run_fn(prog, fn, hk)
        inst = '%s[%s]' % (fn.qualname, case)
        vals = set()
        for o in outs:
            if o.kind == 'return' and isinstance(o.value, Tup) and len(o.value.items) == 1:
                vals.add(o.value.items[0])
            else:
                vals.add(None)
        if (len(vals) != 1 or None in vals) and hk.undecided:
            PENDING.append((inst, hk.undecided[0]))
            continue
        if len(vals) != 1 or None in vals:
            ck.ob('C19-D5-reported-name', inst, False,
                  '%s does not report exactly one name for a single %s board' % (fn.qualname, case),
                  fn.loc(), key=fn.qualname + '::reported:' + case)
            continue
        v = vals.pop()
        if case == 'named':
            f = field_of(v)
            ok = f is not None and f[1] == 1 and not f[2] and f[3] == OFFSET
            msg = 'reports %r for a named board; expected description[%d:] (the text after ' \
                  '"%s "), which is what the lookup compares' % (v, OFFSET, NAME_LIT)
        elif case.endswith('-short'):
            f = field_of(v)
            ok = f is not None and f[1] == 0 and not f[2] and f[3] == 0
            msg = 'reports %r for a board whose serial tag has fewer than 3 characters; such a ' \
                  'tag is not a name and the device name is reported (every board must get ' \
                  'exactly one entry, in order)' % (v,)
        elif case in ('ser', 'snr'):
            t = find_tag(v)
            tag = 'SER=' if case == 'ser' else 'SNR='
            ok = t is not None and t[0] == tag and t[1] == len(tag) and \
                t[2] in (("find(' LOCAT')",) if case == 'ser' else ('len', 'end'))
            msg = 'reports %r for a board identified by its %s tag; expected the text after the ' \
                  'tag (tag, skipped, end) = %s' % (v, tag, t)
        else:
            f = field_of(v)
            ok = f is not None and f[1] == 0 and not f[2] and f[3] == 0
            msg = 'reports %r for a board without a name; expected its device name' % (v,)
        ck.ob('C19-D5-reported-name', inst, ok, '%s %s' % (fn.qualname, msg), fn.loc(),
              key=fn.qualname + '::reported:' + case)


def run(ck, prog, tier):
    ck.explanation = (
        'The discovery functions of both layers interpreted abstractly on port lists of opaque '
        '(device, description, hwid) entries; an oracle decides the code\'s string predicates '
        'from the abstract class of each port and refuses predicates whose literal, field or '
        'case-folding differs from the specification. D1 first-board discovery and D3 listing '
        'over all 85 lists of <= 3 ports x 4 classes; D4 lookup over all lists of <= 2 ports x '
        '7-8 criteria classes, lower-casing on both sides required, None for None; D5 the names '
        'reported by list_named_ebbs are exactly what the lookup criteria compare (offset 11, '
        'SER=/SNR= tags).')
    ck.trusted = ['Python ast', 'vf/interp.py (exact unrolling of loops over the abstract list)',
                  'USB VID 04D8 / PID FD92 and the product string "EiBotBoard"']
    ck.assumptions = ['what descriptor strings each OS produces; substring collisions between '
                      'different boards (the statement excludes them: "whenever no earlier port '
                      'also matches")']
    del PENDING[:]
    base, cls, family = most_derived(prog)
    f_first_l = prog.func('ebb_serial.findPort')
    f_first_e = prog.func('ebb3_serial.EBB3.find_first')
    deep = tier == 'thorough'
    s1 = check_first(ck, prog, f_first_l, lambda o: o.value, 'findPort', 4 if deep else 3)
    s2 = check_first(ck, prog, f_first_e, lambda o: o.state.fields.get(('self', 'port_name'), NONE),
                     'find_first', 4 if deep else 3)
    for q in ('ebb_serial.listEBBports', 'ebb3_serial.list_ebb_ports'):
        check_listing(ck, prog, prog.func(q), 4 if deep else 3)
    check_lookup(ck, prog, prog.func('ebb_serial.find_named_ebb'), True, 3 if deep else 2)
    check_lookup(ck, prog, prog.func('ebb3_serial.find_named'), False, 3 if deep else 2)
    check_reported_names(ck, prog, prog.func('ebb_serial.list_named_ebbs'),
                         {'ebb_serial.listEBBports'}, True)
    check_reported_names(ck, prog, prog.func('ebb3_serial.list_named_ebbs'),
                         {'ebb3_serial.list_ebb_ports'}, False)
    from .. import purity
    purity.check(ck, prog, ['ebb_serial.findPort', 'ebb_serial.listEBBports', 'ebb_serial.list_named_ebbs',
                            'ebb_serial.find_named_ebb', 'ebb3_serial.EBB3.find_first',
                            'ebb3_serial.list_ebb_ports', 'ebb3_serial.list_named_ebbs',
                            'ebb3_serial.find_named'], 'C19-R-fresh-enumeration',
                 note='discovery must answer from the ports enumerated by this call')
    ck.sample({'identity_literal_sites': sorted(s1 | s2)})
    if PENDING and not ck.violations:
        raise AnalysisError('%d abstract port lists were not decided: the oracle has no answer for '
                            '%r (%s)' % (len(PENDING), PENDING[0][1], PENDING[0][0]))
    ck.exhaustive = True
