"""C04 - the EBB3 connection object latches its first error and then transmits nothing.

Decided by interpreting every method of the EBB3 class family from the four typestates of
(port, err) - see vf/ebb3.py - and looking at the outcomes, not at the spelling of the guards:

  D1  first-error-wins: from a typestate with an error recorded no method (request, helper,
      connect, disconnect, record_error itself) ends with a different `err`, on any path
  D2  blocked => silent: in ERR / DISC / DISC_ERR every method except `connect` puts no bytes on
      the port on any path (direct writes and writes inside the primitives it calls)
  D3  blocked => failure value: every request method (one that can transmit from OK) returns
      None / False / a tuple of None in the blocked typestates and does not raise
  D4  nothing after the error: on every path from OK (faults injected at every port call), once
      an error has been recorded no later transmission occurs in the same call
  D5  no side door: outside the class family nothing stores to `.err` / `.port` of an object or
      calls I/O on `<x>.port`; no reflective attribute stores inside the family
"""
import ast
import os

from ..ebb3 import (Engine, most_derived, public_methods, ALL_TS, BLOCKED_TS, OK, ERR, DISC, DISC_ERR,
                    port_writes, is_port_call, classify_ret, FAILURE_CLASSES, ERR0, PORT, PORT_IO,
                    ts_of_state, describe_effect)
from ..interp import Opaque, NONE, Str
from ..model import AnalysisError, Program
from ..report import Check, VERIF

# loops the engines summarise on purpose (retry / pause / enumeration loops are judged by the
# loop rules of this check, not by unrolling)
EXPECTED_GAPS = {('loop', '*')}

NOT_REQUESTS = ('connect', 'disconnect', '__init__')


def method_overrides(fn):
    """String-typed abstract argument for request-text parameters of the primitives."""
    over = {}
    if fn.name in ('command', 'query') and len(fn.params) > 1:
        over[fn.params[1]] = Opaque('param:' + fn.params[1], (), 'str')
    if fn.name == 'write_nickname' and len(fn.params) > 1:
        over[fn.params[1]] = Opaque('param:' + fn.params[1], (), 'str')
    if fn.name == 'parse_version' and len(fn.params) > 1:
        over[fn.params[1]] = Opaque('param:' + fn.params[1], (), 'str')
    if fn.name in ('min_version',) and len(fn.params) > 1:
        over[fn.params[1]] = Opaque('param:' + fn.params[1], (), 'str')
    if fn.name in ('connect', '_get_port_name') and len(fn.params) > 1:
        over[fn.params[1]] = Opaque('param:' + fn.params[1], (), 'str')
    return over


def analyse(ck, prog, fixture=False, use_base=False, tag=''):
    base, cls, family = most_derived(prog)
    if use_base:
        cls = base
    eng = Engine(prog, cls)
    methods = public_methods(cls)
    ck.saw('classes', [c.module.name + '.' + c.name for c in family])
    results = {}
    # ---- which methods are requests: can transmit from OK
    requests = []
    direct_sites = 0
    for name, fn in sorted(methods.items()):
        if name.startswith('_'):
            continue      # private helpers are not entry points; they are analysed inlined
        outs_ok = eng.run(name, OK, overrides=method_overrides(fn))
        results[(name, OK.name)] = outs_ok
        if any(port_writes(o.state.effects) for o in outs_ok) and name not in NOT_REQUESTS:
            requests.append(name)
        for node in ast.walk(fn.node):
            if isinstance(node, ast.Call) and isinstance(node.func, ast.Attribute) and \
                    node.func.attr == 'write':
                direct_sites += 1
    ck.saw('request_methods', requests)
    ck.floor('request methods%s' % (' (base class)' if use_base else ''), len(requests),
             3 if fixture else (10 if use_base else 30))
    # (a count of syntactic sites: refactorings legitimately merge them; one must remain)
    ck.floor('direct port.write sites', direct_sites, 1)

    for name, fn in sorted(methods.items()):
        if name.startswith('_'):
            continue      # private helpers are not entry points; they are analysed inlined
        loc = fn.loc()
        qual = fn.qualname
        for ts in BLOCKED_TS:
            outs = eng.run(name, ts, overrides=method_overrides(fn))
            results[(name, ts.name)] = outs
            # D1 err never replaced (all methods)
            if ts.err_set:
                bad = None
                for o in outs:
                    fin = o.state.fields.get(('self', 'err'), NONE)
                    if fin != ERR0:
                        bad = 'ends with err = %s' % ('None (error cleared)' if fin == NONE
                                                      else 'a new message')
                    for e in o.state.effects:
                        if e.kind == 'store' and e.target == 'self.err' and e.args[0] != ERR0:
                            bad = 'stores %s into self.err at line %d' % (
                                'None' if e.args[0] == NONE else 'a new value', e.line)
                    if bad:
                        break
                ck.ob('C04-D1-first-error-wins', '%s from %s' % (qual, ts.name), bad is None,
                      '%s called with an error already recorded %s: the first message is replaced'
                      % (qual, bad), loc, key='%s::err-replaced' % qual)
            if name == 'connect':
                continue
            # D2 blocked => nothing transmitted
            w = None
            for o in outs:
                ws = port_writes(o.state.effects)
                if ws:
                    w = ws[0]
                    break
            ck.ob('C04-D2-blocked-silent', '%s from %s' % (qual, ts.name), w is None,
                  '%s transmits (%s, line %s) although the object is in state %s'
                  % (qual, describe_effect(w) if w else '', w.line if w else '', ts.name),
                  loc, key='%s::transmits-when-blocked' % qual)
            # D3 failure value, no exception (request methods)
            if name in requests:
                bad = None
                for o in outs:
                    if o.kind == 'raise':
                        bad = 'raises %s' % o.value
                        break
                    c = classify_ret(o.value)
                    if c not in FAILURE_CLASSES:
                        bad = 'returns a %s value (not None/False)' % c
                        break
                ck.ob('C04-D3-failure-value', '%s from %s' % (qual, ts.name), bad is None,
                      '%s in state %s %s instead of returning its failure value'
                      % (qual, ts.name, bad), loc, key='%s::no-failure-value' % qual)
        # D4 nothing transmitted after an error was recorded within the call
        for ts in (OK, DISC):
            outs = results.get((name, ts.name)) or eng.run(name, ts, overrides=method_overrides(fn))
            bad = None
            for o in outs:
                err = False
                for e in o.state.effects:
                    is_w = is_port_call(e, ('write', 'writelines')) or (
                        e.kind == 'summary' and e.args[0].get('wrote'))
                    if is_w and err:
                        bad = 'transmits (%s, line %d) after an error was recorded earlier in ' \
                              'the same call' % (describe_effect(e), e.line)
                        break
                    if e.kind == 'store' and e.target == 'self.err' and e.args[0] != NONE:
                        err = True
                    if e.kind == 'summary' and e.args[0].get('err_set'):
                        err = True
                if bad:
                    break
            ck.ob('C04-D4-nothing-after-error', '%s from %s' % (qual, ts.name), bad is None,
                  '%s %s' % (qual, bad), loc, key='%s::transmits-after-error' % qual)

    # record_error semantics from the error-free state: the message is stored
    fn = eng.method('record_error')
    outs = eng.run('record_error', OK)
    ok = all(o.kind == 'return' and o.state.fields.get(('self', 'err')) not in (None, NONE)
             for o in outs) and len(outs) >= 1
    ck.ob('C04-D1-recorder-records', fn.qualname, ok,
          'record_error does not store the message when no error was recorded before',
          fn.loc(), key='%s::does-not-record' % fn.qualname)

    check_disconnect(ck, eng, 'C04-D6-disconnect')

    side_doors(ck, prog, family)
    ck.extra['engine_stats'] = eng.stats
    return requests


def check_disconnect(ck, eng, rule):
    """Disconnecting always works: whatever close() does, the object ends up not connected."""
    fn = eng.method('disconnect')
    for ts in ALL_TS:
        outs = eng.run('disconnect', ts)
        bad = None
        for o in outs:
            if o.kind == 'raise':
                bad = 'raises %s' % o.value
            elif o.state.fields.get(('self', 'port'), NONE) != NONE:
                bad = 'returns with self.port still set%s' % (
                    ' (path on which closing the port raised)' if any(
                        n[0] == 'caught' for n in o.state.notes) else '')
            if bad:
                break
        ck.ob(rule, '%s from %s' % (fn.qualname, ts.name), bad is None,
              'disconnect %s: the object is then not "not connected" and later requests '
              'transmit on a closed/broken port' % bad, fn.loc(),
              key='%s::port-survives-disconnect' % fn.qualname)


def check_faults_are_recorded(ck, prog, tier):
    """D7 - the latch presupposes that a fault *is* recorded: command / query report a device
    error reply, an unexpected reply, a timeout and a USB exception through err (third mechanism
    of the property).  The decision tables and fault rules of the C05 analysis decide exactly
    that; their verdicts on "a failing exchange records an error and returns the failure value"
    and "a non-empty line is never read past" are taken over here.  When that analysis cannot be
    carried out on this tree the rule is skipped (it is an additional necessary condition; the
    C05 check reports on its own)."""
    from . import c05
    from ..interp import suspended_gaps
    sub = Check('C05', tier, ck.repo, quiet=True, out_dir=ck.out_dir)
    from ..interp import GAP_EVENTS
    try:
        with suspended_gaps():
            n0 = len(GAP_EVENTS)
            c05.analyse(sub, prog, tier='quick')
            inner_gaps = [g for g in GAP_EVENTS[n0:] if g[0] != 'loop']
    except AnalysisError as exc:
        ck.saw('faults_recorded_rule', 'skipped: %s' % str(exc)[:200])
        ck.extra.setdefault('d7_undecided', []).append('exchange analysis: %s' % str(exc)[:300])
        return check_handshake_faults_are_recorded(ck, prog, tier)
    if inner_gaps:
        why = 'the exchange analysis met constructs it does not model (%s)' % '; '.join(
            '%s %s' % g[:2] for g in inner_gaps[:3])
        ck.saw('faults_recorded_rule', 'skipped: ' + why)
        ck.extra.setdefault('d7_undecided', []).append(why)
        return check_handshake_faults_are_recorded(ck, prog, tier)
    taken = ('C05-D4-success-table', 'C05-D6-failure-latched', 'C05-D6-failure-reported',
             'C05-D5-containment',
             'C05-D2-first-line-is-the-reply')
    bad = [v for v in sub.violations if v['rule'] in taken]
    ck.ob('C04-D7-faults-are-recorded', 'command/query [%d obligations of the exchange analysis, '
          '%d taken over as failed]' % (len(sub.obligations), len(bad)), True)
    seen = set()
    for v in bad:
        # one report per underlying construct (keyed by it, so that a listed finding or a defect
        # repaired since a corpus entry was written stays distinguishable)
        k = 'via:%s:%s' % (v['rule'], v['key'])
        if k in seen:
            continue
        seen.add(k)
        ck.ob('C04-D7-faults-are-recorded', k, False,
              'a failing exchange does not end with an error recorded and the failure value: %s'
              % v['message'][:500], v['loc'], key=k)
    check_handshake_faults_are_recorded(ck, prog, tier)


def check_handshake_faults_are_recorded(ck, prog, tier):
    """D7, handshake part - "unsupported firmware" is the fifth kind of error of the statement
    and connect is the only place that records it: the connect analysis of C15 decides that a
    handshake ends True only for a verified device whose version passed the minimum test, that
    every other handshake records an error, and that an earlier error survives connecting again.
    Those verdicts are taken over (same policy as for the exchange analysis: skipped when the
    analysis cannot be carried out on this tree)."""
    from . import c15
    from ..interp import suspended_gaps, GAP_EVENTS
    from ..ebb3 import Engine
    sub = Check('C15', tier, ck.repo, quiet=True, out_dir=ck.out_dir)
    try:
        with suspended_gaps():
            n0 = len(GAP_EVENTS)
            base, cls, family = c15.most_derived(prog)
            c15.check_connect(sub, Engine(prog, cls))
            inner_gaps = [g for g in GAP_EVENTS[n0:] if g[0] != 'loop']
    except AnalysisError as exc:
        ck.saw('handshake_faults_rule', 'skipped: %s' % str(exc)[:200])
        ck.extra.setdefault('d7_undecided', []).append('connect analysis: %s' % str(exc)[:300])
        return
    if inner_gaps:
        why = 'the connect analysis met constructs it does not model (%s)' % '; '.join(
            '%s %s' % g[:2] for g in inner_gaps[:3])
        ck.saw('handshake_faults_rule', 'skipped: ' + why)
        ck.extra.setdefault('d7_undecided', []).append(why)
        return
    taken = ('C15-D2-verified', 'C15-D2-supported', 'C15-D2-error-kept',
             'C15-D3-failure-recorded')
    bad = [v for v in sub.violations if v['rule'] in taken]
    ck.ob('C04-D7-faults-are-recorded', 'connect [%d obligations of the handshake analysis, '
          '%d taken over as failed]' % (len(sub.obligations), len(bad)), True)
    seen = set()
    for v in bad:
        k = 'via:%s:%s' % (v['rule'], v['key'])
        if k in seen:
            continue
        seen.add(k)
        ck.ob('C04-D7-faults-are-recorded', k, False,
              'a handshake with an unverified / unsupported device does not end with an error '
              'recorded (or clears the one recorded earlier): %s' % v['message'][:500],
              v['loc'], key=k)


def side_doors(ck, prog, family):
    fam_funcs = set()
    for c in family:
        for f in c.methods.values():
            fam_funcs.add(f)
    n_sites = 0
    for fn in prog.all_functions():
        inside = fn in fam_funcs
        for node in ast.walk(fn.node):
            # stores / deletes of .err / .port
            tgts = []
            if isinstance(node, ast.Assign):
                tgts = node.targets
            elif isinstance(node, (ast.AugAssign, ast.AnnAssign)):
                tgts = [node.target]
            elif isinstance(node, ast.Delete):
                tgts = node.targets
            for t in tgts:
                for sub in ast.walk(t):
                    if isinstance(sub, ast.Attribute) and sub.attr in ('err', 'port') and \
                            isinstance(sub.ctx, (ast.Store, ast.Del)):
                        n_sites += 1
                        recv_self = isinstance(sub.value, ast.Name) and sub.value.id == 'self'
                        if isinstance(node, ast.Delete) or not (inside and recv_self):
                            ck.ob('C04-D5-side-door', '%s::%s' % (fn.qualname, ast.unparse(sub)),
                                  False, '%s %s `%s` outside the methods of the connection class: '
                                  'the latch can be bypassed' % (
                                      fn.qualname, 'deletes' if isinstance(node, ast.Delete)
                                      else 'stores to', ast.unparse(sub)), fn.loc(node),
                                  key='%s::side-door:%s' % (fn.qualname, sub.attr))
            if isinstance(node, ast.Call):
                f = node.func
                # reflective stores
                if isinstance(f, ast.Name) and f.id in ('setattr', 'delattr') and len(node.args) >= 2:
                    a = node.args[1]
                    if isinstance(a, ast.Constant) and a.value in ('err', 'port'):
                        ck.ob('C04-D5-side-door', '%s::%s' % (fn.qualname, f.id), False,
                              '%s uses %s(..., %r): the latch can be bypassed'
                              % (fn.qualname, f.id, a.value), fn.loc(node),
                              key='%s::side-door:%s' % (fn.qualname, f.id))
                    elif not isinstance(a, ast.Constant) and (inside or fn.module.name.startswith('ebb3')):
                        raise AnalysisError('%s uses %s with a computed attribute name at %s; the '
                                            'typestate analysis cannot follow it'
                                            % (fn.qualname, f.id, fn.loc(node)))
                # I/O on <x>.port outside the family
                if isinstance(f, ast.Attribute) and f.attr in PORT_IO and \
                        isinstance(f.value, ast.Attribute) and f.value.attr == 'port' and not inside:
                    ck.ob('C04-D5-side-door', '%s::%s' % (fn.qualname, ast.unparse(f)), False,
                          '%s calls %s outside the connection class: bytes can reach the port '
                          'without passing the latch' % (fn.qualname, ast.unparse(f)),
                          fn.loc(node), key='%s::side-door-io' % fn.qualname)
            if isinstance(node, ast.Attribute) and node.attr == '__dict__' and \
                    (inside or fn.module.name.startswith('ebb3')):
                raise AnalysisError('%s touches __dict__ at %s; the typestate analysis cannot '
                                    'follow it' % (fn.qualname, fn.loc(node)))
    ck.ob('C04-D5-side-door', 'package scan (%d stores to .err/.port seen)' % n_sites, True)
    ck.floor('stores to .err/.port', n_sites, 3)


def cross_check_inlined(ck, prog, requests):
    """Thorough tier: the blocked-state rules once more with the primitives INLINED instead of
    summarised (every path through command/query/query_statusbyte explored inside each caller):
    an independent route to D2/D3 that does not rely on the summary abstraction."""
    base, cls, family = most_derived(prog)
    eng = Engine(prog, cls, summarised=())
    methods = public_methods(cls)
    n = 0
    for name, fn in sorted(methods.items()):
        if name.startswith('_') or name == 'connect':
            continue
        for ts in BLOCKED_TS:
            outs = eng.run(name, ts, overrides=method_overrides(fn), summarised=())
            n += len(outs)
            w = None
            bad = None
            for o in outs:
                ws = port_writes(o.state.effects)
                if ws:
                    w = ws[0]
                if name in requests:
                    if o.kind == 'raise':
                        bad = 'raises %s' % o.value
                    elif classify_ret(o.value) not in FAILURE_CLASSES:
                        bad = 'returns a %s value' % classify_ret(o.value)
            ck.ob('C04-D2-blocked-silent', '%s from %s [primitives inlined]' % (fn.qualname, ts.name),
                  w is None, '%s transmits (line %s) in state %s (full-path exploration)'
                  % (fn.qualname, w.line if w else '', ts.name), fn.loc(),
                  key='%s::transmits-when-blocked' % fn.qualname)
            if name in requests:
                ck.ob('C04-D3-failure-value', '%s from %s [primitives inlined]' % (fn.qualname, ts.name),
                      bad is None, '%s in state %s %s (full-path exploration)'
                      % (fn.qualname, ts.name, bad), fn.loc(),
                      key='%s::no-failure-value' % fn.qualname)
    ck.extra['inlined_cross_check_paths'] = n


def run(ck, prog, tier):
    ck.explanation = (
        'Typestate abstract interpretation of every method of the EBB3 class family (parsed '
        'source; nothing runs) from the states OK / ERR / DISC / DISC_ERR of (port, err), with '
        'the serial object opaque and a SerialException injectable at every port call. Decided: '
        'D1 an already recorded error is never replaced or cleared by any method; D2 in every '
        'blocked state no method except connect transmits; D3 every request method returns a '
        'failure value there and does not raise; D4 within one call nothing is transmitted after '
        'an error was recorded; D5 no store to .err/.port or port I/O outside the class.')
    ck.trusted = ['Python ast', 'vf/interp.py abstract interpreter', 'vf/ebb3.py typestate engine '
                  '(summaries of command/query/query_statusbyte are computed from their source)']
    ck.assumptions = ['the serial object is used only through self.port (pyserial API)',
                      'record_error messages are non-empty strings (checked under C05)']
    requests = analyse(ck, prog)
    for r in requests[:12]:
        ck.sample({'request_method': r})
    check_faults_are_recorded(ck, prog, tier)
    if ck.extra.get('d7_undecided') and not ck.violations:
        # the latch presupposes that the fault is recorded; when that part cannot be analysed on
        # this tree the claim "every fault of the five kinds blocks later requests" is not
        # decided - say so instead of passing on the latch rules alone
        raise AnalysisError('C04-D7 (a failing exchange / handshake ends with an error recorded) '
                            'is not decided on this tree: %s' % ck.extra['d7_undecided'][0])
    if tier == 'thorough':
        # the base class on its own (what a user of ebb3_serial.EBB3 gets), and the inlined route
        analyse(ck, prog, use_base=True)
        cross_check_inlined(ck, prog, requests)
    # canary: the rules must fire on the known-bad fixture
    fx = os.path.join(VERIF, 'fixtures', 'c04_bad')
    ck2 = Check('C04', tier, fx, quiet=True)
    from ..interp import suspended_gaps
    try:
        with suspended_gaps():
            analyse(ck2, Program(fx), fixture=True)
    except AnalysisError as exc:
        raise AnalysisError('C04 fixture could not be analysed: %s' % exc)
    fired = {v['rule'] for v in ck2.violations}
    for rule in ('C04-D1-first-error-wins', 'C04-D2-blocked-silent', 'C04-D3-failure-value',
                 'C04-D4-nothing-after-error', 'C04-D5-side-door'):
        ck.canary(rule + ' on fixtures/c04_bad', rule in fired)
    ck.exhaustive = True
