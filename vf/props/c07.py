"""C07 - legacy serial primitives (ebb_serial.query / ebb_serial.command): one write, aligned
replies, no exception on faults, query returns text.

The two primitives are interpreted (vf.interp; nothing runs) with the port an opaque object, every
read a fresh bytes value, and a SerialException injectable at every port call.

  D1  one write: at most one write on any path, exactly one on every fault-free path, it is the
      first port operation, it transmits the encoded request unchanged, and it is not inside a
      loop; with no port or no text nothing touches the port and None is returned
  D2  text discipline (str/bytes typestate): every value `query` returns with a port and a text is
      of type str on every path (including the paths through the exception handlers), and no
      bytes value is used as text ('Err:' in ..., startswith, strip)
  D3  containment: no path lets an exception escape
  D4  alignment: per request kind (the seven documented no-OK queries, ordinary queries,
      commands) and reply scenario - "every read delivers a line" / "nothing ever arrives" - the
      number of reads is exactly 1 / 2 lines consumed resp. 101 / 202 reads before giving up
      (loops unrolled abstractly under the scenario), the no-OK decision is taken on the
      normalised request name (text before the first comma, trimmed, lower-cased), and the value
      returned is the first line read (the data line), '' when nothing arrived
"""
import ast

from ..legacy import PrimHooks, LPORT, is_lport_call, run_helper, SERIAL_EXC
from ..interp import (Interp, Outcome, Opaque, Str, Slot, Tup, Const, Cmp, IsNone, Truthy, In, NotC,
                      AndC, OrC, Pred, State, Effect, Bound, FuncRef, ExtRef, NONE, TRUE, FALSE,
                      fold_cond, type_of)
from ..loops import (analyse_retry_loop, contains_call_attr, UnrollMixin, Unbounded,
                     erase_ordinals)
from ..poly import Sym
from ..model import AnalysisError

# loops the engines summarise on purpose (retry / pause / enumeration loops are judged by the
# loop rules of this check, not by unrolling)
EXPECTED_GAPS = {('loop', '*')}

NO_OK = ('a', 'i', 'mr', 'pi', 'qm', 'qg', 'v')        # documented queries without a trailing OK
OK_QUERIES = ('qb', 'qp', 'qs', 'qc', 'ql', 'qt', 'qe', 'qr', 'zz')   # ordinary (OK-terminated)
RETRY_BOUND = 100
CMD = Opaque('param:cmd', (), 'str')


def run_prim(prog, fn, hooks, port=LPORT, cmd=CMD):
    over = {fn.params[0]: port, fn.params[1]: cmd}
    return run_helper(prog, fn, port=port, overrides=over, hooks=hooks)


def mentions_reply(v):
    if isinstance(v, Opaque):
        if v.label.startswith('reply#') or v.label.startswith('havoc:') or \
                v.label.startswith('loopvar:'):
            return True
        return any(mentions_reply(a) for a in v.args)
    if isinstance(v, Str):
        return any(mentions_reply(p.value) for p in v.parts if isinstance(p, Slot))
    if isinstance(v, (tuple, Tup)):
        return any(mentions_reply(a) for a in (v.items if isinstance(v, Tup) else v))
    return False


def reply_ordinals(v, acc=None):
    acc = set() if acc is None else acc
    if isinstance(v, Opaque):
        if v.label.startswith('reply#'):
            acc.add(int(v.label[6:]))
        if v.label.startswith('havoc:'):
            acc.add(-1)
        for a in v.args:
            reply_ordinals(a, acc)
    elif isinstance(v, Str):
        for p in v.parts:
            if isinstance(p, Slot):
                reply_ordinals(p.value, acc)
    elif isinstance(v, tuple):
        for a in v:
            reply_ordinals(a, acc)
    return acc


def is_name_pipeline(v):
    """v == lower/strip applied (any order, >= one lower) to split(cmd, ',')[0]."""
    seen_lower = False
    while isinstance(v, Opaque) and v.label in ('m:lower', 'm:strip') and v.args:
        if v.label == 'm:lower':
            seen_lower = True
        v = v.args[0]
    if not (isinstance(v, Opaque) and v.label == 'item' and v.args[1] == Sym.const(0)):
        return False
    sp = v.args[0]
    while isinstance(sp, Opaque) and sp.label in ('m:lower', 'm:strip') and sp.args:
        if sp.label == 'm:lower':
            seen_lower = True
        sp = sp.args[0]
    if not (isinstance(sp, Opaque) and sp.label == 'm:split' and len(sp.args) >= 2
            and sp.args[1] == Str.lit(',')):
        return False
    base = sp.args[0]
    while isinstance(base, Opaque) and base.label in ('m:lower', 'm:strip') and base.args:
        if base.label == 'm:lower':
            seen_lower = True
        base = base.args[0]
    return base == CMD and seen_lower


def reply_ordinal_in_text(txt):
    import re
    m = re.findall(r'reply#(\d+)', txt)
    return int(m[-1]) if m else None


class Scenario(UnrollMixin, PrimHooks):
    """Decides the primitive's tests from (request name, every read delivers a line | nothing
    ever arrives)."""

    def __init__(self, name, lines_arrive, inject=False):
        PrimHooks.__init__(self, inject=inject)
        self.name = name
        self.lines = lines_arrive
        self.unroll = True
        self.bytes_used = None
        self.bad_name_test = None
        self.name_tests = 0

    def loop(self, interp, node, st):
        return self.unroll_loop(interp, node, st)

    def nonempty(self, ordinal):
        """Is the read with this ordinal a line?  `lines` is True / False (all reads) or a set of
        the ordinals at which a line arrives (delay schedules of the thorough tier)."""
        if isinstance(self.lines, (set, frozenset)):
            return ordinal in self.lines
        return bool(self.lines)

    def text_use(self, v, what, line=0):
        if type_of(v) == 'bytes' and self.bytes_used is None:
            self.bytes_used = 'a reply that is still bytes is used as text (%s)' % what

    def decide(self, cond, st):
        r = PrimHooks.decide(self, cond, st)
        if r is not None:
            return r
        if isinstance(cond, Cmp) and isinstance(cond.a, Sym) and isinstance(cond.b, Sym):
            assign = {}
            for at in cond.a.atoms():
                if at[0] == 'f' and at[1] == 'LEN':
                    txt = repr(at[2][0])
                    if 'reply#' in txt or 'havoc' in txt:
                        if self.lines == 'blank':
                            # every read delivers a blank line "\r\n": not empty, but nothing is
                            # left after stripping
                            assign[at] = Sym.const(0 if 'strip' in txt else 2)
                        else:
                            assign[at] = Sym.const(6 if self.nonempty(reply_ordinal_in_text(txt))
                                                   else 0)
                    else:
                        return None
                else:
                    return None
            return fold_cond(Cmp(cond.op, cond.a.subs(assign), cond.b))
        if isinstance(cond, Truthy) and mentions_reply(cond.v):
            if self.lines == 'blank':
                return 'strip' not in repr(cond.v)
            ords = reply_ordinals(cond.v) - {-1}
            return self.nonempty(max(ords) if ords else None)
        if isinstance(cond, In) and isinstance(cond.container, Tup) and all(
                isinstance(x, Str) and x.is_lit() for x in cond.container.items):
            self.name_tests += 1
            if not is_name_pipeline(cond.item):
                self.bad_name_test = 'the no-OK decision is not taken on the normalised request ' \
                                     'name (text before the first comma, trimmed, lower-cased)'
                return None
            return self.name in {x.text() for x in cond.container.items}
        if isinstance(cond, In) and isinstance(cond.item, Str) and mentions_reply(cond.container):
            self.text_use(cond.container, "'%s' in reply" % cond.item.text())
            return None
        if isinstance(cond, Pred) and cond.args and mentions_reply(cond.args[0]):
            self.text_use(cond.args[0], cond.name)
            return None
        return None


class TypeSpy(PrimHooks):
    """Fault-injecting run that watches text uses of reply values."""

    def __init__(self):
        PrimHooks.__init__(self, inject=True)
        self.bytes_used = None

    def decide(self, cond, st):
        r = PrimHooks.decide(self, cond, st)
        if r is not None:
            return r
        v = None
        if isinstance(cond, In) and isinstance(cond.item, Str):
            v, what = cond.container, "'%s' in reply" % cond.item.text()
        elif isinstance(cond, Pred) and cond.args:
            v, what = cond.args[0], cond.name
        if v is not None and type_of(v) == 'bytes' and self.bytes_used is None:
            self.bytes_used = 'a value that is still bytes is used as text (%s) - raises ' \
                              'TypeError' % what
        return None


def reads(o):
    return [e for e in o.state.effects if is_lport_call(e, ('readline', 'read'))]


def writes(o):
    return [e for e in o.state.effects if is_lport_call(e, ('write',))]


def check_prim(ck, prog, which):
    fn = prog.func('ebb_serial.' + which)
    q = fn.qualname
    if fn.params[:2] != ['port_name', 'cmd']:
        raise AnalysisError('%s signature changed' % q)
    ck.saw('functions', '%s @ %s' % (q, fn.loc()))
    # ---- D1 / D2 / D3 on the fault-injected path set
    spy = TypeSpy()
    outs = run_prim(prog, fn, spy)
    want = Opaque('encode', (CMD,), 'bytes')
    bad_count = bad_arg = bad_first = escaped = bad_type = None
    n_clean = 0
    for o in outs:
        if o.kind == 'raise':
            escaped = 'lets %s escape (%s)' % (o.value, '; '.join(
                'raised by %s at line %s' % (n[1], n[2]) for n in o.state.notes
                if n[0] == 'raised-by') or 'raised in the function')
            continue
        ws = writes(o)
        faulted = any(n[0] == 'raised-by' for n in o.state.notes)
        if len(ws) > 1:
            bad_count = 'writes the request %d times on one path (lines %s)' % (
                len(ws), [e.line for e in ws])
        if not faulted:
            n_clean += 1
            if len(ws) != 1:
                bad_count = 'writes %d times on a fault-free path' % len(ws)
        for e in ws:
            if not e.args or e.args[0] != want:
                bad_arg = 'transmits something other than the encoded request text (line %d)' % e.line
        io = [e for e in o.state.effects if is_lport_call(e)]
        if io and ws and io[0] is not ws[0]:
            bad_first = 'touches the port (%s, line %d) before writing the request' % (
                io[0].target.name, io[0].line)
        if which == 'query':
            t = type_of(o.value)
            if t != 'str':
                bad_type = 'returns a %s value on a path (%s)' % (
                    'bytes' if t == 'bytes' else ('None' if o.value == NONE else t),
                    'after a caught exception' if any(n[0] == 'caught' for n in o.state.notes)
                    else 'fault-free')
    ck.ob('C07-D1-write-once', q, bad_count is None, '%s %s' % (q, bad_count), fn.loc(),
          key='%s::write-count' % q)
    ck.ob('C07-D1-write-text', q, bad_arg is None, '%s %s' % (q, bad_arg), fn.loc(),
          key='%s::write-text' % q)
    ck.ob('C07-D1-write-first', q, bad_first is None, '%s %s' % (q, bad_first), fn.loc(),
          key='%s::write-first' % q)
    in_loop = [l for l in ast.walk(fn.node) if isinstance(l, (ast.While, ast.For))
               and contains_call_attr(l, ('write',))]
    ck.ob('C07-D1-write-not-in-loop', q, not in_loop,
          '%s writes from inside a loop (line %s)' % (q, [l.lineno for l in in_loop]), fn.loc(),
          key='%s::write-in-loop' % q)
    ck.ob('C07-D3-containment', q, escaped is None, '%s %s' % (q, escaped), fn.loc(),
          key='%s::exception-escapes' % q)
    ck.ob('C07-D2-text-discipline', q + '::uses', spy.bytes_used is None,
          '%s: %s' % (q, spy.bytes_used), fn.loc(), key='%s::bytes-as-text' % q)
    if which == 'query':
        ck.ob('C07-D2-text-discipline', q + '::return', bad_type is None,
              '%s %s; the property says query returns text' % (q, bad_type), fn.loc(),
              key='%s::returns-non-text' % q)
    ck.floor('%s fault-free paths' % which, n_clean, 2)
    # ---- no port / no text
    for port, cmd, label in ((NONE, CMD, 'no port'), (LPORT, NONE, 'no text')):
        outs = run_prim(prog, fn, PrimHooks(inject=False), port=port, cmd=cmd)
        bad = None
        for o in outs:
            if o.kind == 'raise':
                bad = 'raises %s' % o.value
            elif any(is_lport_call(e) for e in o.state.effects):
                bad = 'touches the port'
            elif o.value != NONE:
                bad = 'returns something other than None'
        ck.ob('C07-D1-nothing-without-request', '%s[%s]' % (q, label), bad is None,
              '%s with %s %s; it must do nothing' % (q, label, bad), fn.loc(),
              key='%s::%s' % (q, label))
    return fn


def check_alignment(ck, prog, which):
    fn = prog.func('ebb_serial.' + which)
    q = fn.qualname
    kinds = [(n, 'no-OK query') for n in NO_OK] + [(n, 'ordinary query') for n in OK_QUERIES] \
        if which == 'query' else [('sm', 'command')]
    for name, kind in kinds:
        lines_expected = 1 if (which == 'command' or kind == 'no-OK query') else 2
        for lines_arrive in (True, False):
            sc = Scenario(name, lines_arrive)
            try:
                outs = run_prim(prog, fn, sc)
            except Unbounded as exc:
                ck.ob('C07-D4-wait-bound', '%s[%s]' % (q, name), False,
                      '%s: the loop at line %s never gives up when nothing arrives' % (q, exc.args[0]),
                      fn.loc(), key='%s::wait-bound' % q)
                continue
            if sc.uncountable or any(nt[0] == 'loop-havoc' for o in outs for nt in o.state.notes):
                raise AnalysisError('%s: a loop test is not decided by the reply scenario; cannot '
                                    'count reads' % q)
            inst = '%s[%s %r, %s]' % (q, kind, name, 'lines arrive' if lines_arrive
                                      else 'nothing arrives')
            if sc.bad_name_test:
                ck.ob('C07-D4-name-normalisation', inst, False, '%s: %s' % (q, sc.bad_name_test),
                      fn.loc(), key='%s::name-normalisation' % q)
                continue
            counts = {len(reads(o)) for o in outs if o.kind == 'return'}
            want = lines_expected if lines_arrive else lines_expected * (RETRY_BOUND + 1)
            ck.ob('C07-D4-alignment' if lines_arrive else 'C07-D4-wait-bound', inst,
                  counts == {want},
                  '%s for a %s (%r) performs %s read(s) when %s; expected %d (%s)'
                  % (q, kind, name, sorted(counts),
                     'every read delivers a line' if lines_arrive else 'nothing ever arrives', want,
                     '%d line(s) consumed' % lines_expected if lines_arrive else
                     'each awaited line is given the first read plus %d empty re-reads' % RETRY_BOUND),
                  fn.loc(), key='%s::%s:%s' % (q, 'alignment' if lines_arrive else 'wait-bound',
                                               kind))
            if which == 'query':
                for o in outs:
                    if o.kind != 'return':
                        continue
                    ords = reply_ordinals(o.value)
                    if lines_arrive:
                        ok = ords == {0} and type_of(o.value) == 'str'
                        msg = 'returns a value built from read(s) %s; it must be the first line ' \
                              'read (the data line of this request)' % sorted(ords)
                    else:
                        ok = type_of(o.value) == 'str'
                        msg = 'returns a non-text value when nothing arrived'
                    ck.ob('C07-D4-returns-data-line', inst, ok, '%s %s' % (q, msg), fn.loc(),
                          key='%s::returned-line' % q)
            ck.ob('C07-D2-text-discipline', inst, sc.bytes_used is None,
                  '%s: %s' % (q, sc.bytes_used), fn.loc(), key='%s::bytes-as-text' % q)
        # a blank line ("\r\n", e.g. the data line of QT on a board without a nickname) is a
        # line, not an empty read: it must be consumed as the awaited line
        sc = Scenario(name, 'blank')
        try:
            outs = run_prim(prog, fn, sc)
            counts = {len(reads(o)) for o in outs if o.kind == 'return'}
            blank_ok = counts == {lines_expected} and not sc.uncountable
            if which == 'query':
                blank_ok = blank_ok and all(reply_ordinals(o.value) == {0} for o in outs
                                            if o.kind == 'return')
        except Unbounded:
            counts, blank_ok = {'unbounded'}, False
        ck.ob('C07-D4-blank-line-is-a-line', '%s[%s %r]' % (q, kind, name), blank_ok,
              '%s for a %s (%r) performs %s read(s) when every read delivers a blank line; a blank '
              'line is the awaited line (only a zero-length read is a timeout), so exactly %d '
              'line(s) must be consumed and the first returned' % (q, kind, name, sorted(
                  counts, key=str), lines_expected), fn.loc(), key='%s::blank-line:%s' % (q, kind))
        if which == 'query':
            ck.ob('C07-D4-name-test-present', '%s[%r]' % (q, name), sc.name_tests >= 1,
                  '%s never tests the request name against the no-OK table' % q, fn.loc(),
                  key='%s::no-name-test' % q)


class LoopSpy(PrimHooks):
    def __init__(self):
        PrimHooks.__init__(self, inject=False)
        self.loops = {}

    def loop(self, interp, node, st):
        if isinstance(node, ast.While) and node.lineno not in self.loops:
            self.loops[node.lineno] = analyse_retry_loop(interp, node, st)
        return None


def check_loops(ck, prog, which):
    fn = prog.func('ebb_serial.' + which)
    q = fn.qualname
    spy = LoopSpy()
    run_prim(prog, fn, spy)
    n = 0
    for f in spy.loops.values():
        if not contains_call_attr(f.node, ('readline', 'read')):
            continue
        ck.saw('retry_loops', {q: f.as_dict()})
        if f.problems:
            continue
        n += 1
        loc = fn.loc(f.node)
        ck.ob('C07-D4-retry-increment', '%s@%s' % (q, f.reply_var), bool(f.increment_ok),
              '%s: the retry counter of the loop re-reading %r is not incremented by one on every '
              'path' % (q, f.reply_var), loc, key='%s::retry-increment:%s' % (q, f.reply_var))
        ck.ob('C07-D2-retry-pipeline', '%s@%s' % (q, f.reply_var), bool(f.same_pipeline),
              '%s: the re-read of %r inside the retry loop does not go through the same '
              'read/decode pipeline as the first read (first: %s, loop: %s)'
              % (q, f.reply_var, f.first_shape, f.body_shape), loc,
              key='%s::retry-pipeline:%s' % (q, f.reply_var))
    return n


def check_delays(ck, prog, which):
    """Thorough tier: a line arrives after k empty reads (k = 0, 1, 99, 100: within the budget;
    101: too late).  Reads performed and value returned must follow the budget exactly."""
    fn = prog.func('ebb_serial.' + which)
    q = fn.qualname
    names = [('qb', 2), ('v', 1)] if which == 'query' else [('sm', 1)]
    for name, n_lines in names:
        for k1 in (0, 1, 99, 100, 101):
            for k2 in ((0, 1, 100, 101) if n_lines == 2 else (None,)):
                # ordinals at which lines arrive
                arrive = set()
                first_end = k1 if k1 <= RETRY_BOUND else None      # ordinal of the data line
                reads1 = (k1 + 1) if k1 <= RETRY_BOUND else RETRY_BOUND + 1
                if first_end is not None:
                    arrive.add(first_end)
                want = reads1
                if n_lines == 2:
                    start2 = reads1
                    if k2 <= RETRY_BOUND:
                        arrive.add(start2 + k2)
                        want += k2 + 1
                    else:
                        want += RETRY_BOUND + 1
                sc = Scenario(name, frozenset(arrive))
                try:
                    outs = run_prim(prog, fn, sc)
                except Unbounded as exc:
                    ck.ob('C07-D4-wait-bound', '%s[%s delays]' % (q, name), False,
                          '%s: the loop at line %s never gives up' % (q, exc.args[0]), fn.loc(),
                          key='%s::wait-bound' % q)
                    continue
                if sc.uncountable:
                    raise AnalysisError('%s: delay schedule not decided' % q)
                counts = {len(reads(o)) for o in outs if o.kind == 'return'}
                inst = '%s[%r, data line after %d empty reads%s]' % (
                    q, name, k1, '' if k2 is None else ', OK after %d' % k2)
                ck.ob('C07-D4-delayed-replies', inst, counts == {want},
                      '%s performs %s read(s) when the data line comes after %d empty reads%s; '
                      'expected %d: each awaited line is given the first read plus %d re-reads, '
                      'and a line that arrives within that budget ends the wait at once'
                      % (q, sorted(counts), k1, '' if k2 is None else ' and the OK after %d' % k2,
                         want, RETRY_BOUND), fn.loc(), key='%s::delays' % q)
                if which == 'query':
                    for o in outs:
                        if o.kind != 'return':
                            continue
                        ords = reply_ordinals(o.value)
                        if first_end is not None:
                            ok = ords == {first_end}
                        else:
                            ok = type_of(o.value) == 'str' and not (ords - {RETRY_BOUND, -1})
                        ck.ob('C07-D4-returns-data-line', inst, ok,
                              '%s returns a value built from read(s) %s; the data line was read '
                              '%s' % (q, sorted(ords), first_end), fn.loc(),
                              key='%s::returned-line' % q)


def run(ck, prog, tier):
    ck.explanation = (
        'ebb_serial.query/command interpreted abstractly (parsed source; nothing runs) with an '
        'opaque port, fresh bytes per read and a SerialException injectable at every port call. '
        'D1 exactly one write of the encoded request per fault-free path, first port operation, '
        'not in a loop; nothing without port/text. D2 str/bytes typestate: query returns str on '
        'every path incl. handler paths; no bytes value used as text. D3 no exception escapes. '
        'D4 per request kind (7 no-OK names, 9 ordinary, commands) x {lines arrive, nothing '
        'arrives}: reads = 1/2 resp. 101/202 by exact abstract unrolling, no-OK decision on the '
        'normalised name, returned value is the first line read.')
    ck.trusted = ['Python ast', 'vf/interp.py', 'vf/legacy.py', 'vf/loops.py',
                  'the no-OK query list of the EBB command reference {a,i,mr,pi,qm,qg,v}']
    ck.assumptions = ['alignment over whole histories follows from the per-call read counts '
                      'against a conforming board (board model not analysed)',
                      'non-ASCII bytes (UnicodeDecodeError) are outside the fault classes']
    n_loops = 0
    for which in ('query', 'command'):
        check_prim(ck, prog, which)
        check_alignment(ck, prog, which)
        n_loops += check_loops(ck, prog, which)
        if tier == 'thorough':
            check_delays(ck, prog, which)
    ck.floor('while-form retry loops analysed', n_loops, 0)
