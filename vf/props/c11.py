"""C11 - viewBox scaling follows preserveAspectRatio (vb_scale): decision table vs SVG 1.1 7.8."""
import itertools
from fractions import Fraction

from ..poly import Sym, equal_mod
from .. import poly
from ..interp import (Interp, Hooks, Opaque, Str, Tup, Cmp, Bound, ExtRef, NONE, Const, FuncRef)
from ..model import AnalysisError
from .. import purity

ALIGNS = {  # canonical spelling -> (fx, fy)
    'xMinYMin': (0, 0), 'xMidYMin': (Fraction(1, 2), 0), 'xMaxYMin': (1, 0),
    'xMinYMid': (0, Fraction(1, 2)), 'xMidYMid': (Fraction(1, 2), Fraction(1, 2)),
    'xMaxYMid': (1, Fraction(1, 2)),
    'xMinYMax': (0, 1), 'xMidYMax': (Fraction(1, 2), 1), 'xMaxYMax': (1, 1),
}
V = Sym.var
MINX, MINY, w, h, W, H = V('min_x'), V('min_y'), V('w'), V('h'), V('W'), V('H')
AR = H * w - h * W           # sign(ar_doc - ar_vb) for positive sizes
IDENT = Tup((Sym.const(1), Sym.const(1), Sym.const(0), Sym.const(0)))


def chain_root(v):
    ops = []
    while isinstance(v, Opaque) and v.label.startswith('m:') and v.args:
        ops.append((v.label[2:], v.args[1:]))
        v = v.args[0]
    return v, ops


class VbHooks(Hooks):
    def __init__(self, ntok=4, ar=None, signs=None):
        self.vb = Opaque('param:v_b', (), 'str')
        self.ntok = ntok
        self.ar = ar              # -1, 0, 1 : sign of ar_doc - ar_vb (valid sizes)
        self.signs = signs or {}  # atom name -> sign for validity cases
        self.vb_pipeline = None
        self.undecided = []

    def call(self, interp, target, args, kwargs, st, node):
        if isinstance(target, Bound) and target.name == 'split':
            root, ops = chain_root(target.obj)
            if root == self.vb:
                self.vb_pipeline = (ops, tuple(args))
                return [(Tup(tuple(Opaque('vbtok%d' % i, (), 'str') for i in range(self.ntok)),
                             'list'), st)]
        if isinstance(target, ExtRef) and target.dotted == 'builtins.float' and len(args) == 1:
            a = args[0]
            if isinstance(a, Opaque) and a.label.startswith('vbtok'):
                return [(V(['min_x', 'min_y', 'w', 'h', 'x4', 'x5'][int(a.label[5:])]), st)]
        if isinstance(target, FuncRef) and target.qual == 'plot_utils.parseLengthWithUnits' and \
                len(args) == 1 and isinstance(args[0], Opaque) and args[0].label.startswith('vbtok'):
            # the length parser (C12) takes "100px", "8.5in", "50%" for numbers: viewBox items
            # are plain numbers, so a token converted this way accepts malformed values.  The
            # call is summarised: the token's number with a unit, or (None, None).
            self.length_parser_on_tokens = interp.cur.loc(node)
            v = V(['min_x', 'min_y', 'w', 'h', 'x4', 'x5'][int(args[0].label[5:])])
            return [(Tup((v, Str.lit('px'))), st), (Tup((NONE, NONE)), st)]
        return None

    length_parser_on_tokens = None

    def decide(self, cond, st):
        if isinstance(cond, Cmp) and isinstance(cond.a, Sym) and isinstance(cond.b, Sym):
            e = cond.a - cond.b
            table = lambda s: {'<': s < 0, '<=': s <= 0, '>': s > 0, '>=': s >= 0,
                               '==': s == 0, '!=': s != 0}[cond.op]
            at = e.as_atom() or None
            if at is not None and at[0] == 'v' and at[1] in ('w', 'h', 'W', 'H'):
                return table(self.signs.get(at[1], 1))
            if self.ar is not None and all(self.signs.get(n, 1) > 0 for n in ('w', 'h', 'W', 'H')):
                # multiply by positive quantities until polynomial, then compare with AR
                for mult in (Sym.const(1), W * w, W * w * h, W * w * H, w, W, h, H, W * h, H * w,
                             h * H, h * w * W * H):
                    p = e * mult
                    if p.is_poly():
                        for c in (1, -1):
                            if (p - AR * c).num.is_zero():
                                return table(self.ar * c)
        self.undecided.append(cond)
        return None


def expected(align, mos, ar):
    """SVG 1.1 7.8: returns (sx, sy, ox, oy) or None when the statement does not constrain."""
    if align == 'none':
        return (W / w, H / h, -MINX, -MINY)
    if align not in ALIGNS or mos not in ('meet', 'slice'):
        return None
    fx, fy = ALIGNS[align]
    # W/w <= H/h  <=>  ar_doc >= ar_vb
    if mos == 'meet':
        s = W / w if ar >= 0 else H / h
    else:
        s = W / w if ar <= 0 else H / h
    return (s, s, -MINX + (W / s - w) * fx, -MINY + (H / s - h) * fy)


def spell(align, mos, defer, variant):
    toks = []
    if defer:
        toks.append('defer')
    if align is not None:
        toks.append(align)
        if mos is not None:
            toks.append(mos)
    if not toks:
        return ['', '   '][variant % 2]
    if variant == 0:
        return ' '.join(toks)
    if variant == 1:
        return '  ' + ' , '.join(toks).upper() + ' '
    return ','.join(t.lower() for t in toks)


def run(ck, prog, tier):
    poly.INT_VARS.clear()
    ck.explanation = (
        'vb_scale is abstractly interpreted once per abstract case: preserveAspectRatio given as '
        'a literal attribute string for align in {absent, none, 9 aligns (camelCase / upper / '
        'lower spellings, comma or blank separated), unknown} x meetOrSlice in {absent, meet, '
        'slice} x defer in {no, yes} x sign(ar_doc - ar_vb) in {<,=,>}; the viewBox tokens and '
        'document size are symbolic atoms (min_x, min_y, w, h, W, H). The string pipeline '
        '(strip/replace/lower/split) is folded on the literal, the aspect comparison is decided '
        'from the case by cross-multiplication with the positive sizes, and the returned rational '
        'normal forms are compared with the SVG 1.1 7.8 table (on equal aspect ratios modulo '
        'H*w = h*W). Validity: over the 81 sign cases of (w, h, W, H) the identity transform is '
        'returned exactly when some size is non-positive and before any division by it; fewer '
        'than 4 tokens or no viewBox give the identity. Not decided: non-numeric tokens '
        '(float() raising) and floating-point evaluation.')
    ck.assumptions += ['viewBox tokens and sizes are finite numbers (float() succeeds)',
                       'str.strip/replace/lower/split library semantics on the literal attribute']
    ck.trusted += ['python ast module', 'vf.poly', 'vf.interp', 'SVG 1.1 7.8 transcribed in '
                   'vf/props/c11.py']
    purity.check(ck, prog, ['plot_utils.vb_scale'], 'C11-R-pure')
    fn = prog.func('plot_utils.vb_scale')
    if fn.params != ['v_b', 'p_a_r', 'doc_width', 'doc_height']:
        raise AnalysisError('vb_scale signature changed')
    ck.saw('functions', fn.qualname + ' @ ' + fn.loc())

    def interp(par, hooks):
        it = Interp(prog, hooks)
        outs = it.run(fn, [hooks.vb, par, W, H])
        return outs

    # ---- D4 identity exits
    hk = VbHooks()
    outs = Interp(prog, hk).run(fn, [NONE, NONE, W, H])
    ck.ob('C11-D4-identity', 'vb_scale::no-viewBox',
          len(outs) == 1 and outs[0].kind == 'return' and outs[0].value == IDENT,
          'a missing viewBox must give (1,1,0,0); got %r' % [o.value for o in outs], fn.loc(),
          key='vb_scale::identity-none')
    for n in (0, 1, 3):
        hk = VbHooks(ntok=n)
        outs = interp(NONE, hk)
        ck.ob('C11-D4-identity', 'vb_scale::%d-tokens' % n,
              len(outs) == 1 and outs[0].kind == 'return' and outs[0].value == IDENT,
              'a viewBox with %d tokens must give (1,1,0,0); got %r' % (
                  n, [(o.kind, o.value) for o in outs]), fn.loc(), key='vb_scale::identity-tokens')
    # a viewBox whose tokens are not numbers is malformed too: float() of a token may raise
    # ValueError, which must end in the identity transform, not in an exception
    class BadNumber(VbHooks):
        def may_raise(self, target, args, st, node):
            if isinstance(target, ExtRef) and target.dotted == 'builtins.float' and args and \
                    isinstance(args[0], Opaque) and args[0].label.startswith('vbtok'):
                return ['ValueError']
            return ()
    hk = BadNumber(ar=1)
    outs = interp(NONE, hk)
    ck.ob('C11-D4-identity', 'vb_scale::tokens-are-plain-numbers', hk.length_parser_on_tokens is None,
          'the viewBox items are converted with parseLengthWithUnits (%s), which strips unit '
          'suffixes: the malformed viewBox "0 0 100px 50px" (or "0 0 8.5in 11in", "0 0 50%% 50%%") '
          'is accepted and scaled instead of giving the identity transform (1,1,0,0)'
          % hk.length_parser_on_tokens, fn.loc(), key='vb_scale::identity-unit-suffix')
    esc = [o for o in outs if o.kind == 'raise' and 'ValueError' in str(o.value)]
    ck.ob('C11-D4-identity', 'vb_scale::non-numeric-tokens', not esc,
          'a viewBox with a token that is not a number ("0 0 abc 100") makes vb_scale raise '
          'ValueError (from float()); a malformed viewBox must give the identity transform '
          '(1,1,0,0)', fn.loc(), key='vb_scale::identity-non-numeric')
    caught = [o for o in outs if o.kind == 'return' and any(
        n[0] == 'caught' and 'ValueError' in n[1] for n in o.state.notes)]
    for o in caught:
        ck.ob('C11-D4-identity', 'vb_scale::non-numeric-tokens-value', o.value == IDENT,
              'after a token failed to convert vb_scale returns %r instead of (1,1,0,0)'
              % (o.value,), fn.loc(), key='vb_scale::identity-non-numeric-value')
    # tokenisation pipeline of the viewBox
    hk = VbHooks(ar=1)
    interp(NONE, hk)
    if hk.vb_pipeline is None:
        raise AnalysisError('viewBox tokenisation (split of the v_b parameter) not found')
    ops, split_args = hk.vb_pipeline
    comma = any(o == 'replace' and len(a) == 2 and isinstance(a[0], Str) and a[0].is_lit()
                and a[0].text() == ',' and isinstance(a[1], Str) and a[1].is_lit()
                and a[1].text().isspace() for o, a in ops)
    ck.ob('C11-D2-parsing', 'vb_scale::viewBox-comma-separator', comma and not split_args,
          'viewBox tokens must be split on whitespace after mapping "," to whitespace '
          '(pipeline: %s, split args %r)' % ([o for o, _ in ops], split_args), fn.loc(),
          key='vb_scale::viewBox-pipeline')
    n_valid = 0
    for sg in itertools.product((-1, 0, 1), repeat=4):
        signs = dict(zip(('w', 'h', 'W', 'H'), sg))
        hk = VbHooks(ar=0, signs=signs)
        outs = interp(NONE, hk)
        invalid = any(s <= 0 for s in sg)
        desc = 'signs(w,h,W,H)=%s' % (list(sg),)
        if any(o.kind != 'return' for o in outs) or len(outs) != 1:
            ck.ob('C11-D4-identity', desc, False, 'not a single returning path: %r' % (
                [(o.kind, o.value) for o in outs],), fn.loc(), key='vb_scale::validity')
            continue
        o = outs[0]
        if invalid:
            ok = o.value == IDENT
            zero = {n for n, s in signs.items() if s == 0}
            divs = [nt for nt in o.state.notes if nt[0] == 'div'
                    and any(a[0] == 'v' and a[1] in zero for a in nt[1].atoms())]
            ck.ob('C11-D4-identity', desc, ok and not divs,
                  'non-positive size (%s) must give the identity transform before any division '
                  'by it; got %r%s' % (desc, o.value, ' after dividing by a zero size' if divs
                                       else ''), fn.loc(), key='vb_scale::validity')
            # ... whatever preserveAspectRatio says (a branch for "none" or "slice" taken before
            # the size test must not skip it)
            for par_text in ('none', 'defer none', 'xMaxYMax slice'):
                hk2 = VbHooks(ar=0, signs=signs)
                outs2 = interp(Str.lit(par_text), hk2)
                bad2 = [o2 for o2 in outs2 if o2.kind != 'return' or o2.value != IDENT]
                ck.ob('C11-D4-identity', '%s pAR=%r' % (desc, par_text), not bad2,
                      'non-positive size (%s) with preserveAspectRatio=%r must give the identity '
                      'transform; got %r' % (desc, par_text,
                                             [(o2.kind, o2.value) for o2 in bad2][:2]),
                      fn.loc(), key='vb_scale::validity')
        else:
            n_valid += 1
            ck.ob('C11-D4-identity', desc, o.value != IDENT,
                  'valid sizes return the identity transform', fn.loc(), key='vb_scale::validity')
    # ---- D1/D2/D3 decision table
    aligns = [None, 'none', 'bogus'] + list(ALIGNS)
    moss = [None, 'meet', 'slice']
    variants = (0, 1, 2) if tier == 'thorough' else (0, 1)
    n_cases = 0
    for align in aligns:
        for mos in moss:
            if align is None and mos is not None:
                continue
            for defer in (False, True):
                for variant in variants:
                    text = spell(align, mos, defer, variant)
                    for ar in (-1, 0, 1):
                        pars = [Str.lit(text)]
                        if align is None and not defer and variant == 0:
                            pars.append(NONE)
                        for par in pars:
                            n_cases += 1
                            hk = VbHooks(ar=ar)
                            outs = interp(par, hk)
                            desc = 'pAR=%r ar_doc%sar_vb' % (
                                None if par == NONE else text, '<=>'[ar + 1])
                            if len(outs) != 1 or outs[0].kind != 'return' or outs[0].state.path:
                                if any(o.kind == 'raise' for o in outs):
                                    ck.ob('C11-D2-parsing', desc, False,
                                          'raises %s' % [o.value for o in outs if o.kind == 'raise'],
                                          fn.loc(), key='vb_scale::parse-raises')
                                    continue
                                raise AnalysisError('vb_scale case %s not decided: %r' % (
                                    desc, hk.undecided[:2]))
                            eff_align = align if align is not None else 'xMidYMid'
                            eff_mos = mos if mos is not None else 'meet'
                            want = expected(eff_align, eff_mos, ar)
                            got = outs[0].value
                            if want is None:
                                continue
                            ok = isinstance(got, Tup) and len(got.items) == 4 and all(
                                isinstance(g, Sym) for g in got.items)
                            if ok:
                                gens = [AR] if ar == 0 else []
                                ok = all(equal_mod(g, x, gens) if gens else g == x
                                         for g, x in zip(got.items, want))
                            rule = 'C11-D1-table'
                            if variant != 0 or defer or par == NONE or align is None or mos is None:
                                rule = 'C11-D2-parsing' if ok is False and _canon_ok(
                                    ck, eff_align, eff_mos, ar) else 'C11-D1-table'
                            ck.ob(rule, desc, ok,
                                  'for %s vb_scale returns %r; SVG 1.1 prescribes (s_x, s_y, o_x, '
                                  'o_y) = %r' % (desc, got, want), fn.loc(),
                                  key='vb_scale::%s' % (
                                      'parsing' if rule == 'C11-D2-parsing' else
                                      'table[%s,%s]' % (eff_align, eff_mos)))
                            if variant == 0 and not defer and par != NONE and align is not None \
                                    and mos is not None:
                                _CANON[(eff_align, eff_mos, ar)] = ok
                            if len(ck.samples) < 8 and align in ('xMinYMax', 'none') and ar != 0:
                                ck.sample({'case': desc, 'returns': repr(got)})
    ck.floor('preserveAspectRatio cases', n_cases, 99)
    ck.floor('valid size sign cases', n_valid, 1)
    ck.exhaustive = True


_CANON = {}


def _canon_ok(ck, align, mos, ar):
    """True when the canonical spelling of this (align, mos, ar) already passed: then a failure of
    a variant spelling is a parsing problem (case / separator / defer / default), not a table one."""
    return _CANON.get((align, mos, ar), False)
