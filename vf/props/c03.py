"""C03 - step-limited (LM) duration: structural necessary conditions only (calculate_lm, moveTimeLM).

The central clause (the reported duration is the FIRST tick reaching the budget) is the ceiling of
a quadratic root selected by data-dependent branches and is NOT decided here (DESIGN.md 3/C03, 4.3).
"""
from fractions import Fraction
import itertools

from .. import poly
from ..poly import Sym, mk_func
from ..interp import Interp, Str, Tup, Opaque
from ..poly import Sym
from ..model import AnalysisError
from .. import purity
from . import motion
from .motion import V, TWO31
from .c01 import clear_expected, NoInline

ZERO3 = Tup((Sym.const(0), Sym.const(0), Sym.const(0)))


def cannot_move(t):
    s, r, a = t
    return s == 0 or (r == 0 and a == 0) or (s < 0 and r < 0)


def sqrt_args(sym, acc=None):
    acc = [] if acc is None else acc
    if isinstance(sym, Sym):
        for at in sym.all_atoms():
            if at[0] == 'f' and at[1] == 'SQRT' and not any(at[2][0] == x for x in acc):
                acc.append(at[2][0])
    return acc


def check_reversal_classification(ck, fn, main_paths):
    """D9 - a path that answers 'every step is taken in the initial direction' (position =
    sign(rate at tick 1) * steps) without any condition on the step count must lie in the region
    of (rate, accel) where the rate sequence r_t = rate - trunc(accel/2) + accel*t never changes
    sign after tick 1, i.e. accel = 0, r_1 = 0 or sign(r_1) = sign(accel).  Where rate and accel
    let the motor run r_1's way for some ticks and then reverse, the number of steps taken before
    the reversal is bounded, so the answer is wrong for every larger step count.  The two regions
    are compared on integer points; a violation names a point of the difference."""
    from fractions import Fraction
    q = fn.qualname
    steps, rate, accel = V('steps'), V('rate'), V('accel')
    r1 = rate - mk_func('TRUNC', accel / 2) + accel
    scale = 1000003                  # odd, large: keeps the points away from exact landings
    vals = [k * scale + d for k in (-7, -5, -4, -3, -2, -1, 1, 2, 3, 4, 5, 7) for d in (0, 1)]
    sgn = lambda x: (x > 0) - (x < 0)
    n_judged = 0
    witness = None
    seen_regions = set()
    for o, cut, mode in main_paths:
        if mode != 'clear' or not (isinstance(o.value, Tup) and len(o.value.items) == 3):
            continue
        pos = o.value.items[1]
        if not isinstance(pos, Sym):
            continue
        ratio = pos / steps
        if not (ratio.is_const() and abs(ratio.const_value()) == 1):
            continue
        sigma = int(ratio.const_value())
        region, bounded = [], False
        for c_, t_ in o.state.path:
            nc = motion.norm_path_cond(c_, t_)
            if nc is None:
                continue
            names = {a[1] for a in nc[0].all_atoms() if a[0] == 'v'}
            if 'steps' in names:
                if motion.identify(nc[0], [steps], []) is not None:
                    region.append(nc)    # sign test of steps (mirroring)
                    continue
                # "steps compared with something" = c*steps + f(rate, accel, accum), c constant:
                # a bound on the step count (the discriminant of the duration quadratic also
                # mentions steps, but multiplied by accel - it bounds nothing)
                rest = nc[0].subs({('v', 'steps'): Sym.const(0)})
                lin = nc[0] - rest
                coef = (lin / steps)
                if coef.is_const() and coef.const_value() != 0:
                    bounded = True
            elif names <= {'rate', 'accel'}:
                region.append(nc)
        if bounded:
            continue
        n_judged += 1
        key = (sigma, frozenset((repr(e), op) for e, op in region))
        if key in seen_regions:
            continue
        seen_regions.add(key)
        # cheapest (and most selective) conditions first
        region.sort(key=lambda c: len(repr(c[0])))
        for rv in vals:
            for av in vals:
                for sv in (5, -5):
                    asg = {'rate': Fraction(rv), 'accel': Fraction(av), 'steps': Fraction(sv)}
                    try:
                        if not all(motion._holds(e.evaluate(asg), op) for e, op in region):
                            continue
                        r1v = r1.evaluate(asg)
                    except (ZeroDivisionError, KeyError, ValueError):
                        continue
                    # legacy mirroring: steps < 0 negates rate, accel and the reported position
                    m = -1 if sv < 0 else 1
                    if sgn(r1v) * m == sigma * sgn(sv) and sgn(r1v) != 0 and av != 0 and \
                            sgn(r1v) != sgn(av):
                        witness = (rv, av, sv, sigma)
                        break
                if witness:
                    break
            if witness:
                break
        if witness:
            break
    rv, av, sv, sigma = witness or (0, 0, 0, 0)
    ck.ob('C03-D9-reversal-classification', q, witness is None,
          '%s answers "all %s steps in the initial direction" (position %s) for rate=%d, accel=%d '
          'on a path with no condition on the step count, although the rate at tick 1 (%d) and '
          'accel have opposite signs: the motor reverses after tick 1 and every step beyond the '
          'few taken before the reversal goes the other way (the classification of "no reversal" '
          'must imply that the rate keeps its sign after tick 1)'
          % (q, '|steps|', '%+d*steps' % sigma, rv, av,
             rv - int(Fraction(av, 2)) + av if av else 0), fn.loc(),
          key='calculate_lm::reversal-classification')
    ck.floor('single-direction computing paths judged for reversal', n_judged, 1)


def check_reversal_claims(ck, fn, main_paths):
    """D11 - the converse of D9.  A path taken because the step count exceeds the steps made
    before a reversal (a lower bound on steps against a quantity of rate and accel) treats the
    move as one that reverses: its duration is solved for a target one step short of the final
    position.  Such a path must lie in the region where the rate sequence r_t = r_1 +
    accel*(t-1) does change sign after tick 1: accel != 0, r_1 != 0, sign(r_1) != sign(accel).
    Where r_1 = 0 (the motor rests during tick 1 and then runs accel's way) or r_1 and accel
    agree, nothing reverses and the shortened target gives a duration one step too small.
    Decided on integer points that include the rest-at-tick-1 line rate = TRUNC(accel/2) - accel
    for even and odd accel."""
    from fractions import Fraction
    q = fn.qualname
    steps, rate, accel = V('steps'), V('rate'), V('accel')
    r1 = rate - mk_func('TRUNC', accel / 2) + accel
    scale = 1000003
    avs = [k * scale + d for k in (-7, -4, -2, -1, 1, 2, 4, 7) for d in (0, 1)] + \
          [-41475905, 41475905, -9, 9, -8, 8, -3, 3, -2, 2, -1, 1]
    sgn = lambda x: (x > 0) - (x < 0)
    points = []
    for av in avs:
        rest = int(Fraction(av, 2)) - av          # r_1 = 0
        for rv in (rest, rest + sgn(av), rest + 5 * sgn(av) * scale):   # r_1 = 0 / same sign
            if rv != 0 or True:
                points.append((rv, av))
    n_judged = 0
    witness = None
    seen = set()
    for o, cut, mode in main_paths:
        if mode != 'clear' or not (isinstance(o.value, Tup) and len(o.value.items) == 3):
            continue
        conds, claims = [], False
        evaluable = True
        bounds = []
        for c_, t_ in o.state.path:
            nc = motion.norm_path_cond(c_, t_)
            if nc is None:
                continue
            names = {a[1] for a in nc[0].all_atoms() if a[0] == 'v'}
            if not names <= {'steps', 'rate', 'accel'} or sqrt_args(nc[0]):
                # everything decided before this point is shared by the path the same input
                # takes in the real function; root selection (later) is not needed here
                break
            conds.append(nc)
            if 'steps' in names and motion.identify(nc[0], [steps], []) is None:
                rest_ = nc[0].subs({('v', 'steps'): Sym.const(0)})
                coef = (nc[0] - rest_) / steps
                if coef.is_const() and coef.const_value() != 0 and not rest_.is_const() and \
                        nc[1] in ('>', '>=', '<', '<='):
                    bounds.append((coef.const_value() > 0) == (nc[1] in ('>', '>=')))
        if bounds:
            # the sign of steps on this path (steps < 0 is mirrored: |steps| = -steps)
            pos_ok = all(motion._holds(e.evaluate({'steps': Fraction(1)}), op)
                         for e, op in conds if motion.identify(e, [steps], []) is not None)
            neg_ok = all(motion._holds(e.evaluate({'steps': Fraction(-1)}), op)
                         for e, op in conds if motion.identify(e, [steps], []) is not None)
            if pos_ok == neg_ok:
                continue
            # |steps| bounded from below by a quantity of rate and accel: "reverses within the move"
            claims = any(b == pos_ok for b in bounds)
        if not claims:
            continue
        n_judged += 1
        if not evaluable:
            continue
        key = frozenset((repr(e), op) for e, op in conds)
        if key in seen:
            continue
        seen.add(key)
        for rv, av in points:
            for sv in (5, -5, 4000, -4000):
                m = -1 if sv < 0 else 1
                asg = {'rate': Fraction(rv * m), 'accel': Fraction(av * m), 'steps': Fraction(sv)}
                try:
                    if not all(motion._holds(e.evaluate(asg), op) for e, op in conds):
                        continue
                    r1v = r1.evaluate(asg)
                except (ZeroDivisionError, KeyError, ValueError, OverflowError):
                    continue
                if r1v == 0 or sgn(r1v) == sgn(av * m):
                    witness = (rv * m, av * m, sv, r1v)
                    break
            if witness:
                break
        if witness:
            break
    rv, av, sv, r1v = witness or (0, 0, 0, 0)
    ck.ob('C03-D11-reversal-claimed', q, witness is None,
          '%s treats steps=%d, rate=%d, accel=%d as a move that reverses direction (path chosen '
          'because the step count exceeds the steps made before the reversal; the duration is '
          'solved for a target one step short), although the rate at tick 1 is %d and accel is '
          '%d: the rate never changes sign after tick 1, nothing reverses, and the duration comes '
          'out one step too small' % (q, sv, rv, av, r1v, av), fn.loc(),
          key='calculate_lm::reversal-claimed')
    ck.floor('reversal-claiming computing paths judged', n_judged, 1)


def check_fallback_duration(ck, fn, main_paths, deep=False):
    """D12 - a computing path that hands back a *constant* duration (the fallback 0 kept when
    no root of the duration quadratic is accepted) may not be taken by a move that takes steps:
    such a move needs at least one tick.  Witness rule: the path conditions (rounded roots
    included, square roots evaluated exactly for perfect squares and to 40 digits otherwise)
    are evaluated on a grid of small moves; a point that satisfies all conditions of such a path
    is an input for which calculate_lm reports that duration.  Witnesses are classified by the
    path they lie on - single direction (position = +-steps) or both directions (a reversal
    inside the move) - and by whether a rounded root *equals* the reversal tick there (the
    accumulator touches a step threshold exactly at the reversal), and are reported per class,
    so that one known family does not hide another."""
    from fractions import Fraction
    q = fn.qualname
    steps = V('steps')
    rates = (0, 1, -1, 3, -3, 10, -8, 11, -44, 27, 1000, -1000) if deep else \
        (0, 1, -3, 3, 11, -44, 1000, -1000)
    accels = (0, 1, -1, 3, -3, 5, -9, -19, 44, 1000, -1000) if deep else \
        (0, 1, 3, -3, -19, 44, 1000, -1000)
    grid = [(sv, rv, av) for sv in ((1, 2, 3, 5, 10) if deep else (1, 2, 3))
            for rv in rates for av in accels]
    accums = (Fraction(0), Fraction(2 ** 31 - 1), Fraction(2 ** 30)) if deep else \
        (Fraction(0), Fraction(2 ** 31 - 1))
    paths = {'numeric': [], 'clear': []}
    for o, cut, mode in main_paths:
        if not (isinstance(o.value, Tup) and len(o.value.items) == 3):
            continue
        t_f, pos = o.value.items[0], o.value.items[1]
        if not (isinstance(t_f, Sym) and t_f.is_const()) or not isinstance(pos, Sym):
            continue
        conds = []
        for c_, t_ in o.state.path:
            nc = motion.norm_path_cond(c_, t_)
            if nc is None:
                conds = None
                break
            conds.append((nc[0].fingerprint() if hasattr(nc[0], 'fingerprint') else repr(nc[0]),
                          nc[1], nc[0]))
        if conds is None:
            continue
        conds.sort(key=lambda c: len(c[2].all_atoms()))
        ratio = pos / steps
        cls_ = 'single direction' if (ratio.is_const() and abs(ratio.const_value()) == 1) \
            else 'both directions'
        paths[mode].append((conds, cls_, t_f, pos))
    found = {}
    n_eval = 0
    poly.APPROX_SQRT[0] = True
    try:
        for mode in ('numeric', 'clear'):
            for sv, rv, av in grid:
                for acc in (accums if mode == 'numeric' else accums[:1]):
                    asg = {'steps': Fraction(sv), 'rate': Fraction(rv), 'accel': Fraction(av),
                           'accum': acc}
                    cache = {}

                    def val(fp, e):
                        if fp not in cache:
                            try:
                                cache[fp] = e.evaluate(asg)
                            except (ZeroDivisionError, KeyError, ValueError, OverflowError):
                                cache[fp] = None
                        return cache[fp]
                    # the paths partition the inputs: at most one of them is taken at this point
                    for conds, cls_, t_f, pos in paths[mode]:
                        ok = True
                        for fp, op, e in conds:
                            v_ = val(fp, e)
                            if v_ is None or not motion._holds(v_, op):
                                ok = False
                                break
                        if not ok:
                            continue
                        touch = any(cache[fp] == 0 and op in ('<=', '>=') and
                                    {'CEIL', 'FLOOR'} <= {a[1] for a in e.all_atoms() if a[0] == 'f'}
                                    for fp, op, e in conds)
                        label = cls_ + (', root on the reversal tick' if touch else '')
                        if label not in found:
                            found[label] = (sv, rv, av, int(acc) if mode == 'numeric' else 'clear',
                                            t_f.const_value(), pos.evaluate(asg))
                        break
                    n_eval += 1
    finally:
        poly.APPROX_SQRT[0] = False
    for cls_ in ('single direction', 'single direction, root on the reversal tick',
                 'both directions', 'both directions, root on the reversal tick'):
        w = found.get(cls_)
        ck.ob('C03-D12-fallback-duration', '%s[%s paths]' % (q, cls_), w is None,
              'calculate_lm(%s, %s, %s, %r) reports the duration %s (position %s): the fallback '
              'kept when no root of the duration quadratic is accepted, although the move takes '
              'steps and therefore at least one tick (%s path)'
              % ((w[0], w[1], w[2], w[3], w[4], w[5], cls_) if w else (0, 0, 0, 0, 0, 0, cls_)),
              fn.loc(), key='calculate_lm::fallback-duration:%s'
              % cls_.replace(',', '').replace(' ', '-'))
    ck.saw('fallback_paths', {m: len(v) for m, v in paths.items()})
    ck.floor('constant-duration computing paths examined',
             len(paths['numeric']) + len(paths['clear']), 1)
    ck.floor('moves evaluated against the constant-duration paths', n_eval, 300)


def check_reversal_positions(ck, fn, main_paths, deep=False):
    """D13 - D10 read concretely: on a grid of moves that reverse inside the move the reported
    position equals the one that follows from the steps made before the reversal, s =
    FLOOR(|C(T)|/2^31) with the accumulator polynomial of D3 at the reversal tick T = FLOOR(1/2 -
    rate/accel): sign(r_1)*steps if s >= steps, sign(accel)*steps if s = 0, else sign(r_1)*(2s -
    steps).  D10 compares the *form* of s on the paths that carry it; a path that takes s for 0
    (or does not compute it) for some reversal tick carries no such form - this rule finds the
    input.  Explicit start accumulators are included: a step on tick 1 needs one near roll-over."""
    from fractions import Fraction
    import math
    q = fn.qualname
    rates = (3, -3, 11, -44, 27, 1000, -1000, -59220729, 59220729)
    accels = (3, -3, -19, 44, -1, 1000, -1000, 77352579, -77352579)
    grid = [(sv, rv, av) for sv in ((1, 2, 3, 5, 9) if deep else (1, 2, 5))
            for rv in rates for av in accels]
    accums = (0, 2 ** 31 - 1, 2 ** 30)
    paths = []
    for o, cut, mode in main_paths:
        if mode != 'numeric' or not (isinstance(o.value, Tup) and len(o.value.items) == 3
                                     and isinstance(o.value.items[1], Sym)):
            continue
        conds = []
        for c_, t_ in o.state.path:
            nc = motion.norm_path_cond(c_, t_)
            if nc is None:
                conds = None
                break
            conds.append((nc[0].fingerprint(), nc[1], nc[0]))
        if conds is None:
            continue
        conds.sort(key=lambda c: len(c[2].all_atoms()))
        paths.append((conds, o.value.items[1]))
    sgn = lambda x: (x > 0) - (x < 0)
    witness = None
    n_eval = 0
    poly.APPROX_SQRT[0] = True
    try:
        for sv, rv, av in grid:
            r1 = rv - int(Fraction(av, 2)) + av          # int() of a Fraction truncates
            if av == 0 or r1 == 0 or sgn(r1) == sgn(av):
                continue
            t_rev = math.floor(Fraction(1, 2) - Fraction(rv, av))
            if t_rev < 1:
                continue
            for acc in accums:
                start = acc - (2 ** 31 - 1) if r1 < 0 else acc
                c_t = start + (Fraction(rv) + Fraction(av, 2) - int(Fraction(av, 2))) * t_rev + \
                    Fraction(av) * t_rev * t_rev / 2
                s_true = math.floor(abs(c_t) / 2 ** 31)
                if s_true >= sv:
                    want = sgn(r1) * sv
                elif s_true == 0:
                    want = sgn(av) * sv
                else:
                    want = sgn(r1) * (2 * s_true - sv)
                asg = {'steps': Fraction(sv), 'rate': Fraction(rv), 'accel': Fraction(av),
                       'accum': Fraction(acc)}
                cache = {}
                for conds, pos in paths:
                    ok = True
                    for fp, op, e in conds:
                        if fp not in cache:
                            try:
                                cache[fp] = e.evaluate(asg)
                            except (ZeroDivisionError, KeyError, ValueError, OverflowError):
                                cache[fp] = None
                        if cache[fp] is None or not motion._holds(cache[fp], op):
                            ok = False
                            break
                    if not ok:
                        continue
                    n_eval += 1
                    try:
                        got = pos.evaluate(asg)
                    except (ZeroDivisionError, KeyError, ValueError, OverflowError):
                        break
                    if got != want and witness is None:
                        witness = (sv, rv, av, acc, got, want, t_rev, s_true)
                    break
                if witness:
                    break
            if witness:
                break
    finally:
        poly.APPROX_SQRT[0] = False
    w = witness or (0,) * 8
    ck.ob('C03-D13-reversal-position', q, witness is None,
          'calculate_lm(%s, %s, %s, %s) reports position %s; the rate changes sign after tick %s, '
          'by then the accumulator polynomial has made %s step(s) in the initial direction, so '
          'the move ends at position %s' % (w[0], w[1], w[2], w[3], w[4], w[6], w[7], w[5]),
          fn.loc(), key='calculate_lm::reversal-position')
    ck.floor('reversing moves evaluated for their position', n_eval, 40)


def landing_grid(deep=False):
    """Reversing moves whose accumulator polynomial comes back to a step boundary exactly at an
    integer tick of the return leg (the rationale's "accumulator landing exactly on 0 / 2^31"):
    with the accumulator cleared and no step made before the reversal the polynomial returns to
    its start value exactly at tick -2*rate_eff/accel, an integer whenever accel divides
    2*rate_eff - systematic, not exotic.  Plus members of the family with steps made in both
    directions and a landing on the reversal tick itself."""
    M = 2 ** 31
    pts = []
    for R in ((55, 481, 2122) if not deep else (7, 55, 56, 481, 1000, 2122, 2577)):
        pts += [(1, R, -2, 0), (1, -R, 2, M - 1), (1, R, -1, 0), (1, -R, 1, M - 1),
                (2, R, -2, 0), (2, -R, 2, M - 1)]
    pts += [(2, -3, 3, 0), (2, 3, -3, M - 1), (2, -500001, 1000000, 0), (2, 5, -5, M - 2),
            (18, 1800095000, -54567890, 1827432628), (15, 1800095000, -54567890, 373852177),
            (61, -1050109930, 5099123, 1820581577), (52, -1050109930, 5099123, 755271262),
            (6, 1204481500, -77012345, 1323294408)]
    return pts


def recurrence_lm(steps, rate, accel, accum, max_ticks=400000):
    """The C01 recurrence stepped tick by tick (the specification itself, in integers): first tick
    at which `steps` motor steps have been made in either direction -> (tick, position, accum)."""
    M = 2 ** 31
    r = rate - int(Fraction(accel, 2))
    acc, pos, made = accum, 0, 0
    for t in range(1, max_ticks + 1):
        r += accel
        if abs(r) > M - 1:
            return None
        acc += r
        if acc >= M:
            acc, pos, made = acc - M, pos + 1, made + 1
        elif acc < 0:
            acc, pos, made = acc + M, pos - 1, made + 1
        if made >= steps:
            return t, pos, acc
    return None


def check_return_landing(ck, fn, main_paths, deep=False):
    """D14 - exact landings on the return leg: on the grid of `landing_grid` the triple reported
    by the path of calculate_lm that the input takes (path conditions and result terms evaluated
    in exact rationals; square roots of perfect squares are exact) must equal what the recurrence
    gives.  A root of the duration quadratic that is an integer T means the accumulator sits ON
    the boundary at T; on the way back the step is made only when it has moved past it, at T+1."""
    q = fn.qualname
    paths = []
    for o, cut, mode in main_paths:
        if mode != 'numeric' or not (isinstance(o.value, Tup) and len(o.value.items) == 3
                                     and all(isinstance(x, Sym) for x in o.value.items)):
            continue
        conds = []
        for c_, t_ in o.state.path:
            nc = motion.norm_path_cond(c_, t_)
            if nc is None:
                conds = None
                break
            conds.append((nc[0].fingerprint(), nc[1], nc[0]))
        if conds is None:
            continue
        conds.sort(key=lambda c: len(c[2].all_atoms()))
        paths.append((conds, o.value.items))
    witness = None
    n_eval = 0
    poly.APPROX_SQRT[0] = True
    try:
        for sv, rv, av, acc in landing_grid(deep):
            want = recurrence_lm(sv, rv, av, acc)
            if want is None:
                continue
            asg = {'steps': Fraction(sv), 'rate': Fraction(rv), 'accel': Fraction(av),
                   'accum': Fraction(acc)}
            cache = {}
            for conds, triple in paths:
                ok = True
                for fp, op, e in conds:
                    if fp not in cache:
                        try:
                            cache[fp] = e.evaluate(asg)
                        except (ZeroDivisionError, KeyError, ValueError, OverflowError):
                            cache[fp] = None
                    if cache[fp] is None or not motion._holds(cache[fp], op):
                        ok = False
                        break
                if not ok:
                    continue
                try:
                    got = tuple(x.evaluate(asg) for x in triple)
                except (ZeroDivisionError, KeyError, ValueError, OverflowError):
                    break
                n_eval += 1
                if got != tuple(Fraction(w) for w in want) and witness is None:
                    witness = ((sv, rv, av, acc), tuple(int(g) if g.denominator == 1 else float(g)
                                                        for g in got), want)
                break
    finally:
        poly.APPROX_SQRT[0] = False
    w = witness or ((0, 0, 0, 0), (), ())
    ck.ob('C03-D14-return-landing', q, witness is None,
          'calculate_lm%s reports %s; stepping the recurrence gives %s (the accumulator '
          'polynomial sits exactly on a step boundary at an integer tick of the return leg: the '
          'step back is made one tick later)' % (w[0], w[1], w[2]), fn.loc(),
          key='calculate_lm::return-landing')
    ck.floor('exact-landing moves evaluated', n_eval, 12)


def check_root_guard(ck, fn, main_paths):
    """D8: the roots of the duration quadratic are computed for every non-negative discriminant.
    A path that skips the square root may do so only under discriminant < 0 (no real root); a
    guard that also excludes discriminant = 0 loses the double root - the move that ends exactly
    when the rate reaches zero."""
    discs = []
    for o, cut, mode in main_paths:
        if isinstance(o.value, Tup) and o.value.items and isinstance(o.value.items[0], Sym):
            sqrt_args(o.value.items[0], discs)
    n = 0
    for o, cut, mode in main_paths:
        t_f = o.value.items[0] if isinstance(o.value, Tup) and o.value.items else None
        if not isinstance(t_f, Sym) or sqrt_args(t_f):
            continue
        if any(nt[0] == 'mp-op' and nt[1].endswith('sqrt') for nt in o.state.notes):
            continue      # the roots were computed (and discarded later on this path)
        for c_, t_ in o.state.path[cut:]:
            nc = motion.norm_path_cond(c_, t_)
            if nc is None:
                continue
            ident = motion.identify(nc[0], discs, []) if discs else None
            if ident is None:
                continue
            op = nc[1]
            if ident[1] < 0:
                op = {'<': '>', '<=': '>=', '>': '<', '>=': '<=', '==': '==', '!=': '!='}[op]
            n += 1
            ck.ob('C03-D8-root-guard', 'calculate_lm[%s]::roots-skipped-only-for-negative-'
                  'discriminant' % mode, op == '<',
                  'a computing path skips the root computation under "discriminant %s 0"; real '
                  'roots exist for every discriminant >= 0, and discriminant = 0 (double root: the '
                  'budget is reached exactly when the rate reaches zero) must not fall through to '
                  'the duration-0 fallback' % op, fn.loc(), key='calculate_lm::root-guard')
    ck.floor('paths that skip the root computation on a tested discriminant', n, 1)


def check_steps_before_reversal(ck, fn, main_paths):
    """D10 - on the paths that report a reversal (position = +-(2*s_rev - steps)) the number of
    steps made before the reversal is s_rev = FLOOR(|C(T)| / 2^31), where C is the same
    accumulator polynomial as in D3, C(t) = start + (r + a/2 - TRUNC(a/2))*t + a*t^2/2, taken at
    the reversal tick T the code uses, and start is the (adjusted) start accumulator."""
    q = fn.qualname
    n = 0
    seen = set()
    for o, cut, mode in main_paths:
        if not (isinstance(o.value, Tup) and len(o.value.items) == 3 and
                isinstance(o.value.items[1], Sym)):
            continue
        pos = o.value.items[1]
        fl = [a for a in pos.atoms() if a[0] == 'f' and a[1] == 'FLOOR']
        if len(fl) != 1:
            continue
        srev = Sym(poly.Poly.atom(fl[0]))
        lin = pos - pos.subs_atoms({fl[0]: Sym.const(0)})
        k = lin / srev
        rest = pos - lin
        if not (k.is_const() and abs(k.const_value()) == 2 and
                (rest == V('steps') or rest == -V('steps'))):
            continue
        key = (repr(pos), mode)
        if key in seen:
            continue
        seen.add(key)
        inner = fl[0][2][0]
        at = inner.as_atom()
        if at is not None and at[0] == 'f' and at[1] == 'ABS':
            inner = at[2][0]
        total = inner * TWO31
        ticks = [a for a in total.all_atoms() if a[0] == 'f' and a[1] == 'FLOOR']
        ok, why = False, 'no reversal tick found in %r' % (total,)
        for t_at in ticks:
            T = Sym(poly.Poly.atom(t_at))
            for sg in (1, -1):
                r, a = V('rate') * sg, V('accel') * sg
                want = (r + a / 2 - mk_func('TRUNC', a / 2)) * T + a * T * T / 2
                z = total - want
                # sign of the whole total is irrelevant under ABS
                for zz in (z, -total - want):
                    if mode == 'clear':
                        good = zz.is_const() and zz.const_value() in (0, )
                    else:
                        good = zz == V('accum') or zz == V('accum') - (TWO31 - 1)
                    if good:
                        ok = True
            if not ok:
                why = 'accumulator at the reversal is taken as %r' % (total,)
        n += 1
        ck.ob('C03-D10-steps-before-reversal', 'calculate_lm[%s]::%s' % (mode, repr(rest)), ok,
              '%s: the steps made before the reversal are not FLOOR(|C(T)|/2^31) with the '
              'accumulator polynomial C(t) = start + (r + a/2 - TRUNC(a/2))*t + a*t^2/2 of D3 at '
              'the reversal tick T: %s' % (q, why[:400]), fn.loc(),
              key='calculate_lm::steps-before-reversal')
    ck.floor('reversal paths judged for steps before the reversal', n, 1)


def check_root_positive(ck, fn, main_paths):
    """D8b - a duration taken from a root of the quadratic is at least one tick: on every path
    that returns CEIL(root) the path conditions bound that very root from below by a quantity
    that is >= 0 (strict bound) or >= 1 (weak bound).  A bound below zero admits a duration of 0
    ticks for a move that takes steps."""
    q = fn.qualname
    n = 0
    undecided = []
    for o, cut, mode in main_paths:
        if not (isinstance(o.value, Tup) and len(o.value.items) == 3 and
                isinstance(o.value.items[0], Sym)):
            continue
        t_f = motion.strip_int(o.value.items[0])
        roots = [a for a in t_f.atoms() if a[0] == 'f' and a[1] == 'CEIL' and any(
            b[0] == 'f' and b[1] == 'SQRT' for b in Sym(poly.Poly.atom(a)).all_atoms())]
        if len(roots) != 1 or t_f != Sym(poly.Poly.atom(roots[0])):
            continue
        root = Sym(poly.Poly.atom(roots[0]))
        conds = [motion.norm_path_cond(c_, t_) for c_, t_ in o.state.path]
        conds = [c for c in conds if c is not None]

        def lower(expr):
            """A constant the path proves expr >= to, else None."""
            if expr.is_const():
                return expr.const_value()
            at = expr.as_atom()
            if at is not None and at[0] == 'f' and at[1] == 'MAX':
                cs = [x.const_value() for x in at[2] if x.is_const()]
                if cs:
                    return max(cs)
            best = None
            for e, op in conds:
                d = e - expr                 # expr + d op 0
                if d.is_const() and op in ('>', '>='):
                    lb = -d.const_value() + (1 if op == '>' and motion_int(expr) else 0)
                    best = lb if best is None else max(best, lb)
            return best

        def motion_int(expr):
            from ..poly import is_intvalued
            return is_intvalued(expr)
        best = None
        for e, op in conds:
            if roots[0] not in e.atoms():
                continue
            k = (e - e.subs_atoms({roots[0]: Sym.const(0)})) / root
            if not (k.is_const() and k.const_value() != 0):
                continue
            g = -(e.subs_atoms({roots[0]: Sym.const(0)})) / k     # root  op'  g
            op2 = op if k.const_value() > 0 else {'>': '<', '>=': '<=', '<': '>', '<=': '>=',
                                                  '==': '==', '!=': '!='}[op]
            if op2 not in ('>', '>='):
                continue
            lb = lower(g)
            if lb is None:
                continue
            lb = lb + (1 if op2 == '>' else 0)      # the root is an integer (a ceiling)
            best = lb if best is None else max(best, lb)
        # reversal paths: the accepted root lies after the reversal tick T (the quadratic is
        # solved for the phase after the reversal; T is the last tick of the initial phase)
        pos = o.value.items[1]
        if isinstance(pos, Sym) and any(a[0] == 'f' and a[1] == 'FLOOR' for a in pos.atoms()):
            rel = None
            for e, op in conds:
                if roots[0] not in e.atoms():
                    continue
                others = [a for a in e.atoms() if a != roots[0]]
                if len(others) != 1 or others[0][0] != 'f' or others[0][1] != 'FLOOR':
                    continue
                T = Sym(poly.Poly.atom(others[0]))
                k = (e - e.subs_atoms({roots[0]: Sym.const(0)})) / root
                m = (e - e.subs_atoms({others[0]: Sym.const(0)})) / T
                c0 = e.subs_atoms({roots[0]: Sym.const(0), others[0]: Sym.const(0)})
                if not (k.is_const() and m.is_const() and c0.is_const()
                        and k.const_value() == -m.const_value() and k.const_value() != 0):
                    continue
                op2 = op if k.const_value() > 0 else {'>': '<', '>=': '<=', '<': '>', '<=': '>=',
                                                      '==': '==', '!=': '!='}[op]
                if op2 not in ('>', '>='):
                    continue
                # root - T + c0/k  op2  0   ->   root >= T - c0/k (+1 if strict)
                gap = -c0.const_value() / k.const_value() + (1 if op2 == '>' else 0)
                rel = gap if rel is None else max(rel, gap)
            if rel is not None:
                ck.ob('C03-D8-root-after-reversal',
                      'calculate_lm[%s]::root-after-the-reversal-tick' % mode, rel >= 1,
                      '%s accepts a root of the duration quadratic with only "root >= T + %s" (T = '
                      'last tick of the initial direction): a root at the reversal tick itself '
                      'belongs to the phase before the reversal and must be discarded'
                      % (q, rel), fn.loc(), key='calculate_lm::root-after-reversal')
        n += 1
        if best is None:
            undecided.append(repr(t_f)[:80])
            continue
        ck.ob('C03-D8-root-positive', 'calculate_lm[%s]::root-at-least-one-tick' % mode, best >= 1,
              '%s returns a root of the duration quadratic that its path conditions only bound '
              'by "root >= %s": a duration of %s ticks can be reported for a move that takes '
              'steps (every accepted root must be tested > 0)' % (q, best, best), fn.loc(),
              key='calculate_lm::root-positive')
    ck.floor('paths returning a root of the duration quadratic', n, 1)
    if undecided and not ck.violations:
        raise AnalysisError('%s: %d path(s) return a root whose positivity guard was not '
                            'recognised (%s)' % (q, len(undecided), undecided[0]))


def run(ck, prog, tier):
    ck.explanation = (
        'PARTIAL CLAIM - structural necessary conditions of C03 only. calculate_lm is abstractly '
        'interpreted (about 600 paths per accumulator mode) in the rational-normal-form domain. '
        'Decided: (D1) over the 27 sign cases of (steps, rate, accel) the early returns are taken '
        'exactly for steps=0, rate=accel=0, steps<0 and rate<0, each returns the literal (0,0,0), '
        'and no other case returns before the computation; (D2+D3) on every computing path the '
        'returned accumulator equals accum0 + (r + a/2 - TRUNC(a/2))*t + a*t^2/2 - 2^31*pos with '
        't, pos the returned duration and position and (r, a) = (rate, accel), mirrored to '
        '(-rate, -accel) exactly on the steps<0 paths - the same polynomial as C01, so the '
        'timed-move predictor reproduces the accumulator modulo 2^31; (D4) with accum="clear" '
        'accum0 follows the same 9-case sign table as C01; (D5) mp.dps>=21 precedes the first '
        'mpmath operation on every path; (D6) moveTimeLM delegates with its swapped positional '
        'order and accum="clear"; (D8) the root computation is skipped only for a negative '
        'discriminant, every accepted root is tested > 0 and, on reversal paths, > the reversal '
        'tick; (D9) a path that answers "all steps in the initial direction" without a condition '
        'on the step count lies in the region of (rate, accel) where the rate keeps its sign '
        'after tick 1 (compared on integer points; this rule found defect F10); (D11) a path '
        'taken because the step count exceeds the steps made before a reversal lies where the rate '
        'does change sign after tick 1; (D12) no move of a witness grid takes a computing path that '
        'returns a constant (fallback) duration (this rule found K1, repaired with F17); (D10) the steps '
        'made before a reversal are FLOOR(|C(T)|/2^31) with the accumulator polynomial of D3 at '
        'the reversal tick; (D13) on a grid of reversing moves the reported position follows from '
        'those steps; (D14) on a grid of reversing moves whose accumulator polynomial comes back '
        'to a step boundary exactly at an integer tick the reported triple equals the recurrence\'s '
        '(found defect F17). NOT decided in general: that the chosen root is the *first* tick '
        'reaching the budget - only on the grids of D12-D14.')
    ck.assumptions += ['inputs are integers', 'mpmath rounds correctly to the configured precision',
                       'duration minimality / root selection is outside this check']
    ck.trusted += ['python ast module', 'vf.poly normal forms', 'vf.interp']
    purity.check(ck, prog, ['ebb_calc.calculate_lm', 'ebb_motion.moveTimeLM'], 'C03-R-pure')
    fn = prog.func('ebb_calc.calculate_lm')
    if fn.params != ['steps', 'rate', 'accel', 'accum']:
        raise AnalysisError('calculate_lm signature changed: %s' % fn.params)
    ck.saw('functions', fn.qualname + ' @ ' + fn.loc())
    motion.declare_ints()
    base_q = [V('steps'), V('rate'), V('accel')]
    all_out = []
    n_const = [0]
    main_paths = []
    for mode in ('numeric', 'clear'):
        args = [V('steps'), V('rate'), V('accel'),
                Str.lit('clear') if mode == 'clear' else V('accum')]
        it_ = Interp(prog, max_paths=400000)
        it_.trace_arith = True
        outs = it_.run(fn, args)
        all_out += outs
        ck.saw('paths', '%s[%s]: %d paths' % (fn.qualname, mode, len(outs)))
        main_union, early_union, main_exact = set(), set(), set()
        n_main = 0
        for o in outs:
            if o.kind != 'return':
                ck.ob('C03-D1-cannot-move', 'calculate_lm[%s]::no-raise' % mode, False,
                      'a path raises %s' % o.value, fn.loc(), key='calculate_lm::raises')
                continue
            st = o.state
            # the validity prologue = the leading tests on the signs of steps, rate and accel; an
            # early return is a path that hands back three constants
            is_early = isinstance(o.value, Tup) and len(o.value.items) == 3 and all(
                isinstance(x, Sym) and x.is_const() for x in o.value.items)
            conds = []
            cut = None
            for k_, (c, t) in enumerate(st.path):
                nc = motion.norm_path_cond(c, t)
                if nc is None:
                    if is_early:
                        raise AnalysisError('calculate_lm: non-numeric condition in the prologue: '
                                            '%r' % (c,))
                    if cut is None:
                        cut = k_
                    continue
                atoms_ = nc[0].all_atoms()
                plain = all(a[0] == 'v' and a[1] in ('steps', 'rate', 'accel') for a in atoms_)
                if not is_early and motion.identify(nc[0], base_q, []) is None and not plain:
                    # not a sign test of steps / rate / accel: the prologue ends here; later
                    # sign tests still restrict the sign cases this path can be taken in
                    if cut is None:
                        cut = k_
                    continue
                conds.append(nc)
            if cut is None:
                cut = len(st.path)
            over_approx = False
            try:
                allowed = motion.sign_cases_of_path(conds, base_q)
                if not allowed and not is_early:
                    # the relational tests have no solution on the small grid of the point
                    # oracle: classify by the sign tests alone (an over-approximation)
                    allowed = motion.sign_cases_of_path(
                        [nc_ for nc_ in conds if motion.identify(nc_[0], base_q, []) is not None],
                        base_q)
                    over_approx = True
            except KeyError as exc:
                ck.ob('C03-D1-cannot-move', 'calculate_lm[%s]::prologue-quantity' % mode, False,
                      'the validity prologue tests %r, not the sign of steps, rate or accel'
                      % (exc.args[0],), fn.loc(), key='calculate_lm::prologue')
                continue
            if not is_early:
                # (kept for the rules below: everything from here on is the computation)
                pass
            if is_early:
                # early return
                early_union |= allowed
                ok = o.value == ZERO3
                ck.ob('C03-D1-cannot-move', 'calculate_lm[%s]::early-return-value' % mode, ok,
                      'an early return yields %r instead of (0, 0, 0)' % (o.value,), fn.loc(),
                      key='calculate_lm::early-value')
                bad = sorted(t for t in allowed if not cannot_move(t))
                ck.ob('C03-D1-cannot-move', 'calculate_lm[%s]::early-return-only-if-cannot-move'
                      % mode, not bad,
                      'sign cases (steps, rate, accel) = %s return (0,0,0) before the computation '
                      'although the move is valid' % bad[:4], fn.loc(),
                      key='calculate_lm::early-extra')
                continue
            n_main += 1
            main_union |= allowed
            if not over_approx:
                main_exact |= allowed
            main_paths.append((o, cut, mode))
            mirrored = all(t[0] < 0 for t in allowed)
            if not mirrored and any(t[0] < 0 for t in allowed):
                raise AnalysisError('a computing path mixes steps<0 and steps>0')
            r = -V('rate') if mirrored else V('rate')
            a = -V('accel') if mirrored else V('accel')
            if isinstance(o.value, Tup) and len(o.value.items) == 3 and not all(
                    isinstance(x, Sym) for x in o.value.items):
                # a triple, but the interpreter has no normal form for one of its entries
                raise AnalysisError('calculate_lm returns a triple with an entry outside the '
                                    'rational-normal-form domain: %r'
                                    % ([x for x in o.value.items if not isinstance(x, Sym)][0],))
            if not (isinstance(o.value, Tup) and len(o.value.items) == 3
                    and all(isinstance(x, Sym) for x in o.value.items)):
                ck.ob('C03-D3-accumulator', 'calculate_lm[%s]::returns-triple' % mode, False,
                      'does not return (duration, position, accumulator): %r' % (o.value,),
                      fn.loc(), key='calculate_lm::return-shape')
                continue
            t_f, pos, acc = o.value.items
            if mode == 'numeric':
                starts = [V('accum')]
            else:
                q1 = r - mk_func('TRUNC', a / 2) + a
                full = []
                for c, t in st.path:
                    nc = motion.norm_path_cond(c, t)
                    if nc is not None and motion.identify(nc[0], [q1, a], []) is not None:
                        full.append(nc)
                cases = motion.sign_cases_of_path(full, [q1, a])
                starts = sorted({clear_expected(t) for t in cases})
                starts = [Sym.const(x) for x in starts]
                if len(starts) != 1:
                    ck.ob('C03-D4-clear-rule', 'calculate_lm::clear-decided-by-first-rates', False,
                          'on a computing path the cleared accumulator is not determined by the '
                          'signs of the tick-1 rate and accel (path allows both 0 and 2^31-1)',
                          fn.loc(), key='calculate_lm::clear-table')
                    continue
            want = starts[0] + (r + a / 2 - mk_func('TRUNC', a / 2)) * t_f + a * t_f * t_f / 2 \
                - TWO31 * pos
            ok = acc == want or motion.strip_int(acc) == want
            rule = 'C03-D4-clear-rule' if mode == 'clear' else 'C03-D3-accumulator'
            what = 'mirrored (steps<0) ' if mirrored else ''
            ck.ob(rule, 'calculate_lm[%s]::%saccumulator-closed-form' % (mode, what), ok,
                  'on a %scomputing path the returned accumulator is %r; with the returned '
                  'duration t and position pos the recurrence gives %r (start accumulator %r)'
                  % (what, acc, want, starts[0]), fn.loc(),
                  key='calculate_lm::%s' % ('clear-table' if mode == 'clear' else
                                            ('mirror' if mirrored else 'accumulator')))
            # D7 constant-rate moves: the duration IS decided - with accel = 0 the accumulator is
            # affine in the tick count, so the first tick reaching the budget is a ceiling
            if allowed and all(t[2] == 0 for t in allowed):
                # sign of the rate parameter on this path: prologue cases refined by the later
                # tests evaluated at accel = 0 (contradictory paths are infeasible and skipped)
                possible = {t[1] for t in allowed}
                for c_, t_ in st.path[cut:]:
                    nc = motion.norm_path_cond(c_, t_)
                    if nc is None:
                        continue
                    try:
                        e0 = nc[0].subs({('v', 'accel'): Sym.const(0)})
                    except ZeroDivisionError:
                        continue      # a quotient by accel: not evaluated when accel = 0
                    if e0.is_const():
                        if not motion._holds(e0.const_value(), nc[1]):
                            possible = set()      # the path is not taken with accel = 0
                        continue
                    ident = motion.identify(e0, [V('rate')], [])
                    if ident is not None:
                        sat = motion.SAT[nc[1]]
                        if ident[1] < 0:
                            sat = {-x for x in sat}
                        possible &= sat
                if len(possible) == 1 and 0 not in possible:
                    neg = (next(iter(possible)) * (-1 if mirrored else 1)) < 0
                    s_abs = -V('steps') if mirrored else V('steps')
                    pos_want = -s_abs if neg else s_abs
                    adj = starts[0] - (TWO31 - 1) if neg else starts[0]
                    t_want = mk_func('CEIL', (TWO31 * pos_want - adj) / r)
                    # on these paths accel = 0: substitute before comparing
                    zero = {('v', 'accel'): Sym.const(0)}
                    try:
                        ok_t = motion.strip_int(t_f.subs(zero)) == t_want.subs(zero) and \
                            pos.subs(zero) == pos_want
                    except ZeroDivisionError:
                        # the returned duration divides by accel: not a path taken with accel = 0
                        # (its path conditions relate rate and accel beyond their signs)
                        continue
                    ck.ob('C03-D7-constant-rate-duration',
                          'calculate_lm[%s]::%sconstant-rate %s' % (mode, what,
                                                                    'negative' if neg else 'positive'),
                          ok_t,
                          'with accel = 0 and a %s rate the returned (duration, position) is (%r, '
                          '%r); the first tick at which the budget is reached is %r at position %r'
                          % ('negative' if neg else 'positive', t_f.subs(zero), pos.subs(zero),
                             t_want.subs(zero), pos_want), fn.loc(),
                          key='calculate_lm::constant-rate-duration')
                    n_const[0] += 1
            if len(ck.samples) < 4:
                ck.sample({'mode': mode, 'mirrored': mirrored, 'duration': repr(t_f)[:200],
                           'position': repr(pos), 'accumulator': repr(acc)[:300]})
        for t in itertools.product((-1, 0, 1), repeat=3):
            if cannot_move(t):
                ck.ob('C03-D1-cannot-move', 'calculate_lm[%s]::cannot-move%s' % (mode, list(t)),
                      t in early_union and t not in main_exact,
                      'sign case (steps, rate, accel) = %s cannot move but reaches the '
                      'computation instead of returning (0,0,0)' % (list(t),), fn.loc(),
                      key='calculate_lm::early-missing')
            else:
                ck.ob('C03-D1-cannot-move', 'calculate_lm[%s]::can-move%s' % (mode, list(t)),
                      t in main_union,
                      'valid sign case (steps, rate, accel) = %s never reaches the computation'
                      % (list(t),), fn.loc(), key='calculate_lm::early-extra')
        ck.floor('calculate_lm[%s] computing paths' % mode, n_main, 20)
    ck.floor('constant-rate computing paths', n_const[0], 4)
    check_root_guard(ck, fn, main_paths)
    check_reversal_classification(ck, fn, main_paths)
    check_reversal_claims(ck, fn, main_paths)
    check_fallback_duration(ck, fn, main_paths, deep=(tier == 'thorough'))
    check_reversal_positions(ck, fn, main_paths, deep=(tier == 'thorough'))
    check_return_landing(ck, fn, main_paths, deep=(tier == 'thorough'))
    check_root_positive(ck, fn, main_paths)
    check_steps_before_reversal(ck, fn, main_paths)
    n_paths, n_ops = motion.check_precision(ck, 'C03-D5-precision', fn, all_out)
    ck.floor('calculate_lm mpmath operations', n_ops, 10)
    n_div = motion.check_float_division_closure(ck, 'C03-D5-float-division', prog, fn)
    ck.floor('calculate_lm division sites', n_div, 2)
    # D6 wrapper
    f_w = prog.func('ebb_motion.moveTimeLM')
    ck.saw('functions', f_w.qualname + ' @ ' + f_w.loc())
    if f_w.params != ['rate', 'steps', 'accel']:
        raise AnalysisError('moveTimeLM signature changed')
    a = [V('p_rate'), V('p_steps'), V('p_accel')]
    outs = Interp(prog, NoInline({'ebb_calc.calculate_lm'})).run(f_w, a)
    ok = len(outs) == 1 and outs[0].kind == 'return'
    if ok:
        v = outs[0].value
        call_ok = isinstance(v, Opaque) and v.label == 'item' and v.args[1] == Sym.const(0) \
            and isinstance(v.args[0], Opaque) and v.args[0].label == 'call:ebb_calc.calculate_lm'
        ok = call_ok
        if ok:
            # the kwargs are not part of the opaque; re-evaluate by inlining the defaults: the call
            # node is inspected for accum="clear"
            import ast
            calls = [n for n in ast.walk(f_w.node) if isinstance(n, ast.Call)
                     and isinstance(n.func, ast.Attribute) and n.func.attr == 'calculate_lm']
            ok = len(calls) == 1 and v.args[0].args[:3] == (a[1], a[0], a[2])
            c = calls[0]
            acc_arg = None
            if len(c.args) >= 4:
                acc_arg = c.args[3]
            for k in c.keywords:
                if k.arg == 'accum':
                    acc_arg = k.value
            clear = acc_arg is None or (isinstance(acc_arg, ast.Constant) and acc_arg.value == 'clear')
            ok = ok and clear
    ck.ob('C03-D6-alias', 'moveTimeLM::delegates', ok,
          'moveTimeLM(rate, steps, accel) must return element 0 of calculate_lm(steps, rate, '
          'accel, accum="clear"); got %r' % ([o.value for o in outs],), f_w.loc(),
          key='moveTimeLM::delegation')
