"""C20 - text helpers: xml_escape chain/table/order, format_hms decision table."""
from fractions import Fraction
from ..poly import Sym, mk_func
from .. import poly
from ..interp import (Interp, Hooks, Opaque, Str, Slot, Const, Cmp, NotC, State, TRUE, FALSE, DictV,
                      In, OrC, AndC, Truthy)
from ..model import AnalysisError
from .. import purity

ENTITIES = {'&': {'&amp;', '&#38;', '&#x26;'}, '<': {'&lt;', '&#60;', '&#x3c;', '&#x3C;'},
            '>': {'&gt;', '&#62;', '&#x3e;', '&#x3E;'}, '"': {'&quot;', '&#34;', '&#x22;'},
            "'": {'&apos;', '&#39;', '&#x27;'}}


# XML-legal characters that a parser does not hand back as written: in attribute values TAB, LF
# and CR are normalised to a space, in content CR (and CR LF) to LF (XML 1.0 sections 2.11, 3.3.3).
# They survive only as numeric character references.
WHITESPACE_REFS = {'\t': {'&#9;', '&#x9;', '&#x09;'},
                   '\n': {'&#10;', '&#xa;', '&#xA;', '&#x0a;', '&#x0A;'},
                   '\r': {'&#13;', '&#xd;', '&#xD;', '&#x0d;', '&#x0D;'}}

SIMULTANEOUS = set()
SAMPLE_TEXTS = ['', 'plain', '&', '<', '>', '"', "'", 'a&b', 'a<b>c', 'AT&amp;T', '&lt;tag&gt;',
                '&#176;', '&#x26;', '&amp;amp;', "it's \"q\" & <more>", '&&', '&quot;', '&apos;x',
                '&unknown;', '& ', 'a\tb', 'line 1\nline 2', 'cr\rlf\r\n', '\t&\n<\r',
                # XML-legal characters at the edges of the Char production, and beyond the BMP
                'caf\u00e9 \u0085 \ud7ff \ue000 \ufffd', 'smile \U0001F600 & plane-16 \U0010FFFF']


def oracle_escape(t):
    return t.replace('&', '&amp;').replace('<', '&lt;').replace('>', '&gt;') \
        .replace('"', '&quot;').replace("'", '&apos;')


def same_text(got, t):
    """got is a correct escape of t: reading it back (entities and character references
    resolved, then the parser's whitespace normalisation of the *literal* characters left in got)
    gives t in content and in attribute values."""
    import re
    if any(c in got for c in '<>"\'') or re.search(r'&(?!(amp|lt|gt|quot|apos|#\d+|#x[0-9a-fA-F]+);)', got):
        return False

    def unref(m):
        body = m.group(1)
        named = {'amp': '&', 'lt': '<', 'gt': '>', 'quot': '"', 'apos': "'"}
        if body in named:
            return named[body]
        return chr(int(body[2:], 16) if body[1] in 'xX' else int(body[1:]))
    content = re.sub(r'&([^;]+);', unref, got.replace('\r\n', '\n').replace('\r', '\n'))
    attr = re.sub(r'&([^;]+);', unref, re.sub(r'[\t\n\r]', ' ', got))
    return content == t and attr == t


class Unevaluable(Exception):
    pass


def eval_text_term(v, inp, sample):
    import re
    if v == inp:
        return sample
    if isinstance(v, Str) and v.is_lit():
        return v.text()

    def lit(x):
        if isinstance(x, Str) and x.is_lit():
            return x.text()
        raise Unevaluable(repr(x)[:80])
    if isinstance(v, Opaque):
        if v.label == 'm:replace' and len(v.args) == 3:
            return eval_text_term(v.args[0], inp, sample).replace(lit(v.args[1]), lit(v.args[2]))
        if v.label == 'm:translate' and len(v.args) == 2 and isinstance(v.args[1], DictV):
            table = {}
            for k, val in v.args[1].items:
                key = int(k.const_value()) if isinstance(k, Sym) else ord(lit(k))
                table[key] = lit(val)
            return eval_text_term(v.args[0], inp, sample).translate(table)
        if v.label == 'call:re.sub' and len(v.args) >= 3:
            return re.sub(lit(v.args[0]), lit(v.args[1]).replace('\\', '\\\\'),
                          eval_text_term(v.args[2], inp, sample))
        if v.label == 'm:sub' and len(v.args) >= 3 and isinstance(v.args[0], Opaque) and \
                v.args[0].label == 'call:re.compile' and v.args[0].args:
            return re.sub(lit(v.args[0].args[0]), lit(v.args[1]),
                          eval_text_term(v.args[2], inp, sample))
        if v.label in ('m:strip',) and v.args:
            return eval_text_term(v.args[0], inp, sample).strip()
    raise Unevaluable(repr(v)[:80])


def escape_witness(rv, inp):
    n = 0
    for t in SAMPLE_TEXTS:
        try:
            got = eval_text_term(rv, inp, t)
        except Unevaluable as exc:
            return ('unevaluable', str(exc))
        except Exception as exc:  # e.g. a malformed regular expression literal
            return ('unevaluable', '%s: %s' % (type(exc).__name__, exc))
        n += 1
        if not same_text(got, t):
            return ('witness', t, got, oracle_escape(t))
    return ('agree', n)


def returned_term(prog):
    fn = prog.func('text_utils.xml_escape')
    inp = Opaque('param:' + fn.params[0], (), 'str')
    outs = Interp(prog).run(fn, [inp])
    rets = [o for o in outs if o.kind == 'return' and o.value != inp]
    if not rets or any(o.value != rets[0].value for o in rets):
        raise AnalysisError('xml_escape is not a single straight-line path')
    return rets[0].value


def absent_characters(path, inp):
    """Characters the path conditions establish as *not occurring* in the input: `c not in
    text` tests, also as the negation of any(c in text for c in '...') unrolled to a disjunction.
    Returns None when a condition is of another kind."""
    out = set()

    def absent(c, truth):
        if isinstance(c, NotC):
            return absent(c.c, not truth)
        if isinstance(c, Truthy):
            return absent(c.v, truth) if isinstance(c.v, (In, OrC, AndC, NotC)) else False
        if isinstance(c, In) and c.container == inp and isinstance(c.item, Str) and \
                c.item.is_lit() and len(c.item.text()) == 1:
            if truth:
                return False        # establishes presence, nothing about absence: not a shortcut
            out.add(c.item.text())
            return True
        if isinstance(c, OrC) and not truth:
            return all(absent(x, False) for x in c.items)
        if isinstance(c, AndC) and truth:
            return all(absent(x, True) for x in c.items)
        return False
    for c, t in path:
        if not absent(c, t):
            return None
    return out


SHORTCUTS = []


def extract_chain(ck, prog):
    fn = prog.func('text_utils.xml_escape')
    if len(fn.params) != 1:
        raise AnalysisError('xml_escape signature changed')
    inp = Opaque('param:' + fn.params[0], (), 'str')
    outs = Interp(prog).run(fn, [inp])
    ck.saw('functions', fn.qualname + ' @ ' + fn.loc())
    rets = [o for o in outs if o.kind == 'return']
    # shortcut paths: the input handed back unchanged because certain characters do not occur
    del SHORTCUTS[:]
    if len(rets) == len(outs) and len(rets) > 1:
        full = [o for o in rets if o.value != inp]
        for o in rets:
            if o.value == inp:
                a = absent_characters(o.state.path, inp)
                if a is None:
                    raise AnalysisError('xml_escape returns its argument unchanged on a path '
                                        'whose conditions are not character-absence tests')
                SHORTCUTS.append((a, o))
        if full and all(o.value == full[0].value for o in full):
            rets = outs = full[:1]       # the same term on every other path
    if len(rets) != 1 or len(outs) != 1:
        raise AnalysisError('xml_escape is not a single straight-line path (%d outcomes)' % len(outs))
    v = rets[0].value
    chain = []
    if isinstance(v, Opaque) and v.label == 'm:translate' and len(v.args) == 2 and \
            isinstance(v.args[1], DictV):
        # one simultaneous pass: every character is mapped at most once, so the ordering rule
        # (no later step rewrites an earlier output) holds by construction
        pairs = []
        for k, val in v.args[1].items:
            if isinstance(k, Sym) and k.is_const() and k.const_value().denominator == 1:
                key = chr(int(k.const_value()))
            elif isinstance(k, Str) and k.is_lit() and len(k.text()) == 1:
                key = k.text()
            else:
                raise AnalysisError('xml_escape: translation table key %r' % (k,))
            if not (isinstance(val, Str) and val.is_lit()):
                raise AnalysisError('xml_escape: translation table value %r' % (val,))
            pairs.append((key, val.text()))
        SIMULTANEOUS.add(id(pairs))
        return fn, pairs, v.args[0], inp
    while isinstance(v, Opaque) and v.label == 'm:replace' and len(v.args) == 3:
        obj, a, b = v.args
        if not (isinstance(a, Str) and a.is_lit() and isinstance(b, Str) and b.is_lit()):
            raise AnalysisError('xml_escape: non-literal replace arguments')
        chain.append((a.text(), b.text()))
        v = obj
    chain.reverse()
    return fn, chain, v, inp


def check_escape(ck, prog, chain_override=None, canary=False):
    """Returns list of (rule, key, message) violations for the chain (used for canaries too)."""
    if chain_override is None:
        fn, chain, base, inp = extract_chain(ck, prog)
        loc = fn.loc()
        base_ok = (base == inp)
        if not chain or not base_ok:
            # not a plain chain: evaluate the returned *term* (replace / translate / re.sub with
            # literal arguments over the parameter) on sample texts and compare with the entity
            # table; a differing sample is a genuine counterexample
            rv = returned_term(prog)
            res = escape_witness(rv, inp)
            if res[0] == 'witness':
                return [], [('C20-D2-table', 'xml_escape::witness',
                             'xml_escape(%r) gives %r; escaping the five XML special characters '
                             '(every occurrence, ampersand included) gives %r' % res[1:])], loc
            raise AnalysisError('xml_escape does not return a chain of str.replace links (or one '
                                'str.translate pass) applied to its argument (%s); cannot conclude'
                                % ('the term agrees with the entity table on %d sample texts'
                                   % res[1] if res[0] == 'agree' else 'the term %r cannot be '
                                   'evaluated' % (base,)))
        simultaneous = id(chain) in SIMULTANEOUS
    else:
        chain, base_ok, loc = chain_override, True, 'fixture'
        simultaneous = False
    found = []

    def bad(rule, key, msg):
        found.append((rule, key, msg))

    # D1: the returned value is a replace chain rooted at the parameter
    if not base_ok:
        bad('C20-D1-chain', 'xml_escape::chain-root',
            'the escape chain does not start from the input parameter (a link restarts or drops '
            'an earlier result)')
    # D2: the set of (char, entity) pairs is the XML predefined-entity table
    seen = {}
    for a, b in chain:
        if a in WHITESPACE_REFS:
            if b not in WHITESPACE_REFS[a]:
                bad('C20-D2-table', 'xml_escape::pair:%r' % a,
                    '%r is replaced by %r, which is not a character reference for it' % (a, b))
        elif a not in ENTITIES:
            bad('C20-D2-table', 'xml_escape::pair:%r' % a,
                'replacement of %r is not one of the five XML special characters' % a)
        elif b not in ENTITIES[a]:
            bad('C20-D2-table', 'xml_escape::pair:%r' % a,
                '%r is replaced by %r, which is not an XML entity for it' % (a, b))
        seen.setdefault(a, []).append(b)
    for c in ENTITIES:
        if c not in seen:
            bad('C20-D2-table', 'xml_escape::missing:%r' % c,
                'special character %r is never escaped' % c)
    for c in WHITESPACE_REFS:
        if c not in seen:
            bad('C20-D5-whitespace', 'xml_escape::unescaped:%r' % c,
                '%r is XML-legal but is left as it is: in an attribute value the parser turns it '
                'into a space%s, so the text is not read back as the original; it has to be '
                'written as a numeric character reference (%s)'
                % (c, ' (and in content CR becomes LF)' if c == '\r' else '',
                   sorted(WHITESPACE_REFS[c])[0]))
    # D6: a shortcut (argument returned unchanged) is taken only when no character that the
    # full path rewrites occurs
    for a_set, o in ([] if chain_override is not None else SHORTCUTS):
        missing = sorted(set(k for k, _ in chain) - a_set)
        if missing:
            t = 'a%sb' % missing[0]
            bad('C20-D6-shortcut', 'xml_escape::shortcut',
                'xml_escape(%r) is returned unchanged: the shortcut tests only for %s, but the '
                'full path also rewrites %s (result there: %r)'
                % (t, ', '.join(repr(c) for c in sorted(a_set)) or 'nothing',
                   ', '.join(repr(c) for c in missing), dict(chain).get(missing[0], '')
                   and t.replace(missing[0], dict(chain)[missing[0]])))
    # D3: no later step rewrites the output of an earlier one
    for i, (a_i, b_i) in enumerate([] if simultaneous else chain):
        for a_j, b_j in chain[i + 1:]:
            if a_j and a_j in b_i:
                bad('C20-D3-order', 'xml_escape::order:%r-before-%r' % (a_i, a_j),
                    'replacement of %r runs after %r was produced by escaping %r: pre-escaped '
                    'output is rewritten (ampersand must be first)' % (a_j, b_i, a_i))
    return chain, found, loc


def hms_table(prog, ms):
    fn = prog.func('text_utils.format_hms')
    if fn.params[:2] != ['duration', 'milliseconds'] and len(fn.params) != 2:
        raise AnalysisError('format_hms signature changed')
    poly.INT_VARS.clear()
    d = Sym.var('duration')
    outs = Interp(prog).run(fn, [d, Const(ms)])
    return fn, outs


def region_by_intervals(cl):
    """The region selected by a set of bounds on d and on R = round(d), using R >= c => d >=
    c - 1/2 and d < c => R <= c: the same four regions reached by tests in another order (hours
    first, redundant bounds left out)."""
    from fractions import Fraction as Fr
    d_lo = max([c for k, n, c in cl if k == 'lo' and n == 'd'], default=None)
    d_hi = min([c for k, n, c in cl if k == 'hi' and n == 'd'], default=None)
    r_lo = max([c for k, n, c in cl if k == 'lo' and n == 'R'], default=None)
    r_hi = min([c for k, n, c in cl if k == 'hi' and n == 'R'], default=None)
    if d_hi is not None:
        return ['sub10'] if (d_hi == 10 and d_lo is None and r_lo is None and r_hi is None) else []
    at_least_10 = (d_lo == 10) or (d_lo is None and r_lo is not None and r_lo - Fr(1, 2) >= 10)
    if not at_least_10 or (d_lo is not None and d_lo != 10):
        return []
    if r_hi == 60 and (r_lo is None or r_lo <= 10):
        return ['ss']
    if r_lo == 60 and r_hi == 3600:
        return ['mss']
    if r_lo == 3600 and r_hi is None:
        return ['hmmss']
    return []


def integer_threshold(e, op, R):
    """Tests on the rounded duration R (an integer >= 0) or on a whole-unit field FLOOR(R/k),
    rewritten as R < bound / R >= bound: FLOOR(R/k) >= c <=> R >= c*k, FLOOR(R/k) != 0 <=> R >= k,
    R > c <=> R >= c + 1 ...  Anything else is returned unchanged."""
    inv = {'<': '>', '>': '<', '<=': '>=', '>=': '<=', '==': '==', '!=': '!='}
    floors = [a for a in e.atoms() if a[0] == 'f' and a[1] == 'FLOOR']
    if len(floors) == 1 and len(e.atoms()) == 1:
        F = Sym(poly.Poly.atom(floors[0]))
        k = R / floors[0][2][0]
        s_ = (e - e.subs_atoms({floors[0]: Sym.const(0)})) / F
        c0 = e.subs_atoms({floors[0]: Sym.const(0)})
        if k.is_const() and k.const_value() > 0 and s_.is_const() and c0.is_const() and \
                s_.const_value() in (1, -1):
            kk, c = k.const_value(), -c0.const_value() / s_.const_value()
            if s_.const_value() < 0:
                op = inv[op]
            if c.denominator == 1:
                # F op c
                if op == '>=':
                    return R - c * kk, '>='
                if op == '<':
                    return R - c * kk, '<'
                if op == '>':
                    return R - (c + 1) * kk, '>='
                if op == '<=':
                    return R - (c + 1) * kk, '<'
                if op == '!=' and c == 0:
                    return R - kk, '>='        # R >= 0: a non-zero field means at least one unit
                if op == '==' and c == 0:
                    return R - kk, '<'
    for sgn in (1, -1):
        d_ = e * sgn - R
        if d_.is_const() and d_.const_value().denominator == 1:
            o2 = op if sgn == 1 else inv[op]
            c = -d_.const_value()              # R - c  o2  0
            if o2 == '>':
                return R - (c + 1), '>='
            if o2 == '<=':
                return R - (c + 1), '<'
            if sgn == -1 and o2 in ('<', '>='):
                return R - c, o2
    return e, op


def cond_form(c, truth):
    """Normalise a path assumption to (expr, relation) with relation in '<', '>='."""
    if isinstance(c, NotC):
        return cond_form(c.c, not truth)
    if not isinstance(c, Cmp) or not isinstance(c.a, Sym):
        return None
    op = c.op
    if not truth:
        op = {'<': '>=', '>=': '<', '<=': '>', '>': '<=', '==': '!=', '!=': '=='}[op]
    return c.a, op


def _fmt(val, spec):
    """Format an exact rational the way the f-string spec would (specs used for time fields)."""
    from fractions import Fraction
    if spec in ('', 'd', '02', '02d', '2', '2d', '0>2'):
        if Fraction(val).denominator != 1:
            raise KeyError('non-integer in an integer field')
        n = int(val)
        if spec in ('', 'd'):
            return str(n)
        if spec in ('2', '2d'):
            return '%2d' % n
        return '%02d' % n
    if spec == '.3f':
        q = Fraction(val) * 1000
        fl = q.numerator // q.denominator
        rem = q - fl
        if rem > Fraction(1, 2) or (rem == Fraction(1, 2) and fl % 2 == 1):
            fl += 1
        sign = '-' if fl < 0 else ''
        fl = abs(fl)
        return '%s%d.%03d' % (sign, fl // 1000, fl % 1000)
    raise KeyError('format spec %r' % spec)


def hms_expected(d):
    """The property's text for a duration of d seconds (exact rational)."""
    if d < 10:
        return _fmt(d, '.3f') + ' Seconds'
    fl = d.numerator // d.denominator
    rem = d - fl
    r = fl + (1 if rem > Fraction(1, 2) or (rem == Fraction(1, 2) and fl % 2 == 1) else 0)
    if r < 60:
        return '%02d Seconds' % r
    if r < 3600:
        return '%d:%02d (Minutes, seconds)' % (r // 60, r % 60)
    return '%d:%02d:%02d (Hours, minutes, seconds)' % (r // 3600, (r // 60) % 60, r % 60)


def hms_witness(prog):
    from ..props import motion
    samples = [Fraction(x) for x in (
        '0', '0.0004', '1.2345', '5.231', '9.9994', '9.9996', '10', '10.4', '10.6', '11', '12.49',
        '59', '59.4', '59.5', '59.6', '60', '61', '61.5', '119.6', '599.7', '3599', '3599.4',
        '3599.5', '3599.6', '3600', '3601', '3661', '7199.7', '86399.5', '360000')]
    n = 0
    for ms in (False, True):
        fn, outs = hms_table(prog, ms)
        for d in samples:
            arg = d * 1000 if ms else d
            pt = {'duration': arg}
            want = hms_expected(d)
            for o in outs:
                try:
                    conds = []
                    for c, t in o.state.path:
                        nc = motion.norm_path_cond(c, t)
                        if nc is None:
                            raise KeyError('non-numeric condition')
                        conds.append(nc)
                    if not all(motion._holds(e.evaluate(pt), op) for e, op in conds):
                        continue
                    if o.kind != 'return':
                        return ('witness', arg, ms, 'raises %s' % o.value, want)
                    if not isinstance(o.value, Str):
                        raise KeyError('non-text result')
                    got = ''.join(p_ if isinstance(p_, str) else _fmt(p_.value.evaluate(pt), p_.spec)
                                  for p_ in o.value.parts)
                except (KeyError, ZeroDivisionError, TypeError, AttributeError):
                    return ('unevaluable', 0)
                n += 1
                if got != want:
                    return ('witness', arg, ms, got, want)
    return ('agree', n)


def check_hms(ck, prog):
    rows_by_mode = {}
    for ms in (False, True):
        fn, outs = hms_table(prog, ms)
        ck.saw('functions', '%s(milliseconds=%s) @ %s: %d paths' % (fn.qualname, ms, fn.loc(),
                                                                  len(outs)))
        d0 = Sym.var('duration')
        d = d0 / 1000 if ms else d0
        R = mk_func('ROUND', d)
        mode = 'ms' if ms else 's'
        if any(o.kind != 'return' for o in outs):
            ck.violation('C20-D4-hms', 'format_hms::raises', fn.loc(),
                         'a path of format_hms raises instead of returning text')
        rows = []
        for o in outs:
            if o.kind != 'return':
                continue
            conds = []
            for c, t in o.state.path:
                cf = cond_form(c, t)
                if cf is None:
                    raise AnalysisError('format_hms: unrecognised branch condition %r' % (c,))
                conds.append(cf)
            if not isinstance(o.value, Str):
                raise AnalysisError('format_hms: returned value is not a string template')
            rows.append((conds, o.value))
        rows_by_mode[mode] = rows

        def classify(conds):
            """Map path assumptions to one of the four regions; None if a threshold is tested on
            the wrong quantity."""
            lo, hi = {}, {}
            for e, op in conds:
                # a whole-unit field of a unit the path has already excluded is zero:
                # R < b established, k >= b  =>  FLOOR(R/k) = 0
                r_hi = min([c for (n_, c) in hi if n_ == 'R'], default=None)
                if r_hi is not None:
                    zero = {}
                    for a_ in e.atoms():
                        if a_[0] == 'f' and a_[1] == 'FLOOR':
                            k_ = R / a_[2][0]
                            if k_.is_const() and k_.const_value() >= r_hi:
                                zero[a_] = Sym.const(0)
                    if zero:
                        e = e.subs_atoms(zero)
                e, op = integer_threshold(e, op, R)
                # e is (X - c); identify X in {d, R}
                for name, X in (('d', d), ('R', R)):
                    diff = X - e
                    if diff.is_const():
                        c = diff.const_value()
                        if op == '<':
                            hi[(name, c)] = True
                        elif op == '>=':
                            lo[(name, c)] = True
                        else:
                            return 'bad-op:%s' % op
                        break
                else:
                    return 'bad-quantity:%r' % (e,)
            return frozenset(('lo',) + k for k in lo) | frozenset(('hi',) + k for k in hi)

        expect = {
            'sub10': frozenset({('hi', 'd', 10)}),
            'ss': frozenset({('lo', 'd', 10), ('hi', 'R', 60)}),
            'mss': frozenset({('lo', 'd', 10), ('lo', 'R', 60), ('hi', 'R', 3600)}),
            'hmmss': frozenset({('lo', 'd', 10), ('lo', 'R', 60), ('lo', 'R', 3600)}),
        }
        sec = R - 60 * mk_func('FLOOR', R / 60)
        mins_total = mk_func('FLOOR', R / 60)
        hours = mk_func('FLOOR', R / 3600)
        mins = mins_total - 60 * hours
        want_slots = {
            'sub10': [(d, ('.3f',))],
            'ss': [(R, ('02', '02d'))],
            'mss': [(mins_total, ('', 'd')), (sec, ('02', '02d'))],
            'hmmss': [(hours, ('', 'd')), (mins, ('02', '02d')), (sec, ('02', '02d'))],
        }
        got_regions = {}
        for conds, tmpl in rows:
            cl = classify(conds)
            if isinstance(cl, str):
                ck.violation('C20-D4-hms', 'format_hms::threshold[%s]' % mode, fn.loc(),
                             'a branch threshold is not a comparison of the (scaled) duration '
                             'or of the rounded duration with a constant: %s' % cl)
                continue
            region = [k for k, v in expect.items() if v == cl]
            if not region:
                region = region_by_intervals(cl)
            if not region:
                ck.violation('C20-D4-hms', 'format_hms::regions[%s]' % mode, fn.loc(),
                             'branch conditions %s do not select one of the regions d<10 | R<60 | '
                             'R<3600 | R>=3600 (R = round(duration)); thresholds 60 and 3600 must '
                             'be tested on the rounded value' % sorted(cl))
                continue
            got_regions[region[0]] = tmpl
        for region, slots in want_slots.items():
            inst = 'format_hms[%s]::%s' % (mode, region)
            tmpl = got_regions.get(region)
            if tmpl is None:
                ck.ob('C20-D4-hms', inst, False, 'no path returns the %s form' % region, fn.loc(),
                      key='format_hms::%s' % region)
                continue
            got = [p for p in tmpl.parts if isinstance(p, Slot)]
            seps = []
            seen_slot = False
            for p in tmpl.parts:
                if isinstance(p, Slot):
                    if seen_slot:
                        seps.append('')
                    seen_slot = True
                elif seen_slot and seps and seps[-1] == '':
                    seps[-1] = p
            ok = len(got) == len(slots)
            msg = ''
            if not ok:
                msg = 'expected %d numeric fields, found %d' % (len(slots), len(got))
            else:
                cap = {'ss': 60, 'mss': 3600}.get(region)

                def in_region(v):
                    # whole-unit fields of units this region excludes are zero (R < cap)
                    if cap is None or not isinstance(v, Sym):
                        return v
                    zero = {}
                    for a_ in v.atoms():
                        if a_[0] == 'f' and a_[1] == 'FLOOR':
                            k_ = R / a_[2][0]
                            if k_.is_const() and k_.const_value() >= cap:
                                zero[a_] = Sym.const(0)
                    return v.subs_atoms(zero) if zero else v
                for k, (g, (val, specs)) in enumerate(zip(got, slots)):
                    if not (isinstance(g.value, Sym) and in_region(g.value) == in_region(val)):
                        ok, msg = False, 'field %d is %r, expected %r' % (k + 1, g.value, val)
                        break
                    if g.spec not in specs:
                        ok, msg = False, 'field %d has format spec %r, expected one of %r' % (
                            k + 1, g.spec, specs)
                        break
                # separators between fields are ':' (text after the last field is free)
                inner = []
                idxs = [i for i, p in enumerate(tmpl.parts) if isinstance(p, Slot)]
                for i0, i1 in zip(idxs, idxs[1:]):
                    inner.append(''.join(p for p in tmpl.parts[i0 + 1:i1] if isinstance(p, str)))
                if ok and any(s != ':' for s in inner):
                    ok, msg = False, 'fields are separated by %r, expected ":"' % (inner,)
                if ok and idxs and idxs[0] != 0:
                    ok, msg = False, 'text precedes the first field'
            ck.ob('C20-D4-hms', inst, ok, msg, fn.loc(), key='format_hms::%s' % region)
            ck.sample({'mode': mode, 'region': region,
                       'template': [p if isinstance(p, str) else '{%r:%s}' % (p.value, p.spec)
                                    for p in tmpl.parts]})
    # ms mode must give the same text as seconds mode on d := d/1000 (suffix texts equal)
    def suffixes(rows):
        return sorted(''.join(p for p in t.parts if isinstance(p, str)) for _, t in rows)
    ck.ob('C20-D4-hms', 'format_hms::ms-equals-seconds',
          suffixes(rows_by_mode['s']) == suffixes(rows_by_mode['ms']) and
          len(rows_by_mode['s']) == len(rows_by_mode['ms']),
          'millisecond mode and seconds mode produce different literal text', '',
          key='format_hms::ms-equals-seconds')


def run(ck, prog, tier):
    ck.explanation = (
        'Static decision of the structural clauses of C20. xml_escape: the returned value is '
        'abstractly interpreted to a chain of str.replace links rooted at the parameter (D1); the '
        '(char, entity) pairs are compared with the XML 1.0 predefined-entity table (D2); no later '
        'link may match text produced by an earlier one (D3) - together with str.replace semantics '
        'this decides the escaping clause for all strings. format_hms: the function is abstractly '
        'interpreted in the rational-normal-form domain for milliseconds in {False, True}; the '
        'extracted decision table (region conditions on d and R=ROUND(d), field values as normal '
        'forms over FLOOR/ROUND atoms, format specs, separators) is compared with the '
        'specification table (D4). Not decided: round() tie-breaking and the float formatting of '
        ':.3f (library facts).')
    ck.assumptions += ['str.replace replaces every non-overlapping occurrence (library semantics)',
                       'round() returns a nearest integer; ties are either neighbour',
                       'format spec .3f prints to the millisecond']
    ck.trusted += ['python ast module', 'vf.interp abstract interpreter', 'XML 1.0 section 4.6 '
                   'entity table transcribed in vf/props/c20.py']
    purity.check(ck, prog, ['text_utils.xml_escape', 'text_utils.format_hms'], 'C20-R-pure')
    chain, found, loc = check_escape(ck, prog)
    ck.saw('escape_chain', chain)
    ck.sample({'escape_chain': chain})
    ck.floor('replace links', len(chain), 5)
    rules = {'C20-D1-chain': 'xml_escape::chain-root'}
    ck.ob('C20-D1-chain', 'xml_escape::chain-root', not any(f[0] == 'C20-D1-chain' for f in found),
          next((f[2] for f in found if f[0] == 'C20-D1-chain'), ''), loc)
    for c in ENTITIES:
        bad = [f for f in found if f[0] == 'C20-D2-table' and repr(c) in f[1]]
        ck.ob('C20-D2-table', 'xml_escape::entity:%r' % c, not bad,
              bad[0][2] if bad else '', loc, key=bad[0][1] if bad else None)
    for f in found:
        if f[0] == 'C20-D2-table' and not any(repr(c) in f[1] for c in ENTITIES):
            ck.ob('C20-D2-table', f[1], False, f[2], loc, key=f[1])
    for c in WHITESPACE_REFS:
        bad = [f for f in found if f[0] == 'C20-D5-whitespace' and repr(c) in f[1]]
        ck.ob('C20-D5-whitespace', 'xml_escape::whitespace:%r' % c, not bad,
              bad[0][2] if bad else '', loc, key=bad[0][1] if bad else None)
    bad = [f for f in found if f[0] == 'C20-D6-shortcut']
    ck.ob('C20-D6-shortcut', 'xml_escape::shortcut[%d unchanged-return path(s)]' % len(SHORTCUTS),
          not bad, bad[0][2] if bad else '', loc, key='xml_escape::shortcut')
    n_pairs = 0
    for i, (a_i, _) in enumerate(chain):
        for a_j, _ in chain[i + 1:]:
            n_pairs += 1
            key = 'xml_escape::order:%r-before-%r' % (a_i, a_j)
            bad = [f for f in found if f[1] == key]
            ck.ob('C20-D3-order', key, not bad, bad[0][2] if bad else '', loc)
    # canaries: the rules must fire on known-bad chains
    _, f1, _ = check_escape(ck, prog, [('<', '&lt;'), ('&', '&amp;'), ('>', '&gt;'),
                                       ('"', '&quot;'), ("'", '&apos;')])
    ck.canary('C20-D3 ampersand-not-first', any(f[0] == 'C20-D3-order' for f in f1))
    _, f2, _ = check_escape(ck, prog, [('&', '&amp;'), ('<', '&lt;'), ('>', '&gt;'),
                                       ('"', '&quote;'), ("'", '&apos;')])
    ck.canary('C20-D2 entity typo', any(f[0] == 'C20-D2-table' for f in f2))
    from ..report import Trial
    trial = Trial(ck)
    problem = None
    try:
        check_hms(trial, prog)
    except AnalysisError as exc:
        problem = str(exc)
    if problem is None and not trial.violations:
        trial.merge_into(ck)
    else:
        reason = problem or trial.violations[0]['message']
        res = hms_witness(prog)
        if res[0] == 'witness':
            ck.ob('C20-D4-hms', 'format_hms::witness', False,
                  'format_hms(%s, milliseconds=%s) gives %r; expected %r. [structural finding: %s]'
                  % (res[1], res[2], res[3], res[4], reason[:300]), prog.func(
                      'text_utils.format_hms').loc(),
                  key=trial.violations[0]['key'] if trial.violations else 'format_hms::witness')
        else:
            raise AnalysisError('format_hms: %s; but the extracted path table gives the expected '
                                'text on all %s sampled durations; cannot conclude'
                                % (reason[:400], res[1]))
    ck.floor('format_hms obligations', sum(1 for o in ck.obligations if o['rule'] == 'C20-D4-hms'), 9)
    ck.exhaustive = True
