"""C17 - reported peak T3 rate brackets the true peak within one jerk increment (max_rate_t3).

Lemma used (proved in DESIGN.md C17): R(k) = r0 + k a + j k(k-1)/2 is a parabola with vertex
k* = 1/2 - a/j.  Over integer ticks 1..T the largest |R| is at tick 1, tick T or the integer
nearest k*.  Evaluating at an integer within distance d of k* instead of the nearest loses at most
|j| (d^2 - dn^2)/2; not evaluating near the vertex at all is harmless when k* <= L and
(L < 1 or (L-1)^2 - dist(L,Z)^2 <= 2), or when k* >= T - U and U^2 - dist(U,Z)^2 <= 2: the loss
against the end tick is then at most |j|.
"""
from fractions import Fraction
import math

from ..poly import Sym, mk_func, Poly


def poly_atom(a):
    return Poly.atom(a)
from ..interp import Interp, Hooks, Cmp, NotC
from ..model import AnalysisError
from .. import purity
from . import motion
from .motion import V


def dist_to_int(x):
    return min(x - math.floor(x), math.ceil(x) - x)


class Facts:
    """Facts extracted from a path: bounds on time, jerk zero-ness, bounds on the vertex X."""

    def __init__(self, X, T):
        self.X, self.T = X, T
        self.time_lo, self.time_hi = None, None      # integer bounds on time
        self.jerk_zero = None
        self.x_gt = []      # X > L  (L Fraction)   strict or not recorded as (L, strict)
        self.x_le = []      # X <= L
        self.x_lt_T = []    # X < T - U  (U)
        self.x_ge_T = []    # X >= T - U
        self.other = []
        self.nonzero = []   # expressions known != 0

    def add(self, e, op):
        T, X = self.T, self.X
        at = e.all_atoms()
        # conditions on time only: E = s*(time - c)
        if at == {('v', 'time')} and e.is_poly():
            for s in (1, -1):
                d = e * s - T
                if d.is_const():
                    c = -d.const_value()      # s*e = time - c
                    o = op if s == 1 else {'<': '>', '<=': '>=', '>': '<', '>=': '<=',
                                           '==': '==', '!=': '!='}[op]
                    if o == '<':
                        self._hi(math.ceil(c) - 1)
                    elif o == '<=':
                        self._hi(math.floor(c))
                    elif o == '>':
                        self._lo(math.floor(c) + 1)
                    elif o == '>=':
                        self._lo(math.ceil(c))
                    elif o == '==':
                        self._lo(math.ceil(c))
                        self._hi(math.floor(c))
                    elif o == '!=' and c == 0:
                        self.nonzero.append(T)
                    return
        j = V('jerk')
        if e == j or e == -j:
            if op == '==':
                self.jerk_zero = True
            elif op == '!=':
                self.jerk_zero = False
                self.nonzero.append(j)
            else:
                self.other.append((e, op))
            return
        if X is not None:
            for s in (1, -1):
                d = e * s - X               # s*e = X + d
                if d.is_const():
                    c = -d.const_value()    # s*e = X - c   =>  (X - c) o 0
                    o = op if s == 1 else {'<': '>', '<=': '>=', '>': '<', '>=': '<='}.get(op, op)
                    if o in ('>', '>='):
                        self.x_gt.append((c, o == '>'))
                    elif o in ('<', '<='):
                        self.x_le.append((c, o == '<'))
                    else:
                        self.other.append((e, op))
                    return
                d = e * s - (X - T)         # s*e = X - T + u  => X o T - u
                if d.is_const():
                    u = d.const_value()
                    o = op if s == 1 else {'<': '>', '<=': '>=', '>': '<', '>=': '<='}.get(op, op)
                    if o in ('<', '<='):
                        self.x_lt_T.append((u, o == '<'))
                    elif o in ('>', '>='):
                        self.x_ge_T.append((u, o == '>'))
                    else:
                        self.other.append((e, op))
                    return
        if op == '!=':
            self.nonzero.append(e)
            return
        self.other.append((e, op))

    def _lo(self, v):
        self.time_lo = v if self.time_lo is None else max(self.time_lo, v)

    def _hi(self, v):
        self.time_hi = v if self.time_hi is None else min(self.time_hi, v)


def vertex():
    return Sym.const(Fraction(1, 2)) - V('accel') / V('jerk')


def canon_sym(v, X):
    """Roundings of c - X (c an integer) written as roundings of X: FLOOR(c - X) = c - CEIL(X),
    CEIL(c - X) = c - FLOOR(X), ROUND(c - X) is left alone (ties)."""
    if not isinstance(v, Sym):
        return v
    mapping = {}
    for a in v.all_atoms():
        if a[0] == 'f' and a[1] in ('FLOOR', 'CEIL') and len(a[2]) == 1:
            c = a[2][0] + X
            if c.is_const() and c.const_value().denominator == 1:
                other = 'CEIL' if a[1] == 'FLOOR' else 'FLOOR'
                mapping[a] = c - mk_func(other, X)
    return v.subs(mapping) if mapping else v


def canon_outcome(o, X):
    from ..interp import Outcome, Cmp as _Cmp
    st = o.state.copy()
    path = []
    for c, t in st.path:
        if isinstance(c, _Cmp) and isinstance(c.a, Sym) and isinstance(c.b, Sym):
            c = _Cmp(c.op, canon_sym(c.a, X), canon_sym(c.b, X))
        path.append((c, t))
    st.path = tuple(path)
    return Outcome(o.kind, canon_sym(o.value, X), st)


class TickHooks(Hooks):
    """Decides `tick == 0` inside the inlined rate helper from facts already on the path."""

    def decide(self, cond, st):
        if not (isinstance(cond, Cmp) and cond.op in ('==', '!=') and isinstance(cond.a, Sym)):
            return None
        f = Facts(vertex(), V('time'))
        for c, t in st.path:
            nc = motion.norm_path_cond(c, t)
            if nc is not None:
                f.add(*nc)
        e = canon_sym(cond.a, vertex())
        res = None
        if e == V('time') or e == -V('time'):
            # the property's domain is T >= 1 (a T3 move lasts at least one tick): the "time == 0"
            # convention of rate_t3 is never reached from a valid move
            res = False
        else:
            at = e.as_atom() or (-e).as_atom()
            if at is not None and at[0] == 'f' and at[1] in ('CEIL', 'FLOOR', 'ROUND') \
                    and at[2][0] == vertex():
                for L, strict in f.x_gt:
                    lo = {'CEIL': math.floor(L) + 1 if strict else math.ceil(L),
                          'FLOOR': math.floor(L),
                          'ROUND': math.floor(L + Fraction(1, 2))}[at[1]]
                    if lo >= 1:
                        res = False
        if res is None:
            return None
        return res if cond.op == '==' else not res


def run(ck, prog, tier):
    ck.explanation = (
        'max_rate_t3 (with rate_t3 inlined through the resolved call graph) is abstractly '
        'interpreted in the rational-normal-form domain; each return path yields the set of '
        'candidates inside max(...) and the path facts (bounds on time, jerk zero-ness, bounds on '
        'the vertex quotient). Decided: (D1) every candidate is ABS(rate at tick t) with t = 1, T '
        'or a rounding of t_mid that the path facts confine to [1, T]; (D2) ticks 1 and T are '
        'always among the candidates when T > 1; (D3) t_mid is 1/2 - accel/jerk as a rational '
        'normal form, computed only under jerk != 0, and whenever the vertex candidate is omitted '
        'the path facts satisfy the shortfall lemma (loss <= |jerk|); (D4) all candidates are the '
        'same closed form as C02-D2. Not decided: float rounding of the quotient t_mid at the '
        'guard boundary.')
    ck.assumptions += ['inputs are integers, T>=1', 'lemma on parabola extrema over integer ticks '
                       '(DESIGN.md C17)', 'float evaluation of t_mid does not cross a guard '
                       'boundary (measure-zero cases)']
    ck.trusted += ['python ast module', 'vf.poly normal forms', 'vf.interp']
    purity.check(ck, prog, ['ebb_calc.max_rate_t3'], 'C17-R-pure')
    fn = prog.func('ebb_calc.max_rate_t3')
    f_rate = prog.func('ebb_calc.rate_t3')
    n_def = len(fn.node.args.defaults)
    if fn.params[:4] != ['time', 'rate', 'accel', 'jerk'] or len(fn.params) - 4 > n_def or \
            fn.node.args.vararg or fn.node.args.kwarg:
        raise AnalysisError('max_rate_t3 signature changed')
    ck.saw('functions', [fn.qualname + ' @ ' + fn.loc(), f_rate.qualname + ' @ ' + f_rate.loc()])
    motion.declare_ints()
    T = V('time')
    X = vertex()
    outs = Interp(prog, TickHooks()).run(fn, [V(p) for p in fn.params[:4]])
    outs = [canon_outcome(o, X) for o in outs]
    ck.saw('paths', '%d return paths' % len(outs))
    from ..report import Trial
    trial = Trial(ck)
    problem = None
    try:
        symbolic(trial, prog, fn, outs, X, T)
    except AnalysisError as exc:
        problem = str(exc)
    if problem is None and not trial.violations:
        trial.merge_into(ck)
        return
    # the structural argument failed: a violation is reported only with a concrete move at which
    # the extracted path table contradicts the property
    reason = problem or trial.violations[0]['message']
    res = witness_search(fn, outs)
    if res[0] == 'witness':
        ck.ob(trial.violations[0]['rule'] if trial.violations else 'C17-D1-candidates',
              'max_rate_t3::witness', False,
              'max_rate_t3%s reports %s; the per-tick rates of the recurrence are %s (true peak %s, '
              'first %s, last %s, |jerk| %s): %s. [structural finding: %s]'
              % (res[1], res[2], res[3][:8], res[4], res[5], res[6], res[7], res[8], reason[:300]),
              fn.loc(), key=trial.violations[0]['key'] if trial.violations else 'max_rate_t3::witness')
        for v in trial.violations[1:]:
            pass
        return
    raise AnalysisError('max_rate_t3: %s; but the extracted path table satisfies the property on '
                        'all %s sampled moves; cannot conclude' % (reason[:400], res[1]))


def witness_search(fn, outs):
    """Evaluate the extracted (path conditions -> reported value) table on a grid of moves and
    compare with the recurrence: reported <= true peak, >= |first|, >= |last|, shortfall <= |jerk|."""
    names = ['time', 'rate', 'accel', 'jerk']
    n = 0

    def points():
        # moves whose rate parabola has its vertex at chosen positions relative to the move
        # (before tick 1, around the 1.5-tick windows at both ends, inside, beyond the end),
        # for small and large jerk of both signs, with rates that do / do not change sign
        from fractions import Fraction as F
        for T_ in (1, 2, 3, 4, 5, 6, 7, 9, 12):
            for j in (0, 1, -1, 2, -2, 1000, -1000):
                if j == 0:
                    accels = [0, 3, -3, 4000, -4001]
                else:
                    accels = set()
                    q = 4 if abs(j) >= 1000 else (2 if abs(j) == 2 else 1)
                    for m4 in range(-4 * 2, 4 * (T_ + 3)):
                        m = F(m4, 4)
                        a = F(j) * (F(1, 2) - m)
                        if a.denominator == 1:
                            accels.add(int(a))
                    accels = sorted(accels)
                for a in accels:
                    for r in (0, 2400, -2400, 7, -100001):
                        yield {'time': T_, 'rate': r, 'accel': a, 'jerk': j}
        for pt in motion.grid_points(names, limit=4000):
            yield pt
        # moves around and beyond the 2^31 - 1 rate limit: telling those apart is what the
        # report is for (a report that saturates hides them)
        for T_ in (1, 3, 6):
            for r in (2147483647, -2147483647, 2147480000, -2147480000, 3000000000, -3000000000):
                for a in (0, 5000, -5000):
                    for j in (0, 10, -10):
                        yield {'time': T_, 'rate': r, 'accel': a, 'jerk': j}
    for pt in points():
        T_ = pt['time']
        rates = [abs(motion.rate_t3_oracle(Sym.const(k)).evaluate(pt)) for k in range(1, T_ + 1)]
        # the oracle formula contains ROUND only in the library's version; the recurrence rates
        # are integers
        peak = max(rates)
        for o in outs:
            if o.kind != 'return' or not isinstance(o.value, Sym):
                continue
            try:
                conds = []
                for c, t in o.state.path:
                    nc = motion.norm_path_cond(c, t)
                    if nc is None:
                        raise KeyError('non-numeric condition')
                    conds.append(nc)
            except KeyError:
                continue
            try:
                active = True
                for e, op in conds:
                    if not motion._holds(e.evaluate(pt), op):
                        active = False
                        break
                if not active:
                    continue
                rep = o.value.evaluate(pt)
            except ZeroDivisionError:
                # every earlier test of the path holds at this move and the next quantity divides
                # by zero: the function raises here
                return ('witness', '(time=%d, rate=%d, accel=%d, jerk=%d)' % (
                    pt['time'], pt['rate'], pt['accel'], pt['jerk']), 'a ZeroDivisionError', rates,
                        peak, rates[0], rates[-1], abs(pt['jerk']),
                        'the function raises instead of reporting a rate')
            except (KeyError, TypeError):
                continue
            n += 1
            why = None
            if rep > peak:
                why = 'the report exceeds every rate of the move'
            elif rep < rates[0]:
                why = 'the report is below the rate at the first tick'
            elif rep < rates[-1]:
                why = 'the report is below the rate at the last tick'
            elif peak - rep > abs(pt['jerk']):
                why = 'the report falls short of the true peak by more than |jerk|'
            if why:
                return ('witness', '(time=%d, rate=%d, accel=%d, jerk=%d)' % (
                    pt['time'], pt['rate'], pt['accel'], pt['jerk']), rep, rates, peak, rates[0],
                        rates[-1], abs(pt['jerk']), why)
    return ('agree', n)


def symbolic(ck, prog, fn, outs, X, T):
    n_paths = 0
    for idx, o in enumerate(outs):
        if o.kind != 'return':
            ck.ob('C17-D3-vertex', 'max_rate_t3::no-raise', False,
                  'a path raises %s (division by zero when jerk == 0?)' % o.value, fn.loc(),
                  key='max_rate_t3::raises')
            continue
        n_paths += 1
        f = Facts(X, T)
        below = {}        # ABS atom -> set of ABS atoms the path proves it <= (selection tests)
        for c, t in o.state.path:
            nc = motion.norm_path_cond(c, t)
            if nc is None:
                raise AnalysisError('max_rate_t3: non-numeric branch condition %r' % (c,))
            e, op = nc
            abs_atoms = [a for a in e.atoms() if a[0] == 'f' and a[1] in ('ABS', 'MAX')]
            if len(abs_atoms) == 2 and op in ('<', '<=', '>', '>='):
                a1, a2 = abs_atoms
                if e == Sym(poly_atom(a1)) - Sym(poly_atom(a2)):
                    lo, hi = (a1, a2) if op in ('<', '<=') else (a2, a1)
                    below.setdefault(lo, set()).add(hi)
                    continue
                if e == Sym(poly_atom(a2)) - Sym(poly_atom(a1)):
                    lo, hi = (a2, a1) if op in ('<', '<=') else (a1, a2)
                    below.setdefault(lo, set()).add(hi)
                    continue
            f.add(*nc)
        pdesc = 'path#%d' % idx
        # divisions by a non-constant denominator need a non-zero fact
        for nt in o.state.notes:
            if nt[0] == 'div' and not nt[1].is_const():
                den = nt[1]
                ok = any(den == z or den == -z for z in f.nonzero)
                ck.ob('C17-D3-vertex', 'max_rate_t3::division-guarded[%s]' % pdesc, ok,
                      'division by %r at line %d is reachable without a test that it is non-zero'
                      % (den, nt[2]), fn.loc(), key='max_rate_t3::division-by-zero')
        val = o.value
        if not isinstance(val, Sym):
            ck.ob('C17-D1-candidates', 'max_rate_t3::returns-number[%s]' % pdesc, False,
                  'returns %r' % (val,), fn.loc(), key='max_rate_t3::return-shape')
            continue
        at = val.as_atom()
        cands = list(at[2]) if (at is not None and at[0] == 'f' and at[1] == 'MAX') else [val]
        ticks = []
        for cnd in cands:
            a = cnd.as_atom()
            inner = a[2][0] if (a is not None and a[0] == 'f' and a[1] == 'ABS') else None
            tick = None
            if inner is not None:
                body = motion.strip_int(inner)
                options = [('1', Sym.const(1)), ('T', T)]
                for b in body.all_atoms() | inner.all_atoms():
                    if b[0] == 'f' and b[1] in ('CEIL', 'FLOOR', 'ROUND') and any(
                            x[0] == 'v' and x[1] in ('accel', 'jerk') for x in b[2][0].all_atoms()):
                        options.append((b[1], Sym.func(b[1], *b[2])))
                for name, t in options:
                    if body == motion.rate_t3_oracle(t):
                        tick = (name, t)
                        break
            ck.ob('C17-D1-candidates', 'max_rate_t3::candidate-is-a-tick-rate[%s]' % pdesc,
                  tick is not None,
                  'a value inside the reported maximum, %r, is not |rate at tick t| of the '
                  'recurrence for t in {1, T, rounding(t_mid)}: the report may exceed the true '
                  'peak' % (cnd,), fn.loc(), key='max_rate_t3::candidate')
            if tick is not None:
                ticks.append(tick)
        # values the path proves <= the report (the function compared them and kept the larger)
        top = set()
        for cnd in cands:
            a = cnd.as_atom()
            if a is not None:
                top.add(a)
                if a[0] == 'f' and a[1] == 'MAX':
                    top.update(x.as_atom() for x in a[2] if x.as_atom() is not None)
        covered, changed = set(), True
        while changed:
            changed = False
            for lo, his in below.items():
                if lo not in covered and lo not in top and any(
                        h in top or h in covered for h in his):
                    covered.add(lo)
                    changed = True
        for a in covered:
            parts = [a] if a[1] == 'ABS' else [x.as_atom() for x in a[2] if x.as_atom() is not None]
            for pa in parts:
                if pa is None or pa[1] != 'ABS':
                    continue
                body = motion.strip_int(pa[2][0])
                options = [('1', Sym.const(1)), ('T', T)]
                for b in body.all_atoms() | pa[2][0].all_atoms():
                    if b[0] == 'f' and b[1] in ('CEIL', 'FLOOR', 'ROUND') and any(
                            x[0] == 'v' and x[1] in ('accel', 'jerk') for x in b[2][0].all_atoms()):
                        options.append((b[1], Sym.func(b[1], *b[2])))
                for name, t in options:
                    if body == motion.rate_t3_oracle(t):
                        ticks.append(('dominated:' + name, t))
                        break
        names = [t[0].split(':')[-1] for t in ticks]
        short = f.time_hi is not None and f.time_hi <= 1
        # D2 end points
        if short:
            ck.ob('C17-D2-endpoints', 'max_rate_t3::T<=1-returns-tick1[%s]' % pdesc,
                  '1' in names or 'T' in names,
                  'with T <= 1 the result does not include the rate at the only tick', fn.loc(),
                  key='max_rate_t3::endpoints')
        else:
            # the path admits some T >= 2: both end ticks are required
            ck.ob('C17-D2-endpoints', 'max_rate_t3::includes-tick-1[%s]' % pdesc, '1' in names,
                  'the reported maximum omits the rate at the first tick', fn.loc(),
                  key='max_rate_t3::endpoints')
            ck.ob('C17-D2-endpoints', 'max_rate_t3::includes-tick-T[%s]' % pdesc, 'T' in names,
                  'the reported maximum omits the rate at the last tick', fn.loc(),
                  key='max_rate_t3::endpoints')
        if f.other:
            ck.ob('C17-D3-vertex', 'max_rate_t3::recognised-branches[%s]' % pdesc, False,
                  'a branch tests %r, which is neither a bound on T, jerk == 0 nor a bound on the '
                  'vertex 1/2 - accel/jerk' % (f.other[0][0],), fn.loc(),
                  key='max_rate_t3::vertex-quantity')
            continue
        mids = [t for t in ticks if t[0].split(':')[-1] in ('CEIL', 'FLOOR', 'ROUND')]
        for name, t in [m for m in mids if not m[0].startswith('dominated:')]:
            arg = t.as_atom()[2][0]
            ck.ob('C17-D3-vertex', 'max_rate_t3::t_mid-is-vertex[%s]' % pdesc, arg == X,
                  'the interior tick is a rounding of %r; the vertex of the rate parabola is '
                  '1/2 - accel/jerk' % (arg,), fn.loc(), key='max_rate_t3::vertex-quantity')
            # interval rule: tick in [1, T]
            need_lo = {'CEIL': lambda L, s: (math.floor(L) + 1 if s else math.ceil(L)) >= 1,
                       'FLOOR': lambda L, s: math.floor(L) >= 1,
                       'ROUND': lambda L, s: L >= Fraction(1, 2)}[name]
            need_hi = {'CEIL': lambda U, s: U >= 0,
                       'FLOOR': lambda U, s: U >= 0,
                       'ROUND': lambda U, s: U >= Fraction(-1, 2)}[name]
            ok_lo = any(need_lo(L, s) for L, s in f.x_gt)
            ok_hi = any(need_hi(u, s) for u, s in f.x_lt_T)
            ck.ob('C17-D1-candidates', 'max_rate_t3::interior-tick>=1[%s]' % pdesc, ok_lo,
                  'the interior tick %s(t_mid) is not confined to >= 1 by the guard (facts: '
                  't_mid > %s)' % (name, [str(L) for L, _ in f.x_gt]), fn.loc(),
                  key='max_rate_t3::interior-range')
            ck.ob('C17-D1-candidates', 'max_rate_t3::interior-tick<=T[%s]' % pdesc, ok_hi,
                  'the interior tick %s(t_mid) is not confined to <= T by the guard (facts: '
                  't_mid < T - %s)' % (name, [str(u) for u, _ in f.x_lt_T]), fn.loc(),
                  key='max_rate_t3::interior-range')
        if not short and not mids and f.jerk_zero is not True:
            # vertex not considered: the shortfall lemma must apply
            ok = False
            why = []
            for L, s in f.x_le:
                loss = 0 if L < 1 else (L - 1) ** 2 - dist_to_int(L) ** 2
                why.append('t_mid<=%s loses %s*|j|/2' % (L, loss))
                if loss <= 2:
                    ok = True
            for u, s in f.x_ge_T:
                U = u
                loss = 0 if U < 0 else U ** 2 - dist_to_int(U) ** 2
                why.append('t_mid>=T-%s loses %s*|j|/2' % (U, loss))
                if loss <= 2:
                    ok = True
            ck.ob('C17-D3-vertex', 'max_rate_t3::vertex-omitted-safely[%s]' % pdesc, ok,
                  'on a path with jerk != 0 and T > 1 the interior extremum is not evaluated and '
                  'the path facts do not bound the shortfall by |jerk| (%s)'
                  % ('; '.join(why) or 'no bound on t_mid'), fn.loc(),
                  key='max_rate_t3::vertex-omitted')
        ck.sample({'path': pdesc, 'ticks': names, 'time': [f.time_lo, f.time_hi],
                   'jerk_zero': f.jerk_zero,
                   't_mid_facts': {'>': [str(x[0]) for x in f.x_gt], '<=': [str(x[0]) for x in f.x_le],
                                   '<T-': [str(x[0]) for x in f.x_lt_T],
                                   '>=T-': [str(x[0]) for x in f.x_ge_T]}})
    ck.floor('max_rate_t3 return paths', n_paths, 4)
    ck.exhaustive = True
