"""Engine for the function-style legacy layer (ebb_motion / ebb_serial helpers taking a port).

Helpers are interpreted (vf.interp; nothing runs) with the port an opaque object `LPORT` (or
None).  Calls to the transport primitives `ebb_serial.command` / `ebb_serial.query` are recorded as
'transport' effects carrying the abstract text (a string template) and are not inlined; calls to
`ebb_serial.min_version` fork into its three documented answers True / False / None and are
recorded as 'minver' effects carrying the threshold.  The primitives themselves are analysed by
C07, `min_version` by C15.
"""
from .interp import (Interp, Hooks, Opaque, Str, Slot, Tup, Const, Cmp, IsNone, Truthy, In, NotC,
                     State, Effect, Bound, FuncRef, ExtRef, NONE, TRUE, FALSE, type_of)
from .poly import Sym
from .model import AnalysisError

LPORT = Opaque('LPORT', (), 'obj')
TRANSPORT = {'ebb_serial.command': 'command', 'ebb_serial.query': 'query'}
PORT_IO = ('write', 'readline', 'read', 'flushInput', 'reset_input_buffer', 'close')


class LegacyHooks(Hooks):
    def __init__(self, minver_answers=(TRUE, FALSE, NONE), inline=()):
        self.minver_answers = minver_answers
        self.inline_quals = set(inline)
        self.k = 0

    def decide(self, cond, st):
        if isinstance(cond, IsNone) and cond.v == LPORT:
            return False
        if isinstance(cond, Truthy) and cond.v == LPORT:
            return True
        return None

    def call(self, interp, target, args, kwargs, st, node):
        if isinstance(target, FuncRef):
            q = target.qual
            if q in TRANSPORT and q not in self.inline_quals:
                port = args[0] if args else kwargs.get('port_name', NONE)
                text = args[1] if len(args) > 1 else kwargs.get('cmd', NONE)
                s2 = st.effect(Effect('transport', TRANSPORT[q], (port, text), node.lineno,
                                      interp.cur.qualname))
                if TRANSPORT[q] == 'command':
                    return [(NONE, s2)]
                if port == NONE or text == NONE:
                    return [(NONE, s2)]
                self.k += 1
                return [(Opaque('result:query#%d' % self.k, (), 'str'), s2)]
            if q == 'ebb_serial.min_version' and q not in self.inline_quals:
                port = args[0] if args else NONE
                ver = args[1] if len(args) > 1 else kwargs.get('version_string', NONE)
                s2 = st.effect(Effect('minver', 'min_version', (port, ver), node.lineno,
                                      interp.cur.qualname))
                if port == NONE:
                    return [(NONE, s2)]
                return [(a, s2) for a in self.minver_answers]
            if q == 'ebb_serial.queryVersion' and q not in self.inline_quals:
                port = args[0] if args else NONE
                s2 = st.effect(Effect('transport', 'query', (port, Str.lit('V\r')), node.lineno,
                                      interp.cur.qualname))
                return [(Opaque('result:version', (), 'str') if port != NONE else NONE, s2)]
        return None


def run_helper(prog, fn, port=LPORT, overrides=None, hooks=None, max_paths=20000):
    """Interpret module-level helper `fn`; first parameter is the port."""
    overrides = overrides or {}
    params = fn.params
    defaults = fn.defaults()
    kwargs = {}
    for i, p in enumerate(params):
        if p in overrides:
            kwargs[p] = overrides[p]
        elif i == 0 and p in ('port_name', 'port', 'serial_port'):
            kwargs[p] = port
        elif p in defaults:
            continue
        else:
            kwargs[p] = Sym.var(p)
    it = Interp(prog, hooks or LegacyHooks(), max_paths=max_paths)
    return it.run(fn, [], kwargs)


def transports(effects, sending_only=True):
    out = []
    for e in effects:
        if e.kind == 'transport':
            if sending_only and (e.args[0] == NONE or e.args[1] == NONE):
                continue
            out.append(e)
        elif e.kind == 'call' and isinstance(e.target, Bound) and e.target.obj == LPORT \
                and e.target.name == 'write':
            out.append(e)
    return out


# ====================================================================== the primitives themselves
SERIAL_EXC = 'serial.SerialException'


class PrimHooks(Hooks):
    """Interpretation of ebb_serial.query / ebb_serial.command themselves: the port is `LPORT`,
    every read yields a fresh bytes value reply#k, and (inject=True) every port call may raise
    serial.SerialException."""

    def __init__(self, inject=True):
        self.inject = inject

    def decide(self, cond, st):
        if isinstance(cond, IsNone) and cond.v == LPORT:
            return False
        if isinstance(cond, Truthy) and cond.v == LPORT:
            return True
        return None

    def may_raise(self, target, args, st, node):
        if self.inject and isinstance(target, Bound) and target.obj == LPORT and \
                target.name in PORT_IO:
            return (SERIAL_EXC,)
        return ()

    def call(self, interp, target, args, kwargs, st, node):
        if isinstance(target, Bound) and target.obj == LPORT and target.name in ('readline', 'read'):
            k = sum(1 for e in st.effects if is_lport_call(e, ('readline', 'read')))
            return [(Opaque('reply#%d' % k, (), 'bytes'),
                     st.effect(Effect('call', target, tuple(args), node.lineno,
                                      interp.cur.qualname)))]
        return None


def is_lport_call(e, names=PORT_IO):
    return e.kind == 'call' and isinstance(e.target, Bound) and e.target.obj == LPORT and \
        e.target.name in names
