"""Typestate engine for the EBB3 class layer (shared by C04, C05, C06, C15, C16).

The state the properties talk about is two fields of the connection object: `port` (open serial
object or None) and `err` (None or the first recorded message).  The engine interprets a method of
the *parsed* class (vf.interp, no repo code runs) from one of four abstract typestates

    OK        port open,  no error        ERR       port open,  error recorded
    DISC      not connected, no error     DISC_ERR  not connected, error recorded

with the serial object an opaque term `PORT`.  Every call on `PORT` (write, readline, ...) is an
effect of the path; with `inject=True` each of them may also raise `serial.SerialException` (a
fault at that point).  `self.err` / `self.port` are tracked as fields, so `record_error`, the
guards and `disconnect` are interpreted, not pattern-matched: a guard spelled differently, moved
into a helper, or missing, changes the *outcomes*, which is what the rules look at.

Calls from one method to the transport primitives (`command`, `query`, `query_statusbyte`) are
replaced by summaries that are themselves computed by interpreting the primitive from the caller's
current typestate (one summary per primitive x typestate, memoised): the set of
(return class, error recorded?, port still open?, bytes written?, exception escaping?).
"""
import ast
from dataclasses import dataclass

from .interp import (Interp, Hooks, Opaque, Str, Slot, Tup, Const, Cmp, IsNone, Truthy, In, NotC,
                     AndC, OrC, Pred, State, ObjRef, Effect, Bound, FuncRef, ExtRef, NONE, TRUE,
                     FALSE, fold_cond, COND_TYPES, Outcome, type_of)
from .poly import Sym
from .model import AnalysisError
from .loops import UnrollMixin

PORT = Opaque('PORT', (), 'obj')
ERR0 = Str.lit('<error recorded earlier>')
ERR_NEW = Str.lit('<error recorded by this call>')
VERSION = Opaque('VERSION', (), 'version')

PORT_IO = ('write', 'readline', 'read', 'reset_input_buffer', 'reset_output_buffer', 'close',
           'flush', 'flushInput', 'flushOutput', 'read_until', 'readlines', 'writelines',
           'send_break')
PORT_WRITES = ('write', 'writelines', 'send_break')
PRIMITIVES = ('command', 'query', 'query_statusbyte')
SERIAL_EXC = 'serial.SerialException'


class TS:
    def __init__(self, name, port_open, err_set):
        self.name, self.port_open, self.err_set = name, port_open, err_set

    def __repr__(self):
        return self.name

    @property
    def blocked(self):
        return (not self.port_open) or self.err_set


OK = TS('OK(connected, no error)', True, False)
ERR = TS('ERR(connected, error recorded)', True, True)
DISC = TS('DISC(not connected, no error)', False, False)
DISC_ERR = TS('DISC_ERR(not connected, error recorded)', False, True)
ALL_TS = (OK, ERR, DISC, DISC_ERR)
BLOCKED_TS = (ERR, DISC, DISC_ERR)


def ts_of_state(st):
    p = st.fields.get(('self', 'port'), NONE)
    e = st.fields.get(('self', 'err'), NONE)
    return (p != NONE), (e != NONE)


def initial_state(ts):
    st = State()
    st.fields[('self', 'port')] = PORT if ts.port_open else NONE
    st.fields[('self', 'err')] = ERR0 if ts.err_set else NONE
    st.fields[('self', 'version_parsed')] = VERSION if ts.port_open else NONE
    st.fields[('self', 'version')] = Opaque('VERSION_TEXT', (), 'str') if ts.port_open else NONE
    return st


def is_port_call(eff, names=PORT_IO):
    return eff.kind == 'call' and isinstance(eff.target, Bound) and eff.target.obj == PORT \
        and eff.target.name in names


def port_writes(effects):
    """Effects that put bytes on the wire: direct port writes and summarised primitive calls that
    were found to write."""
    out = []
    for e in effects:
        if is_port_call(e, PORT_WRITES):
            out.append(e)
        elif e.kind == 'summary' and e.args and e.args[0].get('wrote'):
            out.append(e)
    return out


def classify_ret(v):
    """Abstract class of a returned value."""
    if v is None:
        return 'raise'
    if v == NONE:
        return 'none'
    if isinstance(v, Const):
        return 'true' if v.v is True else ('false' if v.v is False else 'const')
    if isinstance(v, COND_TYPES):
        t = fold_cond(v)
        return 'true' if t is True else ('false' if t is False else 'bool')
    if isinstance(v, Tup):
        if v.items and all(x == NONE for x in v.items):
            return 'tuple-of-none'
        return 'tuple'
    if isinstance(v, Str):
        return 'str'
    if isinstance(v, Sym):
        return 'num'
    if isinstance(v, Opaque):
        return {'str': 'str', 'int': 'num', 'num': 'num', 'float': 'num', 'bool': 'bool',
                'bytes': 'bytes', 'list': 'list', 'tuple': 'tuple'}.get(v.ty, 'value')
    return 'value'


FAILURE_CLASSES = ('none', 'false', 'tuple-of-none')


@dataclass(frozen=True)
class SumInfo:
    """Hashable record of a summary outcome carried by a 'summary' effect."""
    ret: str
    err_set: bool
    port_open: bool
    wrote: bool
    raised: object = None

    def get(self, name, default=None):
        return getattr(self, name, default)

    def __repr__(self):
        return '{returns %s%s%s%s}' % (self.ret, ', records an error' if self.err_set else '',
                                       ', transmits' if self.wrote else '',
                                       ', raises %s' % self.raised if self.raised else '')


class Summary:
    """One abstract outcome of a primitive from a given typestate."""
    __slots__ = ('ret', 'err_set', 'port_open', 'wrote', 'raised', 'n_io', 'example')

    def __init__(self, ret, err_set, port_open, wrote, raised, n_io, example=None):
        self.ret, self.err_set, self.port_open = ret, err_set, port_open
        self.wrote, self.raised, self.n_io, self.example = wrote, raised, n_io, example

    def key(self):
        return (self.ret, self.err_set, self.port_open, self.wrote, self.raised)

    def as_dict(self):
        return SumInfo(self.ret, self.err_set, self.port_open, self.wrote, self.raised)


class Engine:
    """Owns the program, the dynamic class and the summary cache."""

    def __init__(self, prog, cls, inject=True, summarised=PRIMITIVES, max_paths=60000):
        self.prog = prog
        self.cls = cls
        self.inject = inject
        self.summarised = tuple(summarised)
        self.max_paths = max_paths
        self._sum = {}
        self.stats = {'methods_run': 0, 'paths': 0, 'summaries': 0}

    # ------------------------------------------------------------------ running
    def method(self, name):
        m = self.cls.lookup(name)
        if m is None:
            raise AnalysisError('anchor method %s.%s vanished' % (self.cls.name, name))
        return m

    def default_args(self, fn, overrides=None):
        """Abstract arguments: one opaque value per parameter (string-typed for the request text of
        the primitives, symbolic numbers elsewhere); parameters with a default keep it unless
        overridden."""
        overrides = overrides or {}
        params = fn.params[1:] if fn.params and fn.params[0] in ('self', 'cls') else fn.params
        defaults = fn.defaults()
        args, kwargs = [], {}
        for p in params:
            if p in overrides:
                kwargs[p] = overrides[p]
            elif p in defaults:
                continue
            else:
                kwargs[p] = Sym.var(p)
        return args, kwargs

    def run(self, name, ts, overrides=None, inject=None, summarised=None, hooks=None, st=None):
        fn = self.method(name) if isinstance(name, str) else name
        hk = hooks or EBB3Hooks(self, inject=self.inject if inject is None else inject,
                                summarised=self.summarised if summarised is None else summarised,
                                exclude=fn.name)
        it = Interp(self.prog, hk, max_paths=self.max_paths)
        it.self_cls = self.cls
        args, kwargs = self.default_args(fn, overrides)
        st = st or initial_state(ts)
        outs = it.run(fn, args, kwargs, st=st, self_obj=ObjRef('self', self.cls))
        self.stats['methods_run'] += 1
        self.stats['paths'] += len(outs)
        return outs

    # ------------------------------------------------------------------ summaries
    def summary(self, name, ts_key):
        """Distinct abstract outcomes of primitive `name` entered with (port_open, err_set)."""
        key = (name, ts_key)
        if key in self._sum:
            return self._sum[key]
        self._sum[key] = None   # recursion guard
        ts = [t for t in ALL_TS if (t.port_open, t.err_set) == ts_key][0]
        fn = self.method(name)
        over = {}
        params = fn.params[1:]
        if params:
            over[params[0]] = Opaque('param:' + params[0], (), 'str')
        outs = self.run(name, ts, overrides=over, summarised=tuple(
            s for s in self.summarised if s != name))
        seen = {}
        for o in outs:
            s = summarise_outcome(o)
            seen.setdefault(s.key(), s)
        res = list(seen.values())
        self._sum[key] = res
        self.stats['summaries'] += 1
        return res


def summarise_outcome(o):
    st = o.state
    port_open, err_set = ts_of_state(st)
    wrote = bool(port_writes(st.effects))
    n_io = sum(1 for e in st.effects if is_port_call(e))
    if o.kind == 'raise':
        return Summary('raise', err_set, port_open, wrote, str(o.value), n_io)
    return Summary(classify_ret(o.value), err_set, port_open, wrote, None, n_io, o.value)


class EBB3Hooks(UnrollMixin, Hooks):
    """Loops whose test is decided by the abstract state (bounded handshake attempts, counted
    loops) are unrolled exactly; all others are summarised by havoc."""
    unroll = True
    fork_undecided = True

    def loop(self, interp, node, st):
        self._forked = False
        return self.unroll_loop(interp, node, st)

    def __init__(self, engine, inject=True, summarised=PRIMITIVES, exclude=None):
        self.engine = engine
        self.inject = inject
        self.summarised = tuple(s for s in summarised if s != exclude)
        self.counter = 0

    # ---- conditions on the abstract objects
    def decide(self, cond, st):
        if isinstance(cond, IsNone):
            v = cond.v
            if v == PORT or (isinstance(v, Opaque) and v.ty == 'obj'):
                return False
            if v == VERSION:
                return False
        if isinstance(cond, Truthy):
            v = cond.v
            if v == PORT:
                return True
        # a reply already known to be empty on this path neither starts with a request name
        # (request names have at least one character) nor contains an error marker
        if isinstance(cond, Pred) and cond.name == 'startswith' and len(cond.args) == 2 and (
                self.known_empty(cond.args[0], st) or (
                    isinstance(cond.args[0], Str) and cond.args[0].is_lit()
                    and cond.args[0].text() == '')) and not (
                        isinstance(cond.args[1], Str) and cond.args[1].is_lit()
                        and cond.args[1].text() == ''):
            return False
        if isinstance(cond, In) and isinstance(cond.item, Str) and cond.item.is_lit() and \
                cond.item.text() and self.known_empty(cond.container, st):
            return False
        return None

    @staticmethod
    def known_empty(v, st):
        from .loops import is_empty_test
        for c, t in st.path:
            try:
                if t and is_empty_test(c, v):
                    return True
                if not t and isinstance(c, Truthy) and c.v == v:
                    return True
                if not t:
                    from .interp import neg
                    if is_empty_test(neg(c), v):
                        return True
            except Exception:
                continue
        return False

    decode_faults = False     # replies of an unverified device may be any bytes (C15)
    os_faults = False         # class-wide switch: port calls may also raise a plain OSError (C05)

    def may_raise(self, target, args, st, node):
        if self.decode_faults and isinstance(target, Bound) and target.name == 'decode' and \
                isinstance(target.obj, Opaque) and target.obj.label.startswith('reply#'):
            return ('UnicodeDecodeError',)
        if self.decode_faults and isinstance(target, ExtRef) and \
                target.dotted in ('packaging.version.parse', 'packaging.version.Version') and \
                args and not (isinstance(args[0], Str) and args[0].is_lit()):
            # text taken from the reply of an unverified device need not be a version number
            # ("EBB Firmware Version abc"): packaging raises InvalidVersion (a ValueError)
            return ('packaging.version.InvalidVersion',)
        if not self.inject:
            return ()
        if isinstance(target, Bound) and target.obj == PORT and target.name in PORT_IO:
            # pyserial wraps most operating-system errors, not all of them: a plain OSError out
            # of a port call is a serial I/O fault too (the primitives treat it as one)
            return (SERIAL_EXC, 'OSError') if EBB3Hooks.os_faults else (SERIAL_EXC,)
        if isinstance(target, ExtRef) and target.dotted in ('serial.Serial', 'serial.serial_for_url'):
            return (SERIAL_EXC,)
        return ()

    def call(self, interp, target, args, kwargs, st, node):
        # reads from the port produce a fresh value each time
        if isinstance(target, Bound) and target.obj == PORT and target.name in ('readline', 'read',
                                                                                'read_until'):
            k = sum(1 for e in st.effects if is_port_call(e, ('readline', 'read', 'read_until')))
            val = Opaque('reply#%d' % k, (), 'bytes')
            return [(val, st.effect(Effect('call', target, tuple(args), node.lineno,
                                           interp.cur.qualname)))]
        if isinstance(target, ExtRef) and target.dotted == 'serial.Serial':
            return [(PORT, st.effect(Effect('call', target, tuple(args), node.lineno,
                                            interp.cur.qualname)))]
        # summarised primitives
        name = None
        if isinstance(target, Bound) and isinstance(target.obj, ObjRef) and \
                target.name in self.summarised:
            name = target.name
        elif isinstance(target, FuncRef) and target.fn.cls is not None and \
                target.fn.name in self.summarised and args and isinstance(args[0], ObjRef):
            name, args = target.fn.name, args[1:]
        if name is None:
            return None
        fn = self.engine.method(name)
        if fn in interp.stack:
            return None
        sums = self.engine.summary(name, ts_of_state(st))
        if sums is None:
            raise AnalysisError('recursive primitive %s' % name)
        res = []
        self.counter += 1
        for s in sums:
            s2 = st.copy()
            had_err = s2.fields.get(('self', 'err'), NONE) != NONE
            if s.err_set and not had_err:
                s2.fields[('self', 'err')] = ERR_NEW
            elif not s.err_set and had_err:
                s2.fields[('self', 'err')] = NONE     # a primitive that clears the error
            if not s.port_open:
                s2.fields[('self', 'port')] = NONE
            s2 = s2.effect(Effect('summary', name, (s.as_dict(),) + tuple(args), node.lineno,
                                  interp.cur.qualname))
            if s.raised:
                res.append((None, s2.raising(s.raised)))
                continue
            res.append((ret_value(s, name, self.counter), s2))
        return res


def ret_value(s, name, k):
    r = s.ret
    if r == 'none':
        return NONE
    if r == 'true':
        return TRUE
    if r == 'false':
        return FALSE
    if r == 'str':
        return Opaque('result:%s#%d' % (name, k), (), 'str')
    if r == 'num':
        return Opaque('result:%s#%d' % (name, k), (), 'int')
    if r == 'tuple-of-none':
        return s.example
    return Opaque('result:%s#%d' % (name, k), (), 'unknown')


# ---------------------------------------------------------------------- class inventory
def public_methods(cls):
    """name -> FuncInfo for every method reachable through the MRO (most-derived wins)."""
    out = {}
    for c in reversed(cls.mro()):
        for n, f in c.methods.items():
            out[n] = f
    return out


def most_derived(prog, base_qual='ebb3_serial.EBB3'):
    base = prog.cls(base_qual)
    subs = prog.subclasses(base)
    # the layer is EBB3 plus the wrapper that extends it; analyse the most derived class (its MRO
    # contains every method of both)
    subs.sort(key=lambda c: len(c.mro()))
    return base, subs[-1], subs


def describe_effect(e):
    if e.kind == 'summary':
        return '%s(...) -> %s' % (e.target, e.args[0])
    if e.kind == 'call' and isinstance(e.target, Bound):
        return 'port.%s' % e.target.name
    return e.kind
