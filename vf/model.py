"""M1 - program model: parse every plotink/*.py of the repo under analysis, build module / class /
function tables, import aliases, callee resolution through the class hierarchy, and a call graph.
Nothing is imported or executed; the model is built from `ast.parse` of the current working tree."""
import ast
import os
import hashlib


class AnalysisError(Exception):
    """The analyser cannot conclude (unsupported construct, vanished anchor, floor not reached).
    Mapped to exit status 2 / ANALYSIS-ERROR, never to a violation."""


class FuncInfo:
    def __init__(self, module, cls, node):
        self.module = module          # ModuleInfo
        self.cls = cls                # ClassInfo or None
        self.node = node              # ast.FunctionDef
        self.name = node.name
        self.qualname = (module.name + '.' + (cls.name + '.' if cls else '') + node.name)

    @property
    def params(self):
        a = self.node.args
        return [x.arg for x in a.posonlyargs + a.args]

    def rebinds(self, name):
        """True if the function body binds `name` anew (assignment, loop target, with-as, ...)."""
        import ast as _ast
        return any(isinstance(n, _ast.Name) and n.id == name and
                   isinstance(n.ctx, (_ast.Store, _ast.Del)) for n in _ast.walk(self.node))

    def defaults(self):
        """param name -> default expr node"""
        a = self.node.args
        pos = a.posonlyargs + a.args
        out = {}
        for p, d in zip(pos[len(pos) - len(a.defaults):], a.defaults):
            out[p.arg] = d
        for p, d in zip(a.kwonlyargs, a.kw_defaults):
            if d is not None:
                out[p.arg] = d
        return out

    def body(self):
        """Body without the leading docstring."""
        b = self.node.body
        if b and isinstance(b[0], ast.Expr) and isinstance(b[0].value, ast.Constant) \
                and isinstance(b[0].value.value, str):
            return b[1:]
        return b

    def loc(self, node=None):
        n = node if node is not None else self.node
        return '%s:%d' % (self.module.relpath, getattr(n, 'lineno', 0))

    def __repr__(self):
        return '<Func %s>' % self.qualname


class ClassInfo:
    def __init__(self, module, node):
        self.module = module
        self.node = node
        self.name = node.name
        self.methods = {}
        self.class_attrs = {}     # name -> value expr node
        self.base_exprs = node.bases
        self.bases = []           # resolved ClassInfo list
        self.ann_fields = []      # [(name, default expr or None)] in order (NamedTuple / dataclass)
        self.member_order = []    # plainly assigned class attributes in order (Enum members)

    @property
    def kind(self):
        """'namedtuple' | 'dataclass' | 'enum' | 'intenum' | 'plain' (from bases / decorators)."""
        for c in self.mro():
            bases = [ast.unparse(b).split('.')[-1] for b in c.base_exprs]
            if 'NamedTuple' in bases:
                return 'namedtuple'
            if any(b in ('IntEnum', 'IntFlag') for b in bases):
                return 'intenum'
            if any(b in ('Enum', 'Flag', 'StrEnum') for b in bases):
                return 'enum'
            for d in c.node.decorator_list:
                t = ast.unparse(d.func if isinstance(d, ast.Call) else d).split('.')[-1]
                if t == 'dataclass':
                    return 'dataclass'
        return 'plain'

    def all_fields(self):
        """Annotated fields of the class family, base classes first."""
        out, seen = [], set()
        for c in reversed(self.mro()):
            for n, d in c.ann_fields:
                if n in seen:
                    out = [(m, e) if m != n else (n, d) for m, e in out]
                else:
                    seen.add(n)
                    out.append((n, d))
        return out

    def mro(self):
        out = [self]
        for b in self.bases:
            for c in b.mro():
                if c not in out:
                    out.append(c)
        return out

    def lookup(self, name):
        for c in self.mro():
            if name in c.methods:
                return c.methods[name]
        return None

    def lookup_attr(self, name):
        for c in self.mro():
            if name in c.class_attrs:
                return c.class_attrs[name], c
        return None, None


class ModuleInfo:
    def __init__(self, name, path, relpath, source):
        self.name = name              # e.g. 'ebb_calc'
        self.path = path
        self.relpath = relpath        # e.g. 'plotink/ebb_calc.py'
        self.source = source
        self.tree = ast.parse(source, filename=path)
        self.functions = {}
        self.classes = {}
        self.globals = {}             # name -> value expr node (module-level simple assignments)
        self.imports = {}             # local alias -> dotted target ('pkg:ebb_serial', 'ext:math', ...)
        for node in self.tree.body:
            if isinstance(node, ast.FunctionDef):
                self.functions[node.name] = FuncInfo(self, None, node)
            elif isinstance(node, ast.ClassDef):
                ci = ClassInfo(self, node)
                for sub in node.body:
                    if isinstance(sub, ast.FunctionDef):
                        ci.methods[sub.name] = FuncInfo(self, ci, sub)
                    elif isinstance(sub, ast.Assign) and len(sub.targets) == 1 \
                            and isinstance(sub.targets[0], ast.Name):
                        ci.class_attrs[sub.targets[0].id] = sub.value
                        ci.member_order.append(sub.targets[0].id)
                    elif isinstance(sub, ast.AnnAssign) and isinstance(sub.target, ast.Name):
                        ci.ann_fields.append((sub.target.id, sub.value))
                        if sub.value is not None:
                            ci.class_attrs[sub.target.id] = sub.value
                self.classes[node.name] = ci
            elif isinstance(node, ast.Assign) and len(node.targets) == 1 \
                    and isinstance(node.targets[0], ast.Name):
                self.globals[node.targets[0].id] = node.value
            elif isinstance(node, ast.AnnAssign) and isinstance(node.target, ast.Name) \
                    and node.value is not None:
                self.globals[node.target.id] = node.value
            elif isinstance(node, ast.Import):
                for al in node.names:
                    self.imports[al.asname or al.name.split('.')[0]] = 'ext:' + al.name
            elif isinstance(node, ast.ImportFrom):
                for al in node.names:
                    local = al.asname or al.name
                    if node.level >= 1 and not node.module:
                        self.imports[local] = 'pkg:' + al.name
                    elif node.level >= 1:
                        self.imports[local] = 'pkgattr:%s:%s' % (node.module, al.name)
                    else:
                        self.imports[local] = 'ext:%s.%s' % (node.module, al.name)
        # `x = from_dependency_import('a.b')` is the package's import idiom
        for gname, val in list(self.globals.items()):
            if isinstance(val, ast.Call) and isinstance(val.func, ast.Name) \
                    and val.func.id == 'from_dependency_import' and val.args \
                    and isinstance(val.args[0], ast.Constant):
                self.imports[gname] = 'ext:' + val.args[0].value
                del self.globals[gname]


class Program:
    PACKAGE = 'plotink'

    def __init__(self, repo):
        self.repo = os.path.abspath(repo)
        pkg = os.path.join(self.repo, self.PACKAGE)
        if not os.path.isdir(pkg):
            raise AnalysisError('package directory %s not found' % pkg)
        self.modules = {}
        h = hashlib.sha256()
        for fn in sorted(os.listdir(pkg)):
            if not fn.endswith('.py'):
                continue
            path = os.path.join(pkg, fn)
            with open(path, encoding='utf-8') as fh:
                src = fh.read()
            h.update(fn.encode() + b'\0' + src.encode() + b'\0')
            name = fn[:-3]
            try:
                self.modules[name] = ModuleInfo(name, path, self.PACKAGE + '/' + fn, src)
            except SyntaxError as exc:
                raise AnalysisError('cannot parse %s: %s' % (path, exc))
        self.digest = h.hexdigest()
        # resolve class bases
        for m in self.modules.values():
            for c in m.classes.values():
                for b in c.base_exprs:
                    r = self.resolve_class_expr(m, b)
                    if r is not None:
                        c.bases.append(r)

    # ---------------------------------------------------------------- lookup helpers
    def module(self, name):
        if name not in self.modules:
            raise AnalysisError('anchor module %s.py vanished' % name)
        return self.modules[name]

    def func(self, qual):
        """'ebb_calc.move_dist_lt' or 'ebb3_serial.EBB3.query' -> FuncInfo (AnalysisError if gone)."""
        parts = qual.split('.')
        m = self.module(parts[0])
        if len(parts) == 2:
            f = m.functions.get(parts[1])
        else:
            c = m.classes.get(parts[1])
            f = c.lookup(parts[2]) if c else None
        if f is None:
            raise AnalysisError('anchor function %s vanished' % qual)
        return f

    def cls(self, qual):
        parts = qual.split('.')
        m = self.module(parts[0])
        c = m.classes.get(parts[1])
        if c is None:
            raise AnalysisError('anchor class %s vanished' % qual)
        return c

    def resolve_class_expr(self, module, expr):
        if isinstance(expr, ast.Name):
            return module.classes.get(expr.id)
        if isinstance(expr, ast.Attribute) and isinstance(expr.value, ast.Name):
            tgt = module.imports.get(expr.value.id, '')
            if tgt.startswith('pkg:'):
                m = self.modules.get(tgt[4:])
                if m:
                    return m.classes.get(expr.attr)
        return None

    def all_functions(self):
        for m in self.modules.values():
            for f in m.functions.values():
                yield f
            for c in m.classes.values():
                for f in c.methods.values():
                    yield f

    def subclasses(self, cls):
        out = []
        for m in self.modules.values():
            for c in m.classes.values():
                if cls in c.mro():
                    out.append(c)
        return out

    # ---------------------------------------------------------------- callee resolution
    def resolve_call(self, fn, call, self_cls=None):
        """Resolve the callee of ast.Call `call` occurring in FuncInfo `fn`.
        Returns ('func', FuncInfo) | ('ext', dotted) | ('method', name) | ('unknown', text).
        `self_cls` is the dynamic class used for self.m() resolution (defaults to fn.cls)."""
        f = call.func
        mod = fn.module
        if isinstance(f, ast.Name):
            if f.id in mod.functions:
                return ('func', mod.functions[f.id])
            if f.id in mod.classes:
                return ('class', mod.classes[f.id])
            tgt = mod.imports.get(f.id)
            if tgt:
                if tgt.startswith('pkgattr:'):
                    _, m, a = tgt.split(':')
                    mm = self.modules.get(m)
                    if mm and a in mm.functions:
                        return ('func', mm.functions[a])
                return ('ext', tgt.split(':', 1)[1])
            return ('builtin', f.id)
        if isinstance(f, ast.Attribute):
            v = f.value
            if isinstance(v, ast.Name):
                if v.id == 'self' and (self_cls or fn.cls):
                    c = self_cls or fn.cls
                    m = c.lookup(f.attr)
                    if m:
                        return ('func', m)
                    return ('method', 'self.' + f.attr)
                tgt = mod.imports.get(v.id)
                if tgt:
                    if tgt.startswith('pkg:'):
                        mm = self.modules.get(tgt[4:])
                        if mm and f.attr in mm.functions:
                            return ('func', mm.functions[f.attr])
                        if mm and f.attr in mm.classes:
                            return ('class', mm.classes[f.attr])
                        return ('unknown', tgt + '.' + f.attr)
                    return ('ext', tgt.split(':', 1)[1] + '.' + f.attr)
            # Class.method(self, ...) explicit base call
            if isinstance(v, ast.Attribute) and isinstance(v.value, ast.Name):
                tgt = mod.imports.get(v.value.id, '')
                if tgt.startswith('pkg:'):
                    mm = self.modules.get(tgt[4:])
                    if mm and v.attr in mm.classes:
                        m = mm.classes[v.attr].lookup(f.attr)
                        if m:
                            return ('func', m)
                if tgt.startswith('ext:'):
                    return ('ext', tgt[4:] + '.' + v.attr + '.' + f.attr)
            return ('method', f.attr)
        return ('unknown', ast.dump(f)[:60])

    def call_graph(self, self_cls_of=None):
        """qualname -> set of qualnames of package functions called (self.m resolved via fn.cls or,
        when `self_cls_of` maps a class to the dynamic class, through that class)."""
        g = {}
        for fn in self.all_functions():
            callees = set()
            for node in ast.walk(fn.node):
                if isinstance(node, ast.Call):
                    kind, tgt = self.resolve_call(fn, node)
                    if kind == 'func':
                        callees.add(tgt.qualname)
                    elif kind == 'class':
                        init = tgt.lookup('__init__')
                        if init:
                            callees.add(init.qualname)
                    elif isinstance(node.func, ast.Attribute):
                        # a method call on some object: any method of that name defined by a
                        # class of the same module may be the callee (value classes)
                        for c in fn.module.classes.values():
                            m = c.methods.get(node.func.attr)
                            if m is not None:
                                callees.add(m.qualname)
                elif isinstance(node, ast.Attribute) and isinstance(node.ctx, ast.Load):
                    for c in fn.module.classes.values():
                        m = c.methods.get(node.attr)
                        if m is not None and any(
                                ast.unparse(d).split('.')[-1] in ('property', 'cached_property')
                                for d in m.node.decorator_list):
                            callees.add(m.qualname)
            g[fn.qualname] = callees
        return g


def norm_src(node):
    """Normalised statement text used to key findings (never line numbers)."""
    try:
        return ast.unparse(node)
    except Exception:  # pragma: no cover
        return ast.dump(node)
