"""M5 - obligations, violations, evidence, known findings, exit policy.

exit 0: every obligation discharged (listed known findings are printed, not failed)
exit 1: at least one unlisted violation, each printed as `VIOLATION property=<id> replay=<path>`
exit 2: ANALYSIS-ERROR - the analyser cannot conclude (never reported as a violation)
"""
import json
import os
import time

from .model import AnalysisError

VERIF = os.path.dirname(os.path.dirname(os.path.abspath(__file__)))


def jsonable(x, depth=0):
    from .poly import Sym
    if depth > 6:
        return str(x)
    if isinstance(x, (str, int, float, bool)) or x is None:
        return x
    if isinstance(x, Sym):
        return repr(x)
    if isinstance(x, dict):
        return {str(k): jsonable(v, depth + 1) for k, v in x.items()}
    if isinstance(x, (list, tuple, set, frozenset)):
        return [jsonable(v, depth + 1) for v in x]
    return str(x)


class Check:
    def __init__(self, pid, tier, repo, out_dir=None, quiet=False):
        self.pid = pid
        self.tier = tier
        self.repo = repo
        self.t0 = time.time()
        self.obligations = []       # dict(rule, instance, ok, detail, loc)
        self.violations = []        # dict(rule, key, loc, message, detail)
        self.analysed = {}          # kind -> list
        self.samples = []
        self.assumptions = []
        self.trusted = []
        self.explanation = ''
        self.exhaustive = None
        self.extra = {}
        self.canaries = []          # (name, fired)
        self.out_dir = out_dir or os.path.join(VERIF, 'evidence')
        self.quiet = quiet
        self.log_lines = []
        self.floor_failures = []
        self.structural_rules = set()   # rules decided on the source itself, not on abstract values

    # ------------------------------------------------------------ recording
    def log(self, msg):
        self.log_lines.append(msg)
        if not self.quiet:
            print(msg)

    def saw(self, kind, item):
        j = jsonable(item)
        lst = self.analysed.setdefault(kind, [])
        if j not in lst:
            lst.append(j)

    def sample(self, item):
        if len(self.samples) < 40:
            self.samples.append(jsonable(item))

    def ob(self, rule, instance, ok, detail='', loc='', key=None):
        """Record one obligation.  A failed obligation is a violation keyed by rule+construct."""
        self.obligations.append({'rule': rule, 'instance': str(instance), 'ok': bool(ok)})
        if not ok:
            self.violation(rule, key or str(instance), loc, detail or 'obligation failed')
        return ok

    def violation(self, rule, key, loc, message, detail=None):
        for v in self.violations:
            if v['rule'] == rule and v['key'] == key:
                return
        self.violations.append({'rule': rule, 'key': key, 'loc': loc, 'message': message,
                                'detail': jsonable(detail)})

    def floor(self, name, count, minimum):
        self.extra.setdefault('floors', {})[name] = {'count': count, 'minimum': minimum}
        if count < minimum:
            # deferred: a violation that explains the shortfall is reported as the violation it is;
            # a shortfall with no violation is "cannot conclude" (exit 2), never a silent pass
            self.floor_failures.append('floor not reached for %s: %d < %d (rule would pass '
                                       'vacuously)' % (name, count, minimum))

    def canary(self, name, fired):
        """A rule with expected violation count zero must still fire on its known-bad fixture."""
        self.canaries.append({'name': name, 'fired': bool(fired)})
        if not fired:
            raise AnalysisError('canary %s did not fire: the rule cannot detect its own '
                                'known-bad fixture' % name)

    # ------------------------------------------------------------ finishing
    def known_findings(self):
        path = os.path.join(VERIF, 'known_findings.json')
        try:
            with open(path) as fh:
                data = json.load(fh)
        except (OSError, ValueError):
            return []
        return [f for f in data.get('findings', []) if f.get('property') == self.pid]

    def finish(self):
        known = self.known_findings()
        listed, unlisted = [], []
        for v in self.violations:
            hit = None
            for k in known:
                if k.get('rule') == v['rule'] and k.get('key') == v['key']:
                    hit = k
            (listed if hit else unlisted).append((v, hit))
        if self.floor_failures and not unlisted:
            raise AnalysisError('; '.join(self.floor_failures))
        os.makedirs(os.path.join(self.out_dir, 'replay'), exist_ok=True)
        # remove stale replay files of this property
        rdir = os.path.join(self.out_dir, 'replay')
        for fn in os.listdir(rdir):
            if fn.startswith(self.pid + '-'):
                try:
                    os.remove(os.path.join(rdir, fn))
                except OSError:
                    pass
        for v, k in listed:
            print('KNOWN-FINDING: property=%s %s [%s] %s' % (self.pid, v['key'], v['rule'],
                                                             k.get('what', v['message'])))
        for n, (v, _) in enumerate(unlisted, 1):
            rp = os.path.join(rdir, '%s-%d.json' % (self.pid, n))
            with open(rp, 'w') as fh:
                json.dump({'property': self.pid, 'rule': v['rule'], 'construct': v['key'],
                           'location': v['loc'], 'message': v['message'], 'detail': v['detail'],
                           'repo': self.repo,
                           'replay': './check %s %s --repo %s' % (self.pid, self.tier, self.repo)},
                          fh, indent=1)
            print('%s: [%s] %s: %s' % (v['loc'] or '?', v['rule'], v['key'], v['message']))
            print('VIOLATION property=%s replay=%s' % (self.pid, rp))
        n_ob = len(self.obligations)
        n_ok = sum(1 for o in self.obligations if o['ok'])
        rules = sorted({o['rule'] for o in self.obligations})
        distinct = len({(o['rule'], o['instance']) for o in self.obligations})
        cov = {
            'explanation': self.explanation,
            'obligations': n_ob,
            'discharged': n_ok,
            'evaluations': max(n_ob, 1),
            'distinct_nontrivial': distinct,
            'rule': 'one obligation per (rule, construct/abstract case) extracted from the parsed '
                    'source of the repo under analysis; distinct = distinct (rule, instance) pairs',
            'rules': rules,
            'per_rule': {r: sum(1 for o in self.obligations if o['rule'] == r) for r in rules},
            'samples': self.samples or [o for o in self.obligations[:10]],
            'analysed': self.analysed,
            'canaries': self.canaries,
            'trusted_base': self.trusted,
            'checker_cmd': './check %s %s' % (self.pid, self.tier),
            'known_findings_listed': [v['key'] for v, _ in listed],
            'violation_list': [{'rule': v['rule'], 'construct': v['key'], 'loc': v['loc'],
                                'message': v['message']} for v, _ in unlisted],
        }
        if self.exhaustive is not None:
            cov['exhaustive'] = bool(self.exhaustive)
        cov.update(self.extra)
        ev = {
            'property_id': self.pid,
            'tier': self.tier,
            'seed': int(os.environ.get('VERIF_SEED', '0') or 0),
            'level': 'other',
            'coverage': cov,
            'assumptions': self.assumptions,
            'wall_s': round(time.time() - self.t0, 3),
            'violations': len(unlisted),
        }
        with open(os.path.join(self.out_dir, self.pid + '.json'), 'w') as fh:
            json.dump(ev, fh, indent=1)
        if not self.quiet:
            print('%s %s: %d obligations, %d discharged, %d violation(s), %d known finding(s), '
                  '%.2fs' % (self.pid, self.tier, n_ob, n_ok, len(unlisted), len(listed),
                             time.time() - self.t0))
        return 1 if unlisted else 0



class Trial(Check):
    """A sandbox collector for a symbolic proof attempt: obligations and violations are recorded
    but nothing is printed or written.  If the attempt succeeds it is merged into the real check;
    if it fails the caller falls back to a witness search (a VIOLATION needs a concrete input)."""

    def __init__(self, parent):
        Check.__init__(self, parent.pid, parent.tier, parent.repo, out_dir=parent.out_dir, quiet=True)

    def merge_into(self, ck):
        ck.obligations.extend(self.obligations)
        for v in self.violations:
            ck.violation(v['rule'], v['key'], v['loc'], v['message'], v['detail'])
        for k, items in self.analysed.items():
            for it in items:
                ck.saw(k, it)
        for smp in self.samples:
            ck.sample(smp)
        ck.floor_failures.extend(self.floor_failures)
        ck.extra.setdefault('floors', {}).update(self.extra.get('floors', {}))
        for k, v in self.extra.items():
            if k != 'floors':
                ck.extra[k] = v
        if self.exhaustive is not None:
            ck.exhaustive = self.exhaustive
