"""Developer self-test (not a manifest command): apply single edits to a scratch copy of the current
repo and require the named check to FIRE (exit 1 naming a violation) or stay SILENT (exit 0).

./check selftest [Cxx ...] [--tier quick|thorough] [--list]

Variants live in /verif/selftest/variants/<Cxx>.py as a list VARIANTS of dicts:
  {'name', 'file', 'old', 'new', 'expect': 'fire'|'silent'|'inconclusive', optional 'count': n, 'rule': substring}
The scratch copies are created under a temp dir outside /repo and /verif and removed afterwards.
"""
import importlib.util
import os
import shutil
import subprocess
import sys
import tempfile
from concurrent.futures import ThreadPoolExecutor

from .report import VERIF

VDIR = os.path.join(VERIF, 'selftest', 'variants')


def load_variants(pid):
    path = os.path.join(VDIR, pid.lower() + '.py')
    if not os.path.exists(path):
        return []
    spec = importlib.util.spec_from_file_location('variants_' + pid, path)
    mod = importlib.util.module_from_spec(spec)
    spec.loader.exec_module(mod)
    out = []
    for v in mod.VARIANTS:
        v = dict(v)
        v['pid'] = pid
        out.append(v)
    return out


def run_variant(v, repo, tier, root):
    d = tempfile.mkdtemp(prefix='vfst_', dir=root)
    try:
        dst = os.path.join(d, 'repo')
        os.makedirs(os.path.join(dst, 'plotink'))
        for fn in os.listdir(os.path.join(repo, 'plotink')):
            if fn.endswith('.py'):
                shutil.copy(os.path.join(repo, 'plotink', fn), os.path.join(dst, 'plotink', fn))
        edits = v.get('edits') or [(v['file'], v['old'], v['new'], v.get('count', 1))]
        for file, old, new, count in edits:
            p = os.path.join(dst, file)
            src = open(p, encoding='utf-8').read()
            if src.count(old) != count:
                return v, 'STALE', 'pattern occurs %d times, expected %d' % (src.count(old), count)
            src = src.replace(old, new)
            try:
                compile(src, p, 'exec')
            except SyntaxError as exc:
                return v, 'STALE', 'variant does not compile: %s' % exc
            open(p, 'w', encoding='utf-8').write(src)
        out_dir = os.path.join(d, 'evidence')
        r = subprocess.run([sys.executable, '-B', '-m', 'vf.cli', v['pid'], tier, '--repo', dst,
                            '--out', out_dir], cwd=VERIF, capture_output=True, text=True,
                           timeout=600)
        text = r.stdout + r.stderr
        if v['expect'] == 'fire':
            ok = r.returncode == 1 and 'VIOLATION property=%s' % v['pid'] in text
            if ok and v.get('rule') and v['rule'] not in text:
                ok = False
        elif v['expect'] == 'inconclusive':
            # a behaviour-preserving variant the analysis is known not to decide: it must say so
            # (exit 2), never report a violation and never pass silently by accident
            ok = r.returncode == 2 and 'VIOLATION' not in text
        else:
            ok = r.returncode == 0 and 'VIOLATION' not in text
        return v, ('ok' if ok else 'FAIL'), 'exit=%d\n%s' % (r.returncode, text[-1500:])
    finally:
        shutil.rmtree(d, ignore_errors=True)


def audit(pid, repo, tier='quick'):
    """Mutation-adequacy audit used by the thorough tier: every self-test variant of `pid` is applied
    to a scratch copy of the CURRENT tree and the quick check is run on it.  Returns counts; never
    affects the verdict of the check that calls it (a variant whose pattern no longer occurs in
    the tree is 'stale')."""
    variants = load_variants(pid)
    if not variants:
        return {'variants': 0}
    root = tempfile.mkdtemp(prefix='vf_audit_')
    try:
        with ThreadPoolExecutor(max_workers=16) as ex:
            results = list(ex.map(lambda v: run_variant(v, repo, tier, root), variants))
    finally:
        shutil.rmtree(root, ignore_errors=True)
    out = {'variants': len(results), 'breaking_variants_reported': 0,
           'preserving_variants_silent': 0, 'preserving_variants_not_concluded': 0, 'stale': 0,
           'unexpected': []}
    for v, status, text in results:
        if status == 'STALE':
            out['stale'] += 1
        elif status == 'ok':
            out['breaking_variants_reported' if v['expect'] == 'fire' else
                'preserving_variants_not_concluded' if v['expect'] == 'inconclusive'
                else 'preserving_variants_silent'] += 1
        else:
            out['unexpected'].append('%s (%s expected)' % (v['name'], v['expect']))
    return out


def main(args, repo):
    tier = 'quick'
    pids = []
    verbose = False
    i = 0
    while i < len(args):
        if args[i] == '--tier':
            tier = args[i + 1]
            i += 1
        elif args[i] == '-v':
            verbose = True
        elif args[i] in ('quick', 'thorough'):
            tier = args[i]
        else:
            pids.append(args[i].upper())
        i += 1
    if not pids:
        pids = sorted(f[:-3].upper() for f in os.listdir(VDIR) if f.endswith('.py'))
    variants = []
    for p in pids:
        variants.extend(load_variants(p))
    root = tempfile.mkdtemp(prefix='vf_selftest_')
    bad = 0
    try:
        with ThreadPoolExecutor(max_workers=16) as ex:
            results = list(ex.map(lambda v: run_variant(v, repo, tier, root), variants))
    finally:
        shutil.rmtree(root, ignore_errors=True)
    for v, status, text in results:
        line = '%-5s %s %-6s %s' % (status, v['pid'], v['expect'], v['name'])
        print(line)
        if status != 'ok' or verbose:
            print('      ' + text.replace('\n', '\n      '))
        if status != 'ok':
            bad += 1
    print('selftest: %d variants, %d not ok' % (len(results), bad))
    return 1 if bad else 0
