"""M3 - abstract interpreter over the AST ("decision-table extractor").

The interpreter walks function bodies of the *parsed* repo source in abstract value domains:
rational normal forms (`poly.Sym`), string templates (`Str`), constants, tuples/lists and opaque
terms with type tags.  Branch conditions are abstract `Cond` terms; a check supplies a `decide`
oracle for its finite case domain (sign cases, order types, typestate of `self`), and whatever the
oracle leaves open is explored on *both* branches with the assumption recorded in the path.  The
result of interpreting a function is therefore a decision table: a list of
(path assumptions, returned abstract value, effects).

No repo code is executed: repo functions are never called, only their syntax trees are traversed;
all values are terms.  Loops are not iterated on concrete data: a loop is either unrolled over a
*literal* iteration space (e.g. `range(0, 4)`), summarised by havoc (every variable assigned in the
loop is forgotten, the body is traversed once for its effects), or handed to the check's own loop
rule.
"""
import ast
import string
import sys
from dataclasses import dataclass, field
from fractions import Fraction

from .poly import Sym, as_sym, mk_func, exact_fraction, is_intvalued
from .model import AnalysisError, FuncInfo, ClassInfo

sys.setrecursionlimit(20000)


# ====================================================================== values
@dataclass(frozen=True)
class Const:
    v: object


NONE, TRUE, FALSE = Const(None), Const(True), Const(False)


@dataclass(frozen=True)
class Slot:
    value: object
    spec: str = ''


@dataclass(frozen=True)
class Str:
    parts: tuple

    @staticmethod
    def lit(text):
        return Str((text,)) if text else Str(())

    def is_lit(self):
        return all(isinstance(p, str) for p in self.parts)

    def text(self):
        return ''.join(self.parts)

    @staticmethod
    def make(parts):
        out = []
        for p in parts:
            if isinstance(p, str):
                if not p:
                    continue
                if out and isinstance(out[-1], str):
                    out[-1] += p
                else:
                    out.append(p)
            else:
                out.append(p)
        return Str(tuple(out))


@dataclass(frozen=True)
class Tup:
    items: tuple
    kind: str = 'tuple'      # tuple | list | set


@dataclass(frozen=True)
class DictV:
    items: tuple             # ((key, value), ...)


@dataclass(frozen=True)
class Opaque:
    label: str
    args: tuple = ()
    ty: str = 'unknown'      # str bytes int float bool list tuple version obj none unknown


@dataclass(frozen=True)
class Cmp:
    op: str
    a: object
    b: object


@dataclass(frozen=True)
class IsNone:
    v: object


@dataclass(frozen=True)
class Truthy:
    v: object


@dataclass(frozen=True)
class In:
    item: object
    container: object


@dataclass(frozen=True)
class NotC:
    c: object


@dataclass(frozen=True)
class AndC:
    items: tuple


@dataclass(frozen=True)
class OrC:
    items: tuple


@dataclass(frozen=True)
class Pred:
    name: str
    args: tuple


COND_TYPES = (Cmp, IsNone, Truthy, In, NotC, AndC, OrC, Pred)


@dataclass(frozen=True)
class FuncRef:
    fn: object = field(compare=False)
    qual: str = ''


@dataclass(frozen=True)
class ClassRef:
    cls: object = field(compare=False)
    qual: str = ''


@dataclass(frozen=True)
class GenV:
    """A generator object that has not run yet: the generator function and its arguments.  Its
    body is interpreted when a consumer asks for items (all of them, or only the first)."""
    fn: object = field(compare=False)      # FuncInfo of the generator function
    qual: str = ''
    args: tuple = ()
    kwargs: tuple = ()                     # ((name, value), ...)
    self_obj: object = None
    closure: object = None                 # Closure for nested generator functions


def is_generator_function(fn):
    """Yield / yield from at the function's own level (nested defs and lambdas excluded)."""
    got = getattr(fn, '_is_gen', None)
    if got is None:
        got = False
        stack = list(fn.node.body)
        while stack:
            n = stack.pop()
            if isinstance(n, (ast.FunctionDef, ast.AsyncFunctionDef, ast.Lambda, ast.ClassDef)):
                continue
            if isinstance(n, (ast.Yield, ast.YieldFrom)):
                got = True
                break
            stack.extend(ast.iter_child_nodes(n))
        try:
            fn._is_gen = got
        except AttributeError:
            pass
    return got


@dataclass(frozen=True)
class Inst:
    """An immutable instance of a repo value class (NamedTuple / dataclass): its fields."""
    cls: object = field(compare=False)     # ClassInfo
    qual: str = ''
    fields: tuple = ()                     # ((name, value), ...)

    def get(self, name):
        for n, v in self.fields:
            if n == name:
                return v
        return None

    def has(self, name):
        return any(n == name for n, _ in self.fields)


@dataclass(frozen=True)
class EnumV:
    """A member of a repo Enum class."""
    cls: object = field(compare=False)     # ClassInfo
    qual: str = ''
    name: str = ''
    value: object = None
    intlike: bool = False


def num_of(v):
    """IntEnum / IntFlag members take part in arithmetic and comparisons as their value."""
    if isinstance(v, EnumV) and v.intlike and isinstance(v.value, Sym):
        return v.value
    return v


@dataclass(frozen=True)
class Closure:
    """A lambda or nested def with the values of its free variables at definition time."""
    fn: object = field(compare=False)      # synthetic FuncInfo
    label: str = ''                        # 'lambda@<line>' | 'localfunc:<name>'
    captured: tuple = ()                   # ((name, value), ...)
    definer: str = ''                      # qualname of the defining function
    defaults: tuple = ()                   # ((param, value), ...) evaluated at definition time


@dataclass(frozen=True)
class ExtRef:
    dotted: str


@dataclass(frozen=True)
class PkgMod:
    name: str


@dataclass(frozen=True)
class Bound:
    obj: object
    name: str


@dataclass(frozen=True)
class ObjRef:
    label: str
    cls: object = field(compare=False, default=None)


@dataclass(frozen=True)
class Effect:
    kind: str                 # 'call' | 'store' | 'del'
    target: object
    args: tuple
    line: int
    func: str = ''


class State:
    __slots__ = ('env', 'fields', 'path', 'effects', 'raised', 'notes', 'notepos')

    def __init__(self, env=None, fields=None, path=(), effects=(), raised=None, notes=(),
                 notepos=()):
        self.env = env if env is not None else {}
        self.fields = fields if fields is not None else {}
        self.path = path
        self.effects = effects
        self.raised = raised
        self.notes = notes
        self.notepos = notepos

    def copy(self):
        return State(dict(self.env), dict(self.fields), self.path, self.effects, self.raised,
                     self.notes, self.notepos)

    def bind(self, name, val):
        s = self.copy()
        s.env[name] = val
        return s

    def setfield(self, key, val):
        s = self.copy()
        s.fields[key] = val
        return s

    def assume(self, cond, truth):
        s = self.copy()
        s.path = s.path + ((cond, truth),)
        return s

    def effect(self, eff):
        s = self.copy()
        s.effects = s.effects + (eff,)
        return s

    def raising(self, exc):
        s = self.copy()
        s.raised = exc
        return s

    def note(self, n):
        s = self.copy()
        s.notes = s.notes + (n,)
        s.notepos = s.notepos + (len(s.path),)   # how many path assumptions preceded the note
        return s


@dataclass
class Outcome:
    kind: str                 # return | raise | fall | break | continue
    value: object
    state: State


class Unsupported(AnalysisError):
    pass


# exception class hierarchy known to the interpreter (child -> parents)
EXC_PARENTS = {
    'serial.SerialException': ['IOError'],
    'serial.serialutil.SerialException': ['IOError'],
    'serial.serialutil.PortNotOpenError': ['serial.SerialException'],
    'serial.PortNotOpenError': ['serial.SerialException'],
    'serial.SerialTimeoutException': ['serial.SerialException'],
    'IOError': ['OSError'], 'OSError': ['Exception'], 'EnvironmentError': ['OSError'],
    'RuntimeError': ['Exception'], 'ValueError': ['Exception'], 'TypeError': ['Exception'],
    'UnicodeDecodeError': ['ValueError'], 'UnicodeEncodeError': ['ValueError'],
    'UnicodeError': ['ValueError'], 'AttributeError': ['Exception'],
    'UnboundLocalError': ['NameError'], 'NameError': ['Exception'],
    'IndexError': ['LookupError'], 'KeyError': ['LookupError'], 'LookupError': ['Exception'],
    'ZeroDivisionError': ['ArithmeticError'], 'ArithmeticError': ['Exception'],
    'OverflowError': ['ArithmeticError'], 'InvalidVersion': ['ValueError'],
    'packaging.version.InvalidVersion': ['ValueError'],
    'Exception': ['BaseException'], 'BaseException': [],
    'GeneratorExit': ['BaseException'], 'KeyboardInterrupt': ['BaseException'],
    'SystemExit': ['BaseException'], 'StopIteration': ['Exception'],
    'AssertionError': ['Exception'], 'NotImplementedError': ['RuntimeError'],
}
EXC_ALIASES = {'OSError': 'OSError', 'IOError': 'OSError', 'EnvironmentError': 'OSError',
               'serial.serialutil.SerialException': 'serial.SerialException',
               'serial.PortNotOpenError': 'serial.serialutil.PortNotOpenError',
               'InvalidVersion': 'packaging.version.InvalidVersion'}


def exc_canon(name):
    return EXC_ALIASES.get(name, name)


def exc_is_subclass(name, parent):
    name, parent = exc_canon(name), exc_canon(parent)
    seen, stack = set(), [name]
    while stack:
        n = exc_canon(stack.pop())
        if n == parent:
            return True
        if n in seen:
            continue
        seen.add(n)
        stack.extend(EXC_PARENTS.get(n, ['Exception'] if n != 'BaseException' else []))
    return False


METHOD_TY = {
    'strip': 'str', 'lstrip': 'str', 'rstrip': 'str', 'lower': 'str', 'upper': 'str',
    'replace': 'str', 'format': 'str', 'decode': 'str', 'join': 'str', 'encode': 'bytes',
    'readline': 'bytes', 'read': 'bytes', 'split': 'list', 'find': 'int', 'index': 'int',
    'copy': 'list', 'to_bytes': 'bytes', 'get': 'unknown', 'getroot': 'obj', 'pop': 'unknown',
    'partition': 'tuple', 'rpartition': 'tuple', 'splitlines': 'list', 'translate': 'str',
    'removeprefix': 'str', 'removesuffix': 'str', 'title': 'str', 'capitalize': 'str',
    'casefold': 'str', 'zfill': 'str', 'ljust': 'str', 'rjust': 'str', 'center': 'str',
    'rfind': 'int', 'rindex': 'int', 'hex': 'str', 'bit_length': 'int',
}
PURE_METHODS = {'strip', 'lstrip', 'rstrip', 'lower', 'upper', 'replace', 'format', 'decode',
                'encode', 'split', 'find', 'index', 'copy', 'to_bytes', 'startswith', 'endswith',
                'isspace', 'join', 'get', 'getroot', 'isdigit', 'count', 'partition', 'rpartition',
                'splitlines', 'translate', 'removeprefix', 'removesuffix', 'title', 'capitalize',
                'casefold', 'zfill', 'ljust', 'rjust', 'center', 'rfind', 'rindex', 'isalpha',
                'isalnum', 'isnumeric', 'isdecimal', 'isupper', 'islower', 'hex', 'bit_length',
                'keys', 'values', 'items', 'union', 'intersection', 'difference', 'issubset',
                'issuperset', 'isdisjoint', 'maketrans'}


def type_of(v):
    if isinstance(v, Sym):
        return 'num'
    if isinstance(v, Str):
        return 'str'
    if isinstance(v, Const):
        return 'none' if v.v is None else 'bool'
    if isinstance(v, Tup):
        return v.kind
    if isinstance(v, Opaque):
        return v.ty
    if isinstance(v, COND_TYPES):
        return 'bool'
    if isinstance(v, ObjRef):
        return 'obj'
    return 'unknown'


class ModuleFrame:
    """Pseudo function frame used while evaluating a module-level / class-level constant."""

    def __init__(self, module, cls=None):
        self.module, self.cls = module, cls
        self.name = '<module>'
        self.qualname = module.name + '.<module>'
        self.node = module.tree
        self.params = []

    def loc(self, node=None):
        return '%s:%d' % (self.module.relpath, getattr(node, 'lineno', 0))

    def defaults(self):
        return {}

    def body(self):
        return []


def is_constant_value(v, depth=0):
    if depth > 6:
        return False
    if isinstance(v, (Sym, Const)):
        return not isinstance(v, Sym) or v.is_const()
    if isinstance(v, Str):
        return v.is_lit()
    if isinstance(v, Tup):
        return all(is_constant_value(x, depth + 1) for x in v.items)
    if isinstance(v, DictV):
        return all(is_constant_value(k, depth + 1) and is_constant_value(x, depth + 1)
                   for k, x in v.items)
    if isinstance(v, Opaque):
        if v.label in ('encode', 'm:maketrans', 'call:str.maketrans', 're.compile', 'frozenset',
                       'call:re.compile'):
            return all(is_constant_value(a, depth + 1) for a in v.args
                       if not isinstance(a, tuple))
        return False
    if isinstance(v, (FuncRef, ClassRef, ExtRef)):
        return True
    if isinstance(v, Closure):
        return not v.captured or all(is_constant_value(x, depth + 1) for _, x in v.captured)
    if isinstance(v, GenV):
        return False
    if isinstance(v, Inst):
        return all(is_constant_value(x, depth + 1) for _, x in v.fields)
    if isinstance(v, EnumV):
        return True
    return False


def class_attr_is_constant_table(cls, attr, expr):
    """A class-level container literal that is non-empty and that no method of the class family
    stores to / mutates in place through self.<attr> or <Class>.<attr>."""
    if isinstance(expr, (ast.Tuple,)):
        pass
    elif isinstance(expr, (ast.Dict, ast.List, ast.Set)):
        n = len(expr.keys) if isinstance(expr, ast.Dict) else len(expr.elts)
        if n == 0:
            return False       # `grid = []` style shared default: must stay visible as such
    elif isinstance(expr, (ast.BinOp, ast.Call, ast.Attribute, ast.Name, ast.JoinedStr, ast.UnaryOp)):
        pass
    else:
        return False
    from .purity import IN_PLACE_METHODS
    for c in cls.mro():
        for m in c.methods.values():
            for node in ast.walk(m.node):
                tgt = None
                if isinstance(node, (ast.Assign, ast.AugAssign, ast.AnnAssign, ast.Delete)):
                    tgts = node.targets if isinstance(node, (ast.Assign, ast.Delete)) else [node.target]
                    for t in tgts:
                        base = t
                        while isinstance(base, ast.Subscript):
                            base = base.value
                        if isinstance(base, ast.Attribute) and base.attr == attr:
                            return False
                if isinstance(node, ast.Call) and isinstance(node.func, ast.Attribute) and \
                        node.func.attr in IN_PLACE_METHODS:
                    base = node.func.value
                    while isinstance(base, ast.Subscript):
                        base = base.value
                    if isinstance(base, ast.Attribute) and base.attr == attr:
                        return False
    return True


# ---------------------------------------------------------------------- modelling gaps
# Places where the interpreter met repo code it does not model (an instance of a repo class, a
# callable it cannot resolve, ...).  The value it continues with is an over-approximation, so a
# *mismatch* found downstream is not evidence of a defect: the driver downgrades violations of a
# run that recorded gaps to "cannot conclude".
GAP_EVENTS = []
import time as _time
DEADLINE = [float('inf')]  # wall-clock safety net, set by the driver per run
WORK = [0]                # statements interpreted in this run (all Interp instances)
WORK_CAP = [3000000]     # a run that needs more than this is a path explosion: exit 2, not a hang
GENERATOR_RUNS = [0]      # how many generator bodies were interpreted (checks that read loop shapes
                          # consult it: a loop split between a generator and its consumer has none)


def note_gap(kind, what, where):
    if len(GAP_EVENTS) < 2000:
        GAP_EVENTS.append((kind, what, where))


class suspended_gaps:
    """Gaps met while analysing a fixture (canary) do not belong to the run's verdict."""

    def __enter__(self):
        self.saved = list(GAP_EVENTS)

    def __exit__(self, *exc):
        GAP_EVENTS[:] = self.saved
        return False


def _gap_callee(f):
    if isinstance(f, Closure):
        return True
    if isinstance(f, Opaque):
        return f.label.startswith(('lambda', 'localfunc', 'item', 'global:', 'comp@', 'havoc:',
                                   'call:', 'new:', 'elem@', 'default:'))
    if isinstance(f, Bound):
        o = f.obj
        while isinstance(o, Bound):
            o = o.obj
        return isinstance(o, Opaque) and o.label.startswith(('new:', 'item', 'comp@', 'lambda',
                                                             'localfunc', 'elem@'))
    return False


# ====================================================================== interpreter
class Hooks:
    """Per-check customisation points.  Every method may return None for 'default behaviour'."""

    def decide(self, cond, st):
        return None

    def call(self, interp, target, args, kwargs, st, node):
        """target: FuncRef/ExtRef/Bound/...; return None or an iterable of (value, state)."""
        return None

    def loop(self, interp, node, st):
        """Return None or an iterable of Outcome for the whole loop statement."""
        return None

    def stored(self, interp, obj, idx, val, st):
        """Called after a subscript store / delete was recorded; may return a replacement state."""
        return None

    def sequence_items(self, value):
        """Elements of an opaque value the check knows the shape of (a fixed-length record), or
        None.  Used for unpacking, star-expansion and iteration."""
        return None

    def field(self, obj, name, st):
        return None

    def may_raise(self, target, args, st, node):
        """Exceptions a call may raise (list of dotted names)."""
        return ()

    def inline(self, fn, depth):
        return depth < 8

    def global_value(self, module, name):
        return None


class Interp:
    def __init__(self, program, hooks=None, max_paths=20000):
        self.program = program
        self.hooks = hooks or Hooks()
        self.max_paths = max_paths
        self.paths = 0
        self.stack = []       # FuncInfo call stack
        self.self_cls = None  # dynamic class of `self`
        self.stats = {'stmts': 0, 'forks': 0, 'calls_inlined': 0}
        self.trace_arith = False

    # ------------------------------------------------------------------ entry
    def run(self, fn, args=None, kwargs=None, st=None, self_obj=None):
        """Interpret FuncInfo `fn`. args: list of Values for positional params (after self).
        Returns list of Outcome (kind return/raise)."""
        st = st or State()
        outs = []
        if self.unknown_decorators(fn) and not self.stack:
            me = self_obj
            if me is None and fn.cls is not None and fn.params and fn.params[0] == 'self':
                me = ObjRef('self', fn.cls)
            self.stack.append(ModuleFrame(fn.module, fn.cls))
            try:
                results = list(self.call_decorated(fn, me, list(args or []), dict(kwargs or {}),
                                                   st, fn.node))
            finally:
                self.stack.pop()
        else:
            results = self.call_function(fn, list(args or []), dict(kwargs or {}), st, self_obj)
        for val, s in results:
            if s.raised:
                exc = s.raised
                s2 = s.copy()
                s2.raised = None
                outs.append(Outcome('raise', exc, s2))
            else:
                outs.append(Outcome('return', val, s))
        return outs

    @property
    def cur(self):
        return self.stack[-1]

    # ------------------------------------------------------------------ function calls
    def call_function(self, fn, args, kwargs, st, self_obj=None, closure_env=None,
                      closure_defaults=None, run_generator=False):
        if not run_generator and not isinstance(fn, ModuleFrame) and is_generator_function(fn):
            yield GenV(fn, fn.qualname, tuple(args), tuple(sorted(kwargs.items())), self_obj,
                       (tuple(sorted((closure_env or {}).items())),
                        tuple(sorted((closure_defaults or {}).items())))), st
            return
        yield from self._call_function(fn, args, kwargs, st, self_obj, closure_env,
                                       closure_defaults)

    def _call_function(self, fn, args, kwargs, st, self_obj=None, closure_env=None,
                       closure_defaults=None):
        params = fn.params
        env = dict(closure_env or {})
        pos = list(params)
        deco = {ast.unparse(d) for d in getattr(fn.node, 'decorator_list', [])}
        if fn.cls is not None and 'classmethod' in deco and pos:
            dyn = self.self_cls if (self.self_cls is not None and
                                    fn.cls in self.self_cls.mro()) else fn.cls
            env[pos[0]] = ClassRef(dyn, dyn.module.name + '.' + dyn.name)
            pos = pos[1:]
        elif fn.cls is not None and 'staticmethod' in deco:
            pass
        elif fn.cls is not None and pos and pos[0] == 'self':
            env['self'] = self_obj if self_obj is not None else ObjRef('self', fn.cls)
            pos = pos[1:]
        if len(args) > len(pos) and not fn.node.args.vararg:
            raise Unsupported('too many arguments calling %s' % fn.qualname)
        bound_ = set()
        for p, a in zip(pos, args):
            env[p] = a
            bound_.add(p)
        if fn.node.args.vararg:
            env[fn.node.args.vararg.arg] = Tup(tuple(args[len(pos):]), 'tuple')
        extra_kw = []
        known_kw = set(pos) | {a.arg for a in fn.node.args.kwonlyargs}
        for k, v in kwargs.items():
            if k in bound_:
                raise Unsupported('duplicate argument %s calling %s' % (k, fn.qualname))
            if k not in known_kw and fn.node.args.kwarg:
                extra_kw.append((Str.lit(k), v))
                continue
            env[k] = v
            bound_.add(k)
        if fn.node.args.kwarg:
            env[fn.node.args.kwarg.arg] = DictV(tuple(extra_kw))
        defaults = fn.defaults()
        for p in pos + [a.arg for a in fn.node.args.kwonlyargs]:
            if p not in bound_:
                if closure_defaults and p in closure_defaults:
                    env[p] = closure_defaults[p]
                elif p in defaults:
                    if (fn.qualname, p) in getattr(self.program, 'sound_memos', ()) and \
                            isinstance(defaults[p], ast.Dict) and not defaults[p].keys:
                        # a table the purity rule found to be a sound memo (what is stored under
                        # a key depends on the key alone): a hit returns what a miss computes,
                        # so the miss paths - the empty table - cover every result
                        env[p] = DictV(())
                    else:
                        env[p] = self.const_expr(defaults[p])
                else:
                    env[p] = Sym.var(p)
        caller_env = st.env
        s0 = st.copy()
        s0.env = env
        self.stack.append(fn)
        self.stats['calls_inlined'] += 1
        try:
            for out in self.exec_block(fn.body(), s0):
                s = out.state.copy()
                s.env = caller_env
                if out.kind == 'return':
                    res = (out.value, s)
                elif out.kind == 'fall':
                    res = (NONE, s)
                elif out.kind == 'raise':
                    res = (None, s.raising(out.value))
                else:
                    raise Unsupported('%s outside loop in %s' % (out.kind, fn.qualname))
                if getattr(self.hooks, 'list_writeback', False):
                    # a followed list passed in and updated in place (the parameter is never
                    # re-bound in the callee): the caller's list is the same object
                    wb = {}
                    for k_, p_ in enumerate(pos):
                        a0 = env.get(p_)
                        a1 = out.state.env.get(p_)
                        if isinstance(a0, Tup) and a0.kind == 'list' and a1 is not None and \
                                a1 != a0 and not fn.rebinds(p_):
                            wb[k_] = (a0, a1)
                    self._writeback = (fn, wb) if wb else None
                # while the consumer continues with this outcome the callee frame is finished:
                # keep `self.stack` equal to the abstract call stack (recursion test, locations)
                self.stack.pop()
                try:
                    yield res
                finally:
                    self.stack.append(fn)
        finally:
            self.stack.pop()

    def bind_positional(self, fn, args, kwargs):
        """Arguments of a call that is recorded rather than inlined, in the callee's parameter
        order (keyword arguments placed at their position; trailing defaults left out)."""
        if not kwargs:
            return tuple(args)
        params = fn.params
        if fn.cls is not None and params and params[0] == 'self' and not (
                args and isinstance(args[0], ObjRef)):
            params = params[1:]
        out = list(args)
        defaults = fn.defaults()
        for p in params[len(args):]:
            if p in kwargs:
                out.append(kwargs[p])
            elif p in defaults and any(q in kwargs for q in params[params.index(p) + 1:]):
                out.append(self.const_expr(defaults[p]))
            else:
                break
        leftover = [k for k in kwargs if k not in params]
        if leftover:
            out.extend(('kw:' + k, kwargs[k]) for k in sorted(leftover))
        return tuple(out)

    def const_expr(self, node):
        if isinstance(node, ast.Constant):
            return self.constant(node.value)
        if isinstance(node, ast.UnaryOp) and isinstance(node.op, ast.USub) \
                and isinstance(node.operand, ast.Constant):
            return -self.constant(node.operand.value)
        if isinstance(node, (ast.Tuple, ast.List)) and not node.elts:
            return Tup((), 'tuple' if isinstance(node, ast.Tuple) else 'list')
        return Opaque('default:' + ast.unparse(node))

    @staticmethod
    def constant(v):
        if v is None or v is True or v is False:
            return Const(v)
        if isinstance(v, int):
            return Sym.const(v)
        if isinstance(v, float):
            if v != v or v in (float('inf'), float('-inf')):
                return Opaque('float:' + repr(v), (), 'float')
            return Sym.const(exact_fraction(repr(v)))
        if isinstance(v, str):
            return Str.lit(v)
        if isinstance(v, bytes):
            try:
                # an ASCII bytes literal is the encoding of its text
                return Opaque('encode', (Str.lit(v.decode('ascii')),), 'bytes')
            except UnicodeDecodeError:
                return Opaque('bytes:' + repr(v), (), 'bytes')
        return Opaque('const:' + repr(v))

    # ------------------------------------------------------------------ statements
    def exec_block(self, stmts, st):
        if not stmts:
            yield Outcome('fall', None, st)
            return
        for out in self.exec_stmt(stmts[0], st):
            if out.kind == 'fall':
                yield from self.exec_block(stmts[1:], out.state)
            else:
                yield out

    def exec_stmt(self, node, st):
        self.stats['stmts'] += 1
        WORK[0] += 1
        if WORK[0] > WORK_CAP[0]:
            raise Unsupported('analysis budget of %d interpreted statements exceeded (path '
                              'explosion in %s)' % (WORK_CAP[0], self.cur.qualname))
        if WORK[0] % 64 == 0 and _time.monotonic() > DEADLINE[0]:
            raise Unsupported('analysis time budget exceeded (path or term explosion in %s)'
                              % self.cur.qualname)
        meth = getattr(self, 'st_' + type(node).__name__, None)
        if meth is None:
            raise Unsupported('statement %s at %s' % (type(node).__name__, self.cur.loc(node)))
        yield from meth(node, st)

    def _raise_or(self, s, cont):
        """If state carries a pending exception, turn it into a raise outcome."""
        if s.raised:
            exc = s.raised
            s2 = s.copy()
            s2.raised = None
            yield Outcome('raise', exc, s2)
        else:
            yield from cont(s)

    def st_Pass(self, node, st):
        yield Outcome('fall', None, st)

    def st_Global(self, node, st):
        # module state is opaque to the interpreter; the purity rule (vf/purity.py) judges it
        s = st.copy()
        for n in node.names:
            s.env.pop(n, None)
        yield Outcome('fall', None, s.note(('global-stmt', tuple(node.names), node.lineno)))

    st_Nonlocal = st_Global

    def st_Import(self, node, st):
        yield Outcome('fall', None, st)

    st_ImportFrom = st_Import

    def st_Expr(self, node, st):
        for _, s in self.ev(node.value, st):
            yield from self._raise_or(s, lambda s_: [Outcome('fall', None, s_)])

    def st_Return(self, node, st):
        if node.value is None:
            yield Outcome('return', NONE, st)
            return
        for v, s in self.ev(node.value, st):
            yield from self._raise_or(s, lambda s_, v=v: [Outcome('return', v, s_)])

    def st_Break(self, node, st):
        yield Outcome('break', None, st)

    def st_Continue(self, node, st):
        yield Outcome('continue', None, st)

    def st_Raise(self, node, st):
        name = 'Exception'
        if node.exc is not None:
            e = node.exc.func if isinstance(node.exc, ast.Call) else node.exc
            name = ast.unparse(e)
        yield Outcome('raise', name, st)

    def st_Assert(self, node, st):
        # an assert is an assumption of the function's contract: continue on the true branch only
        for c, s in self.ev_cond(node.test, st):
            if s.raised:
                yield from self._raise_or(s, None)
                continue
            for b, s2 in self.branch(c, s):
                if b:
                    yield Outcome('fall', None, s2)

    def st_Assign(self, node, st):
        for v, s in self.ev(node.value, st):
            if s.raised:
                yield from self._raise_or(s, None)
                continue
            states = [s]
            for tgt in node.targets:
                nxt = []
                for s1 in states:
                    nxt.extend(self.assign(tgt, v, s1))
                states = nxt
            for s2 in states:
                yield from self._raise_or(s2, lambda s_: [Outcome('fall', None, s_)])

    def st_AnnAssign(self, node, st):
        if node.value is None:
            yield Outcome('fall', None, st)
            return
        for v, s in self.ev(node.value, st):
            if s.raised:
                yield from self._raise_or(s, None)
                continue
            for s2 in self.assign(node.target, v, s):
                yield Outcome('fall', None, s2)

    def st_AugAssign(self, node, st):
        load = ast.copy_location(_as_load(node.target), node.target)
        binop = ast.copy_location(ast.BinOp(left=load, op=node.op, right=node.value), node)
        for v, s in self.ev(binop, st):
            if s.raised:
                yield from self._raise_or(s, None)
                continue
            for s2 in self.assign(node.target, v, s):
                yield from self._raise_or(s2, lambda s_: [Outcome('fall', None, s_)])

    def st_Delete(self, node, st):
        states = [st]
        for t in node.targets:
            nxt = []
            for s in states:
                if isinstance(t, ast.Subscript):
                    for o, s1 in self.ev(t.value, s):
                        if s1.raised:
                            nxt.append(s1)
                            continue
                        for i, s2 in self.ev_index(t.slice, s1):
                            if s2.raised:
                                nxt.append(s2)
                                continue
                            s3 = s2.effect(Effect('del', ('item', o, i), (), node.lineno,
                                                  self.cur.qualname))
                            if isinstance(t.value, ast.Name) and isinstance(o, (Tup, DictV)) and \
                                    s3.env.get(t.value.id) == o and not (
                                        isinstance(o, Tup) and o.kind != 'list'):
                                s3 = s3.bind(t.value.id,
                                             self._deleted_from(o, i, t.value.id, node.lineno))
                            r = self.hooks.stored(self, o, i, None, s3)
                            nxt.append(r if r is not None else s3)
                elif isinstance(t, ast.Name):
                    s1 = s.copy()
                    s1.env.pop(t.id, None)
                    nxt.append(s1)
                else:
                    nxt.append(s.effect(Effect('del', ast.unparse(t), (), node.lineno,
                                               self.cur.qualname)))
            states = nxt
        for s in states:
            yield from self._raise_or(s, lambda s_: [Outcome('fall', None, s_)])

    def st_If(self, node, st):
        for c, s in self.ev_cond(node.test, st):
            if s.raised:
                yield from self._raise_or(s, None)
                continue
            for b, s2 in self.branch(c, s):
                yield from self.exec_block(node.body if b else node.orelse, s2)

    # ------------------------------------------------------------------ match statement
    def st_Match(self, node, st):
        for v, s in self.ev(node.subject, st):
            if s.raised:
                yield from self._raise_or(s, None)
                continue
            yield from self._match_cases(node.cases, 0, v, s)

    def _match_cases(self, cases, k, v, st):
        if k == len(cases):
            yield Outcome('fall', None, st)
            return
        case = cases[k]
        for cond, s1 in self.match_pattern(case.pattern, v, st):
            if s1.raised:
                yield from self._raise_or(s1, None)
                continue
            for b, s2 in self.branch(cond, s1):
                if not b:
                    yield from self._match_cases(cases, k + 1, v, s2)
                    continue
                if case.guard is None:
                    yield from self.exec_block(case.body, s2)
                    continue
                for g, s3 in self.ev_cond(case.guard, s2):
                    if s3.raised:
                        yield from self._raise_or(s3, None)
                        continue
                    for gb, s4 in self.branch(g, s3):
                        if gb:
                            yield from self.exec_block(case.body, s4)
                        else:
                            yield from self._match_cases(cases, k + 1, v, s4)

    def match_pattern(self, pat, v, st):
        """Yield (condition under which the pattern matches v, state with the captures bound)."""
        if isinstance(pat, ast.MatchAs):
            if pat.pattern is None:
                yield TRUE, (st.bind(pat.name, v) if pat.name else st)
                return
            for c, s in self.match_pattern(pat.pattern, v, st):
                yield c, (s.bind(pat.name, v) if pat.name else s)
            return
        if isinstance(pat, ast.MatchValue):
            for val, s in self.ev(pat.value, st):
                if s.raised:
                    yield None, s
                else:
                    yield self.compare(ast.Eq(), v, val), s
            return
        if isinstance(pat, ast.MatchSingleton):
            yield self.compare(ast.Is(), v, self.constant(pat.value)), st
            return
        if isinstance(pat, ast.MatchOr):
            conds, s = [], st
            for alt in pat.patterns:
                got = list(self.match_pattern(alt, v, s))
                if len(got) != 1 or got[0][1].raised:
                    raise Unsupported('or-pattern with a multi-valued alternative')
                conds.append(got[0][0])
            t = [fold_cond(c) for c in conds]
            if any(x is True for x in t):
                yield TRUE, st
            else:
                live = [c for c, x in zip(conds, t) if x is None]
                yield (FALSE if not live else live[0] if len(live) == 1 else OrC(tuple(live))), st
            return
        if isinstance(pat, ast.MatchSequence):
            star = [i for i, p in enumerate(pat.patterns) if isinstance(p, ast.MatchStar)]
            if len(star) > 1:
                raise Unsupported('sequence pattern with two stars')
            if isinstance(v, Str) or type_of(v) in ('str', 'bytes') or v == NONE or \
                    isinstance(v, (Sym, DictV)):
                yield FALSE, st
                return
            if isinstance(v, Opaque) and v.label == 'm:partition':
                v = Tup(tuple(self.item_of(v, Sym.const(i)) for i in range(3)))
            items = self.literal_items(v) if not isinstance(v, ClassRef) else None
            n_fixed = len(pat.patterns) - len(star)
            if items is not None:
                if (not star and len(items) != n_fixed) or (star and len(items) < n_fixed):
                    yield FALSE, st
                    return
                length_cond = TRUE
                get = lambda i: items[i]
                tail = lambda lo, hi: Tup(tuple(items[lo:len(items) - hi if hi else None]), 'list')
            else:
                ln = Sym.func('LEN', _wrap(v))
                length_cond = norm_cmp('>=' if star else '==', ln, Sym.const(n_fixed))
                get = lambda i: self.item_of(v, Sym.const(i))
                tail = lambda lo, hi: self.item_of(v, ('slice', Sym.const(lo),
                                                       Sym.const(-hi) if hi else NONE, NONE))
            k = star[0] if star else len(pat.patterns)
            after = len(pat.patterns) - k - 1 if star else 0

            def rec(i, conds, s):
                if i == len(pat.patterns):
                    live = [c for c in conds if fold_cond(c) is not True]
                    if any(fold_cond(c) is False for c in live):
                        yield FALSE, s
                    else:
                        yield (TRUE if not live else live[0] if len(live) == 1
                               else AndC(tuple(live))), s
                    return
                p = pat.patterns[i]
                if isinstance(p, ast.MatchStar):
                    s2 = s.bind(p.name, tail(k, after)) if p.name else s
                    yield from rec(i + 1, conds, s2)
                    return
                elem = get(i) if i < k else get(i - len(pat.patterns))
                for c, s2 in self.match_pattern(p, elem, s):
                    if s2.raised:
                        yield None, s2
                    else:
                        yield from rec(i + 1, conds + [c], s2)
            yield from rec(0, [length_cond], st)
            return
        raise Unsupported('match pattern %s at %s' % (type(pat).__name__, self.cur.loc(pat)))

    def st_With(self, node, st):
        """`with` blocks: the context expression is evaluated, `as` names are bound to opaque
        values, the body is executed.  `mpmath.workdps(K)` / `workprec(K)` are modelled as a
        precision store on entry and a restore to the (unknown) ambient precision on exit - the
        notes the precision rule reads."""
        states = [st]
        exits = []
        for item in node.items:
            nxt = []
            for s in states:
                for v, s1 in self.ev(item.context_expr, s):
                    if s1.raised:
                        yield from self._raise_or(s1, None)
                        continue
                    if isinstance(v, Opaque) and v.label in ('call:mpmath.workdps',
                                                              'call:mpmath.workprec',
                                                              'call:mpmath.mp.workdps',
                                                              'call:mpmath.mp.workprec') and v.args:
                        which = 'mpmath.mp.dps' if v.label.endswith('dps') else 'mpmath.mp.prec'
                        s1 = s1.note(('ext-store', which, v.args[0], item.context_expr.lineno,
                                      self.cur.qualname))
                        exits.append(which)
                    if item.optional_vars is not None:
                        nxt.extend(self.assign(item.optional_vars, Opaque(
                            'ctx:' + ast.unparse(item.context_expr)[:40], (), 'obj'), s1))
                    else:
                        nxt.append(s1)
            states = nxt
        for s in states:
            for out in self.exec_block(node.body, s):
                s2 = out.state
                for which in exits:
                    s2 = s2.note(('ext-store', which, Opaque('ambient-precision'),
                                  getattr(node, 'end_lineno', node.lineno), self.cur.qualname))
                yield Outcome(out.kind, out.value, s2)

    def st_FunctionDef(self, node, st):
        if any(ast.unparse(d.func if isinstance(d, ast.Call) else d).split('.')[-1] != 'wraps'
               for d in node.decorator_list):
            yield Outcome('fall', None, st.bind(node.name, Opaque('localfunc:' + node.name)))
            return
        yield Outcome('fall', None, st.bind(node.name, self.make_closure(
            node, 'localfunc:' + node.name, st)))

    def st_Try(self, node, st):
        def run_final(out):
            if not node.finalbody:
                yield out
                return
            for f in self.exec_block(node.finalbody, out.state):
                if f.kind == 'fall':
                    yield Outcome(out.kind, out.value, f.state)
                else:
                    yield f

        for out in self.exec_block(node.body, st):
            if out.kind == 'raise':
                handled = False
                for h in node.handlers:
                    if self.handler_matches(h, out.value):
                        handled = True
                        s = out.state
                        if h.name:
                            s = s.bind(h.name, Opaque('exc:' + str(out.value), (), 'obj'))
                        s = s.note(('caught', str(out.value), h.lineno))
                        for o2 in self.exec_block(h.body, s):
                            if h.name and h.name in o2.state.env:
                                # `except E as name`: the name is deleted when the handler
                                # ends, also when an outer binding of it existed before
                                st_ = o2.state.copy()
                                del st_.env[h.name]
                                o2 = Outcome(o2.kind, o2.value, st_)
                            yield from run_final(o2)
                        break
                if not handled:
                    yield from run_final(out)
            elif out.kind == 'fall' and node.orelse:
                for o2 in self.exec_block(node.orelse, out.state):
                    yield from run_final(o2)
            else:
                yield from run_final(out)

    def handler_matches(self, h, exc):
        if h.type is None:
            return True
        types = self.handler_types(h.type)
        for t in types:
            name = self.exc_name(t)
            if exc_is_subclass(str(exc), name):
                return True
        return False

    def handler_types(self, t, depth=0):
        """Exception class expressions of a handler: tuples are flattened and module-level names
        bound to tuples of exception classes (e.g. COMM_ERRORS = (SerialException, OSError)) are
        expanded."""
        if isinstance(t, ast.Tuple):
            out = []
            for e in t.elts:
                out.extend(self.handler_types(e, depth))
            return out
        if isinstance(t, ast.Name) and depth < 3:
            g = self.cur.module.globals.get(t.id)
            if isinstance(g, ast.Tuple):
                return self.handler_types(g, depth + 1)
        if isinstance(t, ast.Attribute) and isinstance(t.value, ast.Name) and depth < 3 and \
                t.value.id == 'self' and self.cur.cls is not None:
            expr, _ = self.cur.cls.lookup_attr(t.attr)
            if isinstance(expr, ast.Tuple):
                return self.handler_types(expr, depth + 1)
        return [t]

    def exc_name(self, t):
        txt = ast.unparse(t)
        mod = self.cur.module
        head = txt.split('.')[0]
        tgt = mod.imports.get(head)
        if tgt and tgt.startswith('ext:'):
            rest = txt.split('.', 1)[1] if '.' in txt else ''
            full = tgt[4:] + ('.' + rest if rest else '')
            return exc_canon(full)
        return exc_canon(txt)

    # ---- loops
    def st_While(self, node, st):
        r = self.hooks.loop(self, node, st)
        if r is not None:
            yield from r
            return
        yield from self.loop_havoc(node, st, test=node.test)

    def st_For(self, node, st):
        r = self.hooks.loop(self, node, st)
        if r is not None:
            yield from r
            return
        # literal iteration space -> exact unrolling
        for it, s in self.ev(node.iter, st):
            if s.raised:
                yield from self._raise_or(s, None)
                continue
            if isinstance(it, GenV):
                n_eff = len(s.effects)
                for items, s1 in self.run_generator(it, s, node):
                    if items is None:
                        yield from self._raise_or(s1, None)
                        continue
                    if len(s1.effects) != n_eff:
                        # the generator's own effects would interleave with the loop body's
                        raise Unsupported('for-loop over a generator with side effects at %s'
                                          % self.cur.loc(node))
                    if len(items) <= getattr(self.hooks, 'unroll_cap', 64):
                        # a generator object held in a variable is consumed by the loop: a
                        # second loop over the same variable continues where this one stopped
                        gname = node.iter.id if isinstance(node.iter, ast.Name) and \
                            node.iter.id in s1.env else None
                        yield from self.unroll_for(node, items, 0, s1, gname)
                    else:
                        yield from self.loop_havoc(node, s1, iter_value=it)
                continue
            items = self.literal_items(it)
            if items is not None and len(items) <= getattr(self.hooks, 'unroll_cap', 64):
                yield from self.unroll_for(node, items, 0, s)
            else:
                yield from self.loop_havoc(node, s, iter_value=it)

    def literal_items(self, it):
        if isinstance(it, Tup):
            return list(it.items)
        if isinstance(it, Inst) and it.cls.kind == 'namedtuple':
            return [v for _, v in it.fields]
        if isinstance(it, ClassRef) and it.cls.kind in ('enum', 'intenum'):
            ms = self.enum_members(it.cls)
            if ms is not None:
                return [EnumV(it.cls, it.qual, n, v, it.cls.kind == 'intenum') for n, v in ms]
        if isinstance(it, DictV):
            return [k for k, _ in it.items]
        if isinstance(it, Str) and it.is_lit() and len(it.text()) <= 64:
            return [Str.lit(ch) for ch in it.text()]      # iterating a literal string: its characters
        if isinstance(it, Opaque) and it.label == 'range' and all(
                isinstance(a, Sym) and a.is_const() for a in it.args):
            vals = [int(a.const_value()) for a in it.args]
            return [Sym.const(i) for i in range(*vals)]
        if isinstance(it, Opaque):
            got = self.hooks.sequence_items(it)
            if got is not None:
                return list(got)
        return None

    def unroll_for(self, node, items, idx, st, gen_name=None):
        if gen_name is not None:
            st = st.bind(gen_name, Tup(tuple(items[idx + 1:]), 'tuple'))
        if idx >= len(items) and items:
            tnames = [n.id for n in ast.walk(node.target) if isinstance(n, ast.Name)]
            final = {n: st.env[n] for n in tnames if n in st.env}
            if final and any(isinstance(n, (ast.Lambda, ast.FunctionDef)) for b in node.body
                             for n in ast.walk(b)):
                st = st.copy()
                for k_, v_ in list(st.env.items()):
                    st.env[k_] = self.rebind_closures(v_, final)
                for k_, v_ in list(st.fields.items()):
                    st.fields[k_] = self.rebind_closures(v_, final)
        if idx >= len(items):
            if node.orelse:
                yield from self.exec_block(node.orelse, st)
            else:
                yield Outcome('fall', None, st)
            return
        for s in self.assign(node.target, items[idx], st):
            for out in self.exec_block(node.body, s):
                if out.kind in ('fall', 'continue'):
                    yield from self.unroll_for(node, items, idx + 1, out.state, gen_name)
                elif out.kind == 'break':
                    yield Outcome('fall', None, out.state)
                else:
                    yield out

    def loop_havoc(self, node, st, test=None, iter_value=None):
        """Sound summary of a loop whose iteration space is not literal: forget every variable /
        self-field assigned in the loop, traverse the body once from that state (collecting its
        effects, returns and raises), and continue after the loop from the havocked state."""
        assigned, fields = assigned_names(node)
        note_gap('loop', 'summarised loop at line %d' % node.lineno, self.cur.loc(node))
        s = st.copy()
        for n in assigned:
            if n in s.env:
                s.env[n] = Opaque('havoc:%s@%d' % (n, node.lineno), (), type_of_hint(s.env[n]))
            else:
                s.env[n] = Opaque('havoc:%s@%d' % (n, node.lineno))
        for f in fields:
            s.fields[('self', f)] = Opaque('havoc:self.%s@%d' % (f, node.lineno))
        s = s.note(('loop-havoc', node.lineno))
        # zero or more iterations happened; loop may exit here
        exit_states = [s]
        # traverse body once
        if isinstance(node, ast.For):
            elem = Opaque('elem@%d' % node.lineno, (iter_value,) if iter_value is not None else ())
            starts = list(self.assign(node.target, elem, s))
        else:
            starts = []
            for c, s1 in self.ev_cond(test, s):
                if s1.raised:
                    yield from self._raise_or(s1, None)
                    continue
                for b, s2 in self.branch(c, s1):
                    if b:
                        starts.append(s2)
                    else:
                        exit_states.append(s2)
        again = []
        for s1 in starts:
            for out in self.exec_block(node.body, s1):
                if out.kind in ('return', 'raise'):
                    yield out
                else:
                    # state after an iteration: keep effects, havoc again
                    s2 = out.state.copy()
                    for n in assigned:
                        s2.env[n] = s.env[n]
                    for f in fields:
                        s2.fields[('self', f)] = s.fields[('self', f)]
                    exit_states.append(s2)
                    if out.kind != 'break' and s2.fields != s.fields:
                        again.append(s2)
        # an iteration changed object state through a callee (fields the loop itself never
        # assigns, e.g. the error latch): the next iteration starts from *that* state - traverse
        # the body once more from each such state so that cross-iteration order is represented
        for s2 in again[:200]:
            if isinstance(node, ast.For):
                elem2 = Opaque('elem\'@%d' % node.lineno,
                               (iter_value,) if iter_value is not None else ())
                starts2 = list(self.assign(node.target, elem2, s2))
            else:
                starts2 = []
                for c, s3 in self.ev_cond(test, s2):
                    if s3.raised:
                        yield from self._raise_or(s3, None)
                        continue
                    for b, s4 in self.branch(c, s3):
                        if b:
                            starts2.append(s4)
            for s3 in starts2:
                for out in self.exec_block(node.body, s3):
                    if out.kind in ('return', 'raise'):
                        yield out
                    else:
                        s4 = out.state.copy()
                        for n in assigned:
                            s4.env[n] = s.env[n]
                        for f in fields:
                            s4.fields[('self', f)] = s.fields[('self', f)]
                        exit_states.append(s4)
        seen = set()
        for s3 in exit_states:
            key = (s3.effects, s3.path)
            if key in seen:
                continue
            seen.add(key)
            if node.orelse:
                yield from self.exec_block(node.orelse, s3)
            else:
                yield Outcome('fall', None, s3)

    # ------------------------------------------------------------------ assignment
    def assign(self, tgt, v, st):
        """Yield states after binding value v to target."""
        if isinstance(tgt, ast.Name):
            yield st.bind(tgt.id, v)
        elif isinstance(tgt, (ast.Tuple, ast.List)) and any(
                isinstance(e, ast.Starred) for e in tgt.elts):
            k = [isinstance(e, ast.Starred) for e in tgt.elts].index(True)
            after = len(tgt.elts) - k - 1
            seq = self.literal_items(v)
            if seq is not None:
                if len(seq) < k + after:
                    yield st.raising('ValueError')
                    return
                items = list(seq[:k]) + [Tup(tuple(seq[k:len(seq) - after]), 'list')] + \
                    list(seq[len(seq) - after:])
            else:
                items = [self.item_of(v, Sym.const(i)) for i in range(k)] + \
                    [self.item_of(v, ('slice', Sym.const(k), Sym.const(-after) if after else NONE,
                                      NONE))] + \
                    [self.item_of(v, Sym.const(i - after)) for i in range(after)]
            states = [st]
            for t, x in zip(tgt.elts, items):
                t = t.value if isinstance(t, ast.Starred) else t
                states = [s2 for s1 in states for s2 in self.assign(t, x, s1)]
            yield from states
        elif isinstance(tgt, (ast.Tuple, ast.List)):
            n = len(tgt.elts)
            if isinstance(v, Tup) and len(v.items) == n:
                items = v.items
            else:
                items = [self.item_of(v, Sym.const(i)) for i in range(n)]
                if isinstance(v, Const) and v.v is None:
                    yield st.raising('TypeError')
                    return
            states = [st]
            for t, x in zip(tgt.elts, items):
                states = [s2 for s1 in states for s2 in self.assign(t, x, s1)]
            yield from states
        elif isinstance(tgt, ast.Attribute) and isinstance(tgt.value, ast.Name) and isinstance(
                st.env.get(tgt.value.id), (Inst, EnumV)):
            raise Unsupported('attribute store on a value object at %s' % self.cur.loc(tgt))
        elif isinstance(tgt, ast.Attribute):
            if isinstance(tgt.value, ast.Name) and tgt.value.id == 'self':
                s = st.setfield(('self', tgt.attr), v)
                yield s.effect(Effect('store', 'self.' + tgt.attr, (v,), tgt.lineno,
                                      self.cur.qualname))
            else:
                for o, s in self.ev(tgt.value, st):
                    if isinstance(o, ExtRef):
                        s = s.note(('ext-store', o.dotted + '.' + tgt.attr, v, tgt.lineno,
                                    self.cur.qualname))
                    yield s.effect(Effect('store', ('attr', o, tgt.attr), (v,), tgt.lineno,
                                          self.cur.qualname))
        elif isinstance(tgt, ast.Subscript):
            for o, s in self.ev(tgt.value, st):
                if s.raised:
                    yield s
                    continue
                for i, s2 in self.ev_index(tgt.slice, s):
                    s3 = s2.effect(Effect('store', ('item', o, i), (v,), tgt.lineno,
                                          self.cur.qualname))
                    if isinstance(tgt.value, ast.Name) and isinstance(o, (Tup, DictV)) and \
                            s3.env.get(tgt.value.id) == o:
                        s3 = s3.bind(tgt.value.id, self._stored_into(o, i, v, tgt))
                    r = self.hooks.stored(self, o, i, v, s3)
                    yield r if r is not None else s3
        else:
            raise Unsupported('assignment target %s' % type(tgt).__name__)

    @staticmethod
    def _const_slice(i):
        """(lo, hi) python ints / None of a step-less slice index with constant bounds, else None."""
        if not (isinstance(i, tuple) and i and i[0] == 'slice' and i[3] == NONE):
            return None
        out = []
        for x in i[1:3]:
            if x == NONE:
                out.append(None)
            elif isinstance(x, Sym) and x.is_const() and x.const_value().denominator == 1:
                out.append(int(x.const_value()))
            else:
                return None
        return tuple(out)

    def _deleted_from(self, o, i, name, lineno):
        """The list value after `del o[i]` (contents forgotten when the position is not known)."""
        if isinstance(o, Tup) and o.kind == 'list':
            items = list(o.items)
            sl = self._const_slice(i)
            k = num_of(i) if not isinstance(i, tuple) else None
            if sl is not None:
                del items[sl[0]:sl[1]]
                return Tup(tuple(items), 'list')
            if isinstance(k, Sym) and k.is_const() and k.const_value().denominator == 1 and \
                    -len(items) <= int(k.const_value()) < len(items):
                del items[int(k.const_value())]
                return Tup(tuple(items), 'list')
        return Opaque('havoc:%s@%d' % (name, lineno), (), 'dict' if isinstance(o, DictV) else 'list')

    def _stored_into(self, o, i, v, tgt):
        """The container value after `o[i] = v` (contents forgotten when the slot is not known)."""
        if isinstance(o, Tup) and o.kind == 'list' and self._const_slice(i) is not None and \
                isinstance(v, Tup):
            lo, hi = self._const_slice(i)
            items = list(o.items)
            items[lo:hi] = list(v.items)
            return Tup(tuple(items), 'list')
        if isinstance(o, Tup) and o.kind == 'list' and isinstance(i, Sym) and i.is_const() and \
                i.const_value().denominator == 1 and \
                -len(o.items) <= int(i.const_value()) < len(o.items):
            items = list(o.items)
            items[int(i.const_value())] = v
            return Tup(tuple(items), 'list')
        if isinstance(o, DictV) and self._const_key(i) and all(
                self._const_key(k) for k, _ in o.items):
            d = [(k, (v if k == i else w)) for k, w in o.items]
            if not any(k == i for k, _ in o.items):
                d.append((i, v))
            return DictV(tuple(d))
        if isinstance(o, DictV) and not isinstance(i, (Opaque, tuple)) and (
                not o.items or (len(o.items) == 1 and o.items[0][0] == i)):
            # a symbolic key into an empty table / onto the one entry with the same key
            return DictV(((i, v),))
        return Opaque('havoc:%s@%d' % (tgt.value.id, tgt.lineno), (),
                      'dict' if isinstance(o, DictV) else 'list')

    # ------------------------------------------------------------------ conditions
    def ev_cond(self, node, st):
        """Evaluate expression in boolean context -> yields (Cond or Const, state).  and/or/not are
        decomposed with short-circuit forking so that path assumptions are atomic."""
        if isinstance(node, ast.BoolOp):
            yield from self._ev_boolop_cond(node.values, isinstance(node.op, ast.And), st)
            return
        if isinstance(node, ast.UnaryOp) and isinstance(node.op, ast.Not):
            for c, s in self.ev_cond(node.operand, st):
                if s.raised:
                    yield None, s
                else:
                    yield neg(c), s
            return
        for v, s in self.ev(node, st):
            if s.raised:
                yield None, s
            else:
                yield to_cond(v), s

    def _ev_boolop_cond(self, values, is_and, st):
        first, rest = values[0], values[1:]
        for c, s in self.ev_cond(first, st):
            if s.raised:
                yield None, s
                continue
            if not rest:
                yield c, s
                continue
            for b, s2 in self.branch(c, s):
                if is_and:
                    if b:
                        yield from self._ev_boolop_cond(rest, is_and, s2)
                    else:
                        yield FALSE, s2
                else:
                    if b:
                        yield TRUE, s2
                    else:
                        yield from self._ev_boolop_cond(rest, is_and, s2)

    def branch(self, c, st):
        """Yield (truth, state) for condition c: decided by folding / path / oracle, else forked."""
        t = self.decide(c, st)
        if t is not None:
            yield t, st
            return
        if isinstance(c, NotC):
            for b, s in self.branch(c.c, st):
                yield (not b), s
            return
        if isinstance(c, AndC):
            yield from self._branch_seq(c.items, True, st)
            return
        if isinstance(c, OrC):
            yield from self._branch_seq(c.items, False, st)
            return
        self.stats['forks'] += 1
        self.paths += 1
        if self.paths > self.max_paths:
            raise Unsupported('path budget exceeded in %s' % self.cur.qualname)
        yield True, st.assume(c, True)
        yield False, st.assume(c, False)

    def _branch_seq(self, items, is_and, st):
        first, rest = items[0], items[1:]
        for b, s in self.branch(first, st):
            if not rest:
                yield b, s
            elif is_and:
                if b:
                    yield from self._branch_seq(rest, is_and, s)
                else:
                    yield False, s
            else:
                if b:
                    yield True, s
                else:
                    yield from self._branch_seq(rest, is_and, s)

    def decide(self, c, st):
        t = fold_cond(c)
        if t is not None:
            return t
        for pc, truth in st.path:
            if pc == c:
                return truth
        r = self.hooks.decide(c, st)
        if r is not None:
            return r
        # implications from path facts about the same comparison subject
        return implied_by_path(c, st.path)

    # ------------------------------------------------------------------ expressions
    def ev(self, node, st):
        if st.raised:
            yield None, st
            return
        if _time.monotonic() > DEADLINE[0]:
            raise Unsupported('analysis time budget exceeded (path or term explosion in %s)'
                              % self.cur.qualname)
        meth = getattr(self, 'ev_' + type(node).__name__, None)
        if meth is None:
            raise Unsupported('expression %s at %s' % (type(node).__name__, self.cur.loc(node)))
        yield from meth(node, st)

    def ev_seq(self, nodes, st):
        if not nodes:
            yield [], st
            return
        for v, s1 in self.ev(nodes[0], st):
            if s1.raised:
                yield None, s1
                continue
            for vs, s2 in self.ev_seq(nodes[1:], s1):
                if s2.raised:
                    yield None, s2
                else:
                    yield [v] + vs, s2

    def ev_Constant(self, node, st):
        yield self.constant(node.value), st

    def ev_Name(self, node, st):
        name = node.id
        if name in st.env:
            yield st.env[name], st
            return
        if name in self.local_names(self.cur):
            # a local that is assigned somewhere in the function but not on this path
            yield None, st.raising('UnboundLocalError').note(('unbound-local', name, node.lineno))
            return
        yield self.global_name(name), st

    _LOCALS = {}

    def local_names(self, fn):
        if isinstance(fn, ModuleFrame):
            return set()
        key = id(fn.node)
        got = self._LOCALS.get(key)
        if got is None:
            names, declared = set(), set()
            stack = list(fn.node.body)
            while stack:
                n = stack.pop()
                if isinstance(n, (ast.FunctionDef, ast.AsyncFunctionDef, ast.ClassDef, ast.Lambda)):
                    if not isinstance(n, ast.Lambda):
                        names.add(n.name)
                    continue
                if isinstance(n, (ast.Global, ast.Nonlocal)):
                    declared.update(n.names)
                if isinstance(n, ast.Name) and isinstance(n.ctx, (ast.Store, ast.Del)):
                    names.add(n.id)
                if isinstance(n, ast.ExceptHandler) and n.name:
                    names.add(n.name)
                if isinstance(n, (ast.Import, ast.ImportFrom)):
                    for al in n.names:
                        names.add((al.asname or al.name).split('.')[0])
                if isinstance(n, (ast.ListComp, ast.SetComp, ast.DictComp, ast.GeneratorExp)):
                    # comprehension targets live in their own scope
                    for g in n.generators:
                        stack.append(g.iter)
                    continue
                stack.extend(ast.iter_child_nodes(n))
            got = (names - declared) - set(fn.params) - {'self'}
            self._LOCALS[key] = got
        return got

    _CONST_CACHE = {}

    def module_constant(self, mod, name):
        """Value of a module-level name bound to a constant expression (literal containers,
        literal arithmetic, method calls on literals, references to other constants) that no
        function of the module can mutate or rebind; None if it is not such a constant."""
        from . import purity
        key = (mod.path, name)
        if key in self._CONST_CACHE:
            return self._CONST_CACHE[key]
        self._CONST_CACHE[key] = None          # recursion guard
        g = mod.globals.get(name)
        val = None
        if g is not None and name not in purity.mutated_names(mod):
            val = self.eval_constant_expr(g, mod, None)
        self._CONST_CACHE[key] = val
        return val

    def eval_constant_expr(self, node, mod, cls):
        frame = ModuleFrame(mod, cls)
        depth = getattr(self, '_const_depth', 0)
        if depth > 6:
            return None
        self._const_depth = depth + 1
        self.stack.append(frame)
        saved_paths = self.paths
        try:
            vals = list(self.ev(node, State()))
        except (AnalysisError, RecursionError, KeyError, TypeError, ValueError, AttributeError):
            vals = []
        finally:
            self.stack.pop()
            self._const_depth = depth
            self.paths = saved_paths
        if len(vals) != 1:
            return None
        v, st = vals[0]
        if st.raised or st.effects or st.path or v is None:
            return None
        if not is_constant_value(v):
            return None
        return v

    def global_name(self, name):
        mod = self.cur.module
        hv = self.hooks.global_value(mod, name)
        if hv is not None:
            return hv
        if name in mod.functions:
            f = mod.functions[name]
            return FuncRef(f, f.qualname)
        if name in mod.classes:
            c = mod.classes[name]
            return ClassRef(c, mod.name + '.' + c.name)
        if name in mod.globals:
            g = mod.globals[name]
            if isinstance(g, ast.Constant):
                return self.constant(g.value)
            cv = self.module_constant(mod, name)
            if cv is not None:
                return cv
            if isinstance(g, (ast.Dict, ast.List, ast.Tuple, ast.Set, ast.DictComp, ast.ListComp,
                              ast.SetComp, ast.GeneratorExp, ast.Lambda)) or (
                    isinstance(g, ast.Call) and isinstance(g.func, ast.Name) and g.func.id in (
                        'dict', 'tuple', 'list', 'frozenset', 'set', 'zip', 'sorted')
                    or isinstance(g, ast.Call) and isinstance(g.func, ast.Name)
                    and g.func.id in mod.classes):
                from . import purity
                if name not in purity.mutated_names(mod):
                    # a table the interpreter should have been able to evaluate
                    note_gap('global', '%s.%s' % (mod.name, name), self.cur.loc())
            return Opaque('global:%s.%s' % (mod.name, name))
        tgt = mod.imports.get(name)
        if tgt:
            if tgt.startswith('pkg:'):
                return PkgMod(tgt[4:])
            if tgt.startswith('pkgattr:'):
                _, m, a = tgt.split(':')
                mm = self.program.modules.get(m)
                if mm and a in mm.functions:
                    return FuncRef(mm.functions[a], mm.functions[a].qualname)
                return Opaque('pkgattr:%s.%s' % (m, a))
            return ExtRef(tgt[4:])
        import builtins as _b
        if not hasattr(_b, name):
            note_gap('name', name, self.cur.loc())
        return ExtRef('builtins.' + name)

    def ev_Attribute(self, node, st):
        for o, s in self.ev(node.value, st):
            if s.raised:
                yield None, s
                continue
            yield from self.get_attr(o, node.attr, s, node)

    def get_attr(self, o, attr, s, node=None):
        if isinstance(o, (Inst, EnumV)):
            yield from self.value_attr(o, attr, s, node)
            return
        if isinstance(o, Sym) and attr == 'value':
            yield o, s          # value of an IntEnum / IntFlag combination
            return
        if isinstance(o, ObjRef):
            hv = self.hooks.field(o, attr, s)
            if hv is not None:
                yield hv, s
                return
            key = (o.label, attr)
            if key in s.fields:
                yield s.fields[key], s
                return
            cls = self.self_cls or o.cls
            if cls is not None:
                m = cls.lookup(attr)
                if m is not None:
                    deco = {ast.unparse(d).split('.')[-1] for d in m.node.decorator_list}
                    if deco & {'property', 'cached_property'}:
                        if m in self.stack or len(self.stack) > 24:
                            note_gap('callee', m.qualname, self.cur.loc(node))
                            yield Opaque('call:' + m.qualname, (o,)), s
                        else:
                            yield from self.call_function(m, [], {}, s, o)
                        return
                    yield Bound(o, attr), s
                    return
                expr, owner = cls.lookup_attr(attr)
                if expr is not None and isinstance(expr, ast.Constant):
                    yield self.constant(expr.value), s
                    return
                if expr is not None and class_attr_is_constant_table(cls, attr, expr):
                    cv = self.eval_constant_expr(expr, owner.module, owner)
                    if cv is not None:
                        yield cv, s
                        return
            yield Opaque('%s.%s' % (o.label, attr)), s
            return
        if isinstance(o, PkgMod):
            mm = self.program.modules.get(o.name)
            if mm:
                if attr in mm.functions:
                    yield FuncRef(mm.functions[attr], mm.functions[attr].qualname), s
                    return
                if attr in mm.classes:
                    yield ClassRef(mm.classes[attr], o.name + '.' + attr), s
                    return
                if attr in mm.globals and isinstance(mm.globals[attr], ast.Constant):
                    yield self.constant(mm.globals[attr].value), s
                    return
                if attr in mm.globals:
                    cv = self.module_constant(mm, attr)
                    if cv is not None:
                        yield cv, s
                        return
            yield Opaque('pkg:%s.%s' % (o.name, attr)), s
            return
        if isinstance(o, ExtRef):
            dotted = o.dotted + '.' + attr
            if dotted in ('math.inf', 'mpmath.inf'):
                yield Sym.var('INF'), s
                return
            if dotted == 'math.pi':
                yield Sym.var('PI'), s
                return
            yield ExtRef(dotted), s
            return
        if isinstance(o, ClassRef):
            m = o.cls.lookup(attr)
            if m is not None:
                yield FuncRef(m, m.qualname), s
                return
            if o.cls.kind in ('enum', 'intenum') and not attr.startswith('_'):
                mem = self.enum_member(o, attr)
                if mem is not None:
                    yield mem, s
                    return
            if attr == '_fields' and o.cls.kind == 'namedtuple':
                yield Tup(tuple(Str.lit(n) for n, _ in o.cls.all_fields())), s
                return
            expr, owner = o.cls.lookup_attr(attr)
            if expr is not None and (isinstance(expr, ast.Constant) or
                                     class_attr_is_constant_table(o.cls, attr, expr)):
                cv = self.eval_constant_expr(expr, owner.module, owner)
                if cv is not None:
                    yield cv, s
                    return
        if isinstance(o, Const) and o.v is None:
            yield None, s.raising('AttributeError').note(('none-deref', attr,
                                                          getattr(node, 'lineno', 0)))
            return
        yield Bound(o, attr), s

    def _display(self, node, kind, st):
        plain = [e.value if isinstance(e, ast.Starred) else e for e in node.elts]
        for vs, s in self.ev_seq(plain, st):
            if s.raised:
                yield None, s
                continue
            items = []
            for e, v in zip(node.elts, vs):
                if isinstance(e, ast.Starred):
                    seq = self.literal_items(v)
                    if seq is None:
                        raise Unsupported('starred expression over an unknown sequence at %s'
                                          % self.cur.loc(node))
                    items.extend(seq)
                else:
                    items.append(v)
            yield Tup(tuple(items), kind), s

    def ev_Tuple(self, node, st):
        yield from self._display(node, 'tuple', st)

    def ev_List(self, node, st):
        yield from self._display(node, 'list', st)

    def ev_Set(self, node, st):
        yield from self._display(node, 'set', st)

    def ev_Dict(self, node, st):
        keys = [k if k is not None else ast.Constant(value=None) for k in node.keys]
        for ks, s in self.ev_seq(keys, st):
            if s.raised:
                yield None, s
                continue
            for vs, s2 in self.ev_seq(node.values, s):
                if s2.raised:
                    yield None, s2
                    continue
                d = []

                def put(k, v):
                    for i_, (kk, _) in enumerate(d):
                        if kk == k:
                            d[i_] = (k, v)
                            return
                    d.append((k, v))
                for kn, k, v in zip(node.keys, ks, vs):
                    if kn is None:          # {**other}
                        if not isinstance(v, DictV):
                            raise Unsupported('dict unpacking of an unknown mapping at %s'
                                              % self.cur.loc(node))
                        for kk, vv in v.items:
                            put(kk, vv)
                    else:
                        put(k, v)
                yield DictV(tuple(d)), s2

    def ev_ListComp(self, node, st):
        # a comprehension over a *literal* iteration space is unrolled exactly; anything else is
        # an opaque list
        if isinstance(node, ast.ListComp) and len(node.generators) > 1 and not any(
                g.is_async for g in node.generators):
            # [e for a in A for b in B] == flatten([[e for b in B] for a in A])
            inner = ast.copy_location(ast.ListComp(elt=node.elt, generators=node.generators[1:]),
                                      node)
            outer = ast.copy_location(ast.ListComp(elt=inner, generators=node.generators[:1]), node)
            for v, s in self.ev_ListComp(outer, st):
                if isinstance(v, Tup) and all(isinstance(x, Tup) for x in v.items):
                    yield Tup(tuple(y for x in v.items for y in x.items), 'list'), s
                elif v is None:
                    yield None, s
                else:
                    yield Opaque('comp@%d' % node.lineno, (), 'list'), s
            return
        if isinstance(node, ast.ListComp) and len(node.generators) == 1 \
                and not node.generators[0].is_async:
            gen = node.generators[0]
            for it, s in self.ev(gen.iter, st):
                if s.raised:
                    yield None, s
                    continue
                items = self.literal_items(it)
                if items is None or len(items) > 64:
                    yield self._symbolic_comp(node, gen, it, s), s
                    continue
                saved = dict(s.env)
                tnames = [n.id for n in ast.walk(gen.target) if isinstance(n, ast.Name)]
                for vals, s2 in self._comp_items(node, gen, items, 0, s):
                    if s2.raised:
                        yield None, s2
                        continue
                    s3 = s2.copy()
                    # the comprehension variables as the last iteration left them (late binding)
                    final = {n: s2.env[n] for n in tnames if n in s2.env}
                    s3.env = dict(saved)
                    yield self.rebind_closures(Tup(tuple(vals), 'list'), final), s3
            return
        yield Opaque('comp@%d' % node.lineno, (), 'list'), st

    def _symbolic_comp(self, node, gen, it, st):
        """A comprehension over a non-literal space: opaque list that records the iterated value,
        the element term and the filter for a symbolic element (side effects of evaluating them
        once are discarded; comprehensions in this code base are pure)."""
        try:
            var = Opaque('compvar@%d' % node.lineno, (it,))
            elt_v = cond_v = None
            for s1 in self.assign(gen.target, var, st):
                if gen.ifs:
                    test = gen.ifs[0] if len(gen.ifs) == 1 else ast.BoolOp(op=ast.And(),
                                                                           values=gen.ifs)
                    vals = list(self.ev(test, s1))
                    if len(vals) == 1 and not vals[0][1].raised:
                        cond_v = vals[0][0]
                vals = list(self.ev(node.elt, s1))
                if len(vals) == 1 and not vals[0][1].raised:
                    elt_v = vals[0][0]
                break
            return Opaque('comp@%d' % node.lineno, (it, elt_v, cond_v), 'list')
        except AnalysisError:
            return Opaque('comp@%d' % node.lineno, (), 'list')

    def _comp_items(self, node, gen, items, idx, st):
        if idx >= len(items):
            yield [], st
            return
        for s1 in self.assign(gen.target, items[idx], st):
            conds = [(TRUE, s1)] if not gen.ifs else self.ev_cond(
                gen.ifs[0] if len(gen.ifs) == 1 else ast.BoolOp(op=ast.And(), values=gen.ifs), s1)
            for c, s2 in conds:
                if s2.raised:
                    yield None, s2
                    continue
                for b, s3 in self.branch(c, s2):
                    if not b:
                        yield from self._comp_items(node, gen, items, idx + 1, s3)
                        continue
                    for v, s4 in self.ev(node.elt, s3):
                        if s4.raised:
                            yield None, s4
                            continue
                        for rest, s5 in self._comp_items(node, gen, items, idx + 1, s4):
                            if s5.raised:
                                yield None, s5
                            else:
                                yield [v] + rest, s5

    def ev_GeneratorExp(self, node, st):
        # literal iteration space: exact unrolling (the result is used as an ordered sequence)
        if not any(g.is_async for g in node.generators):
            as_list = ast.copy_location(ast.ListComp(elt=node.elt, generators=node.generators), node)
            n_eff = len(st.effects)
            for v, s in self.ev_ListComp(as_list, st):
                if isinstance(node, ast.GeneratorExp) and len(s.effects) != n_eff:
                    # a generator expression is lazy: its element expressions (here with side
                    # effects - reads, writes) run only as far as the consumer pulls.  Evaluating
                    # all of them at once over-counts those effects.
                    note_gap('lazy', 'generator expression with side effects evaluated eagerly',
                             self.cur.loc(node))
                if isinstance(v, Tup):
                    yield Tup(v.items, 'tuple' if isinstance(node, ast.GeneratorExp) else 'set'), s
                else:
                    yield v, s
            return
        yield Opaque('comp@%d' % node.lineno, (), 'list'), st

    ev_SetComp = ev_GeneratorExp

    def ev_DictComp(self, node, st):
        if not any(g.is_async for g in node.generators):
            pair = ast.copy_location(ast.Tuple(elts=[node.key, node.value], ctx=ast.Load()), node)
            as_list = ast.copy_location(ast.ListComp(elt=pair, generators=node.generators), node)
            for v, s in self.ev_ListComp(as_list, st):
                if isinstance(v, Tup) and all(isinstance(x, Tup) and len(x.items) == 2
                                              for x in v.items):
                    yield DictV(tuple((x.items[0], x.items[1]) for x in v.items)), s
                else:
                    yield Opaque('comp@%d' % node.lineno, (), 'dict'), s
            return
        yield Opaque('comp@%d' % node.lineno, (), 'dict'), st

    # ------------------------------------------------------------------ generators
    GEN_KEY = ('<generator>', 'yielded')

    def ev_Yield(self, node, st):
        if not getattr(self, 'gen_modes', None):
            raise Unsupported('yield outside a generator run at %s' % self.cur.loc(node))
        vals = [(NONE, st)] if node.value is None else self.ev(node.value, st)
        for v, s in vals:
            if s.raised:
                yield None, s
                continue
            got = s.fields.get(self.GEN_KEY, Tup((), 'list'))
            s2 = s.setfield(self.GEN_KEY, Tup(got.items + (v,), 'list'))
            if self.gen_modes[-1] == 'first':
                # the consumer takes one item and drops the generator: nothing after the first
                # yield runs (finally blocks of the generator do, as on close())
                yield None, s2.raising('GeneratorExit')
            else:
                yield NONE, s2

    def ev_YieldFrom(self, node, st):
        if not getattr(self, 'gen_modes', None):
            raise Unsupported('yield from outside a generator run at %s' % self.cur.loc(node))
        for v, s in self.ev(node.value, st):
            if s.raised:
                yield None, s
                continue
            for items, s2 in self.items_of(v, s, node, first_only=self.gen_modes[-1] == 'first'):
                if s2.raised:
                    yield None, s2
                    continue
                got = s2.fields.get(self.GEN_KEY, Tup((), 'list'))
                s3 = s2.setfield(self.GEN_KEY, Tup(got.items + tuple(items), 'list'))
                if self.gen_modes[-1] == 'first' and items:
                    yield None, s3.raising('GeneratorExit')
                else:
                    yield NONE, s3

    def run_generator(self, g, st, node, first_only=False):
        """Interpret the body of generator g.  Yields (items, state): every item in order, or -
        with first_only - the list holding just the first item (empty if there is none)."""
        if not hasattr(self, 'gen_modes'):
            self.gen_modes = []
        GENERATOR_RUNS[0] += 1
        if g.fn in self.stack or len(self.stack) > 24:
            raise Unsupported('recursive generator %s' % g.qual)
        outer = st.fields.get(self.GEN_KEY)
        s0 = st.copy()
        s0.fields.pop(self.GEN_KEY, None)
        n_eff = len(st.effects)
        self.gen_modes.append('first' if first_only else 'all')
        try:
            cenv, cdef = (dict(g.closure[0]), dict(g.closure[1])) if g.closure else (None, None)
            results = list(self._call_function(g.fn, list(g.args), dict(g.kwargs), s0, g.self_obj,
                                               cenv, cdef))
        finally:
            self.gen_modes.pop()
        for _ret, s in results:
            items = list(s.fields.get(self.GEN_KEY, Tup((), 'list')).items)
            s2 = s.copy()
            s2.fields.pop(self.GEN_KEY, None)
            if outer is not None:
                s2.fields[self.GEN_KEY] = outer
            if s2.raised == 'GeneratorExit' and first_only and items:
                s2.raised = None
                yield items[:1], s2
            elif s2.raised:
                yield None, s2
            else:
                yield (items[:1] if first_only else items), s2

    def items_of(self, v, st, node, first_only=False):
        """Items of an iterable value as (list, state) pairs: literal sequences directly,
        generator objects by interpreting their body; (None, state) if not known."""
        if isinstance(v, GenV):
            yield from self.run_generator(v, st, node, first_only)
            return
        lit = self.literal_items(v)
        yield (lit[:1] if (first_only and lit is not None) else lit), st

    def ev_NamedExpr(self, node, st):
        for v, s in self.ev(node.value, st):
            if s.raised:
                yield None, s
            else:
                yield v, s.bind(node.target.id, v)

    def ev_Lambda(self, node, st):
        yield self.make_closure(node, 'lambda@%d' % node.lineno, st), st

    @staticmethod
    def rebind_closures(v, final):
        """Python closures see variables, not values: a lambda / nested def created inside a
        loop or comprehension and called afterwards reads the loop variable's *last* value.
        Returns v with the captured loop variables of every closure inside it rebound."""
        if isinstance(v, Closure):
            if any(n in final for n, _ in v.captured):
                return Closure(v.fn, v.label, tuple((n, final.get(n, w)) for n, w in v.captured),
                               v.definer, v.defaults)
            return v
        if isinstance(v, Tup):
            items = tuple(Interp.rebind_closures(x, final) for x in v.items)
            return v if all(a is b for a, b in zip(items, v.items)) else Tup(items, v.kind)
        if isinstance(v, DictV):
            items = tuple((k, Interp.rebind_closures(w, final)) for k, w in v.items)
            return v if all(a[1] is b[1] for a, b in zip(items, v.items)) else DictV(items)
        return v

    def make_closure(self, node, label, st):
        from .model import FuncInfo
        if isinstance(node, ast.Lambda):
            fdef = ast.FunctionDef(name='<%s>' % label, args=node.args,
                                   body=[ast.Return(value=node.body)], decorator_list=[],
                                   returns=None, type_comment=None)
            ast.copy_location(fdef, node)
            ast.copy_location(fdef.body[0], node.body)
            fdef.end_lineno = getattr(node, 'end_lineno', node.lineno)
            body_nodes = [node.body]
        else:
            fdef = node
            body_nodes = node.body
        a = fdef.args
        params = {x.arg for x in a.posonlyargs + a.args + a.kwonlyargs}
        if a.vararg:
            params.add(a.vararg.arg)
        if a.kwarg:
            params.add(a.kwarg.arg)
        free = []
        for b in body_nodes:
            for n in ast.walk(b):
                if isinstance(n, ast.Name) and isinstance(n.ctx, ast.Load) and n.id not in params \
                        and n.id in st.env and n.id not in free:
                    free.append(n.id)
        fn = FuncInfo(self.cur.module, None, fdef)
        fn.qualname = '%s.<%s>' % (self.cur.qualname, label)
        dvals = []
        for pname, dexpr in fn.defaults().items():
            got = list(self.ev(dexpr, st))
            if len(got) != 1 or got[0][1].raised or got[0][1].effects != st.effects:
                raise Unsupported('default of %s in %s is not a plain value' % (pname, label))
            dvals.append((pname, got[0][0]))
        return Closure(fn, label, tuple((n, st.env[n]) for n in free), self.cur.qualname,
                       tuple(dvals))

    def ev_JoinedStr(self, node, st):
        exprs = [v.value for v in node.values if isinstance(v, ast.FormattedValue)]
        for vals0, s0 in self.ev_seq(exprs, st):
            if s0.raised:
                yield None, s0
                continue
            yield from self._joined(node, vals0, s0)

    def text_of_value(self, vals, st, node):
        """Replace value objects in `vals` by the text str() gives for them (their __str__,
        inlined); yields (vals, state)."""
        def rec(k, acc, s):
            if k == len(vals):
                yield acc, s
                return
            v = vals[k]
            if isinstance(v, EnumV) and v.intlike:
                yield from rec(k + 1, acc + [v.value], s)
                return
            if isinstance(v, (Inst, EnumV)):
                m = v.cls.lookup('__str__') or v.cls.lookup('__format__')
                if m is not None and m.name == '__str__' and m not in self.stack:
                    for r, s2 in self.call_function(m, [], {}, s, v):
                        if s2.raised:
                            yield None, s2
                        else:
                            yield from rec(k + 1, acc + [r], s2)
                    return
                if isinstance(v, EnumV):
                    yield from rec(k + 1, acc + [Str.lit('%s.%s' % (v.cls.name, v.name))], s)
                    return
                note_gap('format', describe(v), self.cur.loc(node))
            yield from rec(k + 1, acc + [v], s)
        yield from rec(0, [], st)

    def _joined(self, node, vals0, s0):
        for vals, s in self.text_of_value(list(vals0), s0, node):
            if vals is None:
                yield None, s
                continue
            parts, it = [], iter(vals)
            for v in node.values:
                if isinstance(v, ast.Constant):
                    parts.append(v.value)
                else:
                    val = next(it)
                    spec = ''
                    if v.format_spec is not None:
                        spec = ''.join(p.value for p in v.format_spec.values
                                       if isinstance(p, ast.Constant))
                    if v.conversion not in (-1, 115):
                        spec = '!%s:%s' % (chr(v.conversion), spec)
                    parts.extend(fmt_parts(val, spec))
            yield Str.make(parts), s

    def ev_IfExp(self, node, st):
        for c, s in self.ev_cond(node.test, st):
            if s.raised:
                yield None, s
                continue
            for b, s2 in self.branch(c, s):
                yield from self.ev(node.body if b else node.orelse, s2)

    def ev_UnaryOp(self, node, st):
        if isinstance(node.op, ast.Not):
            for c, s in self.ev_cond(node.operand, st):
                if s.raised:
                    yield None, s
                else:
                    yield neg(c), s
            return
        for v, s in self.ev(node.operand, st):
            if s.raised:
                yield None, s
                continue
            if isinstance(node.op, ast.USub):
                yield (-v if isinstance(v, Sym) else Opaque('neg', (v,), type_of(v))), s
            elif isinstance(node.op, ast.UAdd):
                yield v, s
            else:
                yield Opaque('invert', (v,), 'int'), s

    def ev_BoolOp(self, node, st):
        # value context: evaluate all operands without forking when every operand is a condition
        is_and = isinstance(node.op, ast.And)
        yield from self._ev_boolop_value(node.values, is_and, st)

    def _ev_boolop_value(self, values, is_and, st):
        first, rest = values[0], values[1:]
        for v, s in self.ev(first, st):
            if s.raised:
                yield None, s
                continue
            if not rest:
                yield v, s
                continue
            c = to_cond(v)
            t = self.decide(c, s)
            if t is not None:
                if t == is_and:
                    yield from self._ev_boolop_value(rest, is_and, s)
                else:
                    yield v, s
                continue
            if isinstance(v, COND_TYPES):
                # pure boolean operand: build a compound condition without forking
                for w, s2 in self._ev_boolop_value(rest, is_and, s):
                    if s2.raised:
                        yield None, s2
                    elif isinstance(w, COND_TYPES) or isinstance(w, Const):
                        items = (v,) + ((w.items if isinstance(w, (AndC if is_and else OrC))
                                         else (w,)))
                        yield (AndC(items) if is_and else OrC(items)), s2
                    else:
                        yield Opaque('boolop', (v, w)), s2
                continue
            for b, s2 in self.branch(c, s):
                if b == is_and:
                    yield from self._ev_boolop_value(rest, is_and, s2)
                else:
                    yield v, s2

    def ev_Compare(self, node, st):
        for vals, s in self.ev_seq([node.left] + list(node.comparators), st):
            if s.raised:
                yield None, s
                continue
            conds = []
            bad = False
            for i, op in enumerate(node.ops):
                if isinstance(op, (ast.Lt, ast.LtE, ast.Gt, ast.GtE)) and \
                        (vals[i] == NONE or vals[i + 1] == NONE):
                    bad = True      # ordering comparison with None raises TypeError
                conds.append(self.compare(op, vals[i], vals[i + 1]))
            if bad:
                yield None, s.raising('TypeError').note(('none-deref', 'ordering comparison',
                                                         node.lineno))
                continue
            yield (conds[0] if len(conds) == 1 else AndC(tuple(conds))), s

    def compare(self, op, a, b):
        if isinstance(a, EnumV) and isinstance(b, EnumV) and isinstance(
                op, (ast.Is, ast.IsNot, ast.Eq, ast.NotEq)):
            same = a.qual == b.qual and a.name == b.name
            if a.qual != b.qual and a.intlike and b.intlike:
                same = a.value == b.value
            return Const(same if isinstance(op, (ast.Is, ast.Eq)) else not same)
        if isinstance(a, EnumV) != isinstance(b, EnumV) and isinstance(op, (ast.Is, ast.IsNot)) \
                and (a == NONE or b == NONE):
            return Const(isinstance(op, ast.IsNot))
        if not isinstance(op, (ast.Is, ast.IsNot, ast.In, ast.NotIn)):
            a, b = num_of(a), num_of(b)
            # a bool compared with a number is the number 1 / 0 (`count < verbose`)
            if isinstance(a, Sym) and isinstance(b, Const) and isinstance(b.v, bool):
                b = Sym.const(int(b.v))
            elif isinstance(b, Sym) and isinstance(a, Const) and isinstance(a.v, bool):
                a = Sym.const(int(a.v))
            if isinstance(a, Inst) and a.cls.kind == 'namedtuple':
                a = Tup(tuple(v for _, v in a.fields))
            if isinstance(b, Inst) and b.cls.kind == 'namedtuple':
                b = Tup(tuple(v for _, v in b.fields))
        if isinstance(op, ast.Is):
            if b == NONE:
                return IsNone(a)
            if a == NONE:
                return IsNone(b)
            return Cmp('is', a, b)
        if isinstance(op, ast.IsNot):
            if b == NONE:
                return neg(IsNone(a))
            if a == NONE:
                return neg(IsNone(b))
            return neg(Cmp('is', a, b))
        if isinstance(op, (ast.In, ast.NotIn)) and isinstance(b, Opaque) and b.label == 'range' \
                and len(b.args) in (1, 2) and all(isinstance(x, Sym) for x in b.args) and \
                isinstance(num_of(a), Sym):
            # an integer-valued term in range(lo, hi)  <=>  lo <= term < hi
            v = num_of(a)
            if is_intvalued(v):
                lo = b.args[0] if len(b.args) == 2 else Sym.const(0)
                hi = b.args[-1]
                c = AndC((norm_cmp('>=', v, lo), norm_cmp('<', v, hi)))
                return c if isinstance(op, ast.In) else neg(c)
        if isinstance(op, ast.In):
            return In(a, b)
        if isinstance(op, ast.NotIn):
            return neg(In(a, b))
        sym = {ast.Lt: '<', ast.LtE: '<=', ast.Gt: '>', ast.GtE: '>=', ast.Eq: '==',
               ast.NotEq: '!='}[type(op)]
        if sym in ('==', '!=') and isinstance(a, COND_TYPES + (Const,)) and \
                isinstance(b, COND_TYPES + (Const,)) and (isinstance(a, COND_TYPES) or
                                                           isinstance(b, COND_TYPES)):
            ca = a if isinstance(a, COND_TYPES) else Const(bool(a.v))
            cb = b if isinstance(b, COND_TYPES) else Const(bool(b.v))
            differ = OrC((AndC((ca, neg(cb))), AndC((neg(ca), cb))))
            return differ if sym == '!=' else neg(differ)
        if isinstance(a, Tup) and isinstance(b, Tup) and a.items and len(a.items) == len(b.items) \
                and sym in ('<', '<=', '>', '>=') and all(
                    isinstance(x, Sym) for x in a.items + b.items):
            return lexicographic(sym, a.items, b.items)
        return norm_cmp(sym, a, b)

    def ev_BinOp(self, node, st):
        for ab, s in self.ev_seq([node.left, node.right], st):
            if s.raised:
                yield None, s
                continue
            a, b = num_of(ab[0]), num_of(ab[1])
            if self.trace_arith:
                s = s.note(('arith', type(node.op).__name__, node.lineno, self.cur.qualname))
            if (isinstance(a, COND_TYPES) or isinstance(b, COND_TYPES)) and isinstance(
                    node.op, (ast.Add, ast.Sub, ast.Mult)) and all(
                        isinstance(x, COND_TYPES + (Sym, Const)) for x in (a, b)):
                # arithmetic on truth values, e.g. the sign idiom (x > 0) - (x < 0): case split
                yield from self._bool_arith(node, a, b, s)
                continue
            yield from self.binop(node.op, a, b, s, node)

    def _bool_arith(self, node, a, b, s):
        def numeric(v, st):
            if isinstance(v, COND_TYPES):
                for t, s2 in self.branch(v, st):
                    yield Sym.const(1 if t else 0), s2
            elif isinstance(v, Const) and isinstance(v.v, bool):
                yield Sym.const(int(v.v)), st
            else:
                yield v, st
        for av, s1 in numeric(a, s):
            for bv, s2 in numeric(b, s1):
                if isinstance(av, Sym) and isinstance(bv, Sym):
                    yield from self.binop(node.op, av, bv, s2, node)
                else:
                    yield Opaque('binop:' + type(node.op).__name__, (av, bv), 'num'), s2

    def binop(self, op, a, b, s, node=None):
        if isinstance(a, Sym) and isinstance(b, Sym):
            try:
                if isinstance(op, ast.Add):
                    yield a + b, s
                elif isinstance(op, ast.Sub):
                    yield a - b, s
                elif isinstance(op, ast.Mult):
                    yield a * b, s
                elif isinstance(op, ast.Div):
                    if b.is_const() and b.const_value() == 0:
                        yield None, s.raising('ZeroDivisionError')
                    else:
                        s = s.note(('div', b, getattr(node, 'lineno', 0)))
                        yield a / b, s
                elif isinstance(op, ast.FloorDiv):
                    yield mk_func('FLOOR', a / b), s
                elif isinstance(op, ast.Mod):
                    yield a - b * mk_func('FLOOR', a / b), s
                elif isinstance(op, ast.Pow) and b.is_const() and b.const_value().denominator == 1:
                    yield a ** int(b.const_value()), s
                elif isinstance(op, (ast.BitAnd, ast.BitOr, ast.BitXor, ast.LShift, ast.RShift)):
                    name = type(op).__name__.upper()
                    if a.is_const() and b.is_const():
                        x, y = int(a.const_value()), int(b.const_value())
                        r = {'BITAND': x & y, 'BITOR': x | y, 'BITXOR': x ^ y,
                             'LSHIFT': x << y, 'RSHIFT': x >> y}[name]
                        yield Sym.const(r), s
                    else:
                        yield Sym.func(name, a, b), s
                else:
                    yield Opaque('binop:' + type(op).__name__, (a, b), 'num'), s
            except ZeroDivisionError:
                yield None, s.raising('ZeroDivisionError')
            return
        if isinstance(op, ast.Add):
            ta, tb = type_of(a), type_of(b)
            if isinstance(a, Str) or isinstance(b, Str) or (ta == 'str' and tb == 'str'):
                if ta in ('none',) or tb in ('none',) or ta == 'bytes' or tb == 'bytes':
                    yield None, s.raising('TypeError')
                    return
                pa = a.parts if isinstance(a, Str) else (Slot(a),)
                pb = b.parts if isinstance(b, Str) else (Slot(b),)
                yield Str.make(pa + pb), s
                return
            if isinstance(a, Tup) and isinstance(b, Tup):
                yield Tup(a.items + b.items, a.kind), s
                return
        if isinstance(op, ast.Mod) and isinstance(a, Str):
            yield Opaque('percent-format', (a, b), 'str'), s
            return
        if isinstance(op, ast.Mult) and isinstance(a, Tup) and isinstance(b, Sym) and b.is_const():
            yield Tup(a.items * int(b.const_value()), a.kind), s
            return
        if (a == NONE or b == NONE):
            yield None, s.raising('TypeError')
            return
        ty = 'num' if 'num' in (type_of(a), type_of(b)) else 'unknown'
        yield Opaque('binop:' + type(op).__name__, (a, b), ty), s

    # ---- subscripts
    def ev_index(self, sl, st):
        if isinstance(sl, ast.Slice):
            parts = [sl.lower, sl.upper, sl.step]
            nodes = [p for p in parts if p is not None]
            for vals, s in self.ev_seq(nodes, st):
                if s.raised:
                    yield None, s
                    continue
                it = iter(vals)
                out = tuple((next(it) if p is not None else NONE) for p in parts)
                yield ('slice',) + out, s
        else:
            yield from self.ev(sl, st)

    def ev_Subscript(self, node, st):
        for o, s in self.ev(node.value, st):
            if s.raised:
                yield None, s
                continue
            for i, s2 in self.ev_index(node.slice, s):
                if s2.raised:
                    yield None, s2
                    continue
                if o == NONE:
                    yield None, s2.raising('TypeError').note(('none-deref', 'subscript',
                                                              node.lineno))
                    continue
                if isinstance(i, COND_TYPES) and isinstance(o, Tup) and len(o.items) == 2:
                    # table[condition]: False -> element 0, True -> element 1
                    for b_, s3 in self.branch(i, s2):
                        yield o.items[1 if b_ else 0], s3
                    continue
                if isinstance(i, COND_TYPES) and isinstance(o, DictV):
                    keyed = {k.v: v for k, v in o.items if isinstance(k, Const)}
                    ints = {int(k.const_value()): v for k, v in o.items
                            if isinstance(k, Sym) and k.is_const() and k.const_value() in (0, 1)}
                    if True in keyed and False in keyed or (0 in ints and 1 in ints):
                        for b_, s3 in self.branch(i, s2):
                            yield (keyed[b_] if b_ in keyed else ints[int(b_)]), s3
                        continue
                if isinstance(o, Tup) and isinstance(i, tuple) and i and i[0] == 'slice' and \
                        i[1] in (NONE, Sym.const(0)) and i[3] == NONE and isinstance(i[2], Sym) \
                        and not i[2].is_const() and len(o.items) <= 8:
                    # seq[:n] with a symbolic n over a known sequence: one case per length
                    yield from self._prefix_cases(o, i[2], 0, s2)
                    continue
                if isinstance(o, DictV) and self._const_key(num_of(i)) and all(
                        self._const_key(k) for k, _ in o.items) and not any(
                            k == num_of(i) for k, _ in o.items):
                    yield None, s2.raising('KeyError')
                    continue
                if isinstance(o, Tup) and isinstance(num_of(i), Sym) and num_of(i).is_const() and \
                        num_of(i).const_value().denominator == 1 and not (
                            -len(o.items) <= int(num_of(i).const_value()) < len(o.items)):
                    yield None, s2.raising('IndexError')
                    continue
                yield self.item_of(o, i), s2

    def _prefix_cases(self, o, n, k, st):
        """seq[:n] for a known sequence and a symbolic integer n: one case per resulting length
        (a negative n counts from the end)."""
        L = len(o.items)
        for b, s in self.branch(norm_cmp('<', n, Sym.const(0)), st):
            if not b:
                yield from self._prefix_from(o, n, 0, s)
                continue

            def neg_from(j, s_):
                if j >= L:
                    yield Tup((), o.kind), s_           # n <= -L
                    return
                for b2, s2 in self.branch(norm_cmp('>=', n, Sym.const(-j)), s_):
                    if b2:
                        yield Tup(o.items[:L - j], o.kind), s2
                    else:
                        yield from neg_from(j + 1, s2)
            yield from neg_from(1, s)

    def _prefix_from(self, o, n, k, st):
        if k >= len(o.items):
            yield Tup(o.items, o.kind), st
            return
        for b, s in self.branch(norm_cmp('<=', n, Sym.const(k)), st):
            if b:
                yield Tup(o.items[:k], o.kind), s
            else:
                yield from self._prefix_from(o, n, k + 1, s)

    def item_of(self, o, i):
        if isinstance(o, Inst) and o.cls.kind == 'namedtuple':
            o = Tup(tuple(v for _, v in o.fields))
        i = num_of(i) if not isinstance(i, tuple) else i
        if isinstance(i, tuple) and i and i[0] == 'slice':
            lo, hi, step = i[1:]
            if isinstance(o, Str) and o.is_lit() and all(
                    x == NONE or (isinstance(x, Sym) and x.is_const()) for x in (lo, hi, step)):
                f = lambda x: None if x == NONE else int(x.const_value())
                return Str.lit(o.text()[f(lo):f(hi):f(step)])
            if isinstance(o, Tup) and all(
                    x == NONE or (isinstance(x, Sym) and x.is_const()) for x in (lo, hi, step)):
                f = lambda x: None if x == NONE else int(x.const_value())
                return Tup(o.items[f(lo):f(hi):f(step)], o.kind)
            ty = type_of(o) if type_of(o) in ('str', 'bytes', 'list', 'tuple') else 'unknown'
            return Opaque('slice', (o, lo, hi, step), ty)
        if isinstance(i, Const) and isinstance(i.v, bool):
            i = Sym.const(int(i.v))
        if isinstance(i, Sym) and i.is_const() and i.const_value().denominator == 1:
            k = int(i.const_value())
            if isinstance(o, Tup) and -len(o.items) <= k < len(o.items):
                return o.items[k]
            if isinstance(o, Str) and o.is_lit() and -len(o.text()) <= k < len(o.text()):
                return Str.lit(o.text()[k])
        if isinstance(o, DictV):
            for k, v in o.items:
                if k == i:
                    return v
        ty = 'str' if type_of(o) == 'str' else 'unknown'
        if isinstance(o, DictV) and o.items and all(isinstance(v, Sym) for _, v in o.items):
            ty = 'num'        # a table of numbers: whatever the key, the entry is a number
        elif isinstance(o, DictV) and o.items and all(
                isinstance(v, Str) or type_of(v) == 'str' for _, v in o.items):
            ty = 'str'
        return Opaque('item', (o, i), ty)

    # ---- calls
    LIST_MUTATORS = ('append', 'pop', 'insert', 'extend', 'clear')

    def _kwargs_of(self, node, kvals):
        """keyword arguments of a call, `**mapping` expanded when its keys are literal."""
        kwargs = {}
        for k, v in zip(node.keywords, kvals):
            if k.arg is not None:
                kwargs[k.arg] = v
                continue
            if isinstance(v, DictV) and all(isinstance(kk, Str) and kk.is_lit()
                                            for kk, _ in v.items):
                for kk, vv in v.items:
                    kwargs[kk.text()] = vv
                continue
            raise Unsupported('**kwargs call with an unknown mapping at %s' % self.cur.loc(node))
        return kwargs

    def lazy_genexp(self, node, st):
        """A generator expression as a generator object (its loops and tests run only as far as
        the consumer asks): used where laziness matters, i.e. under next()."""
        body = ast.Expr(value=ast.Yield(value=node.elt))
        for gen in reversed(node.generators):
            for test in reversed(gen.ifs):
                body = ast.If(test=test, body=[body], orelse=[])
            body = ast.For(target=gen.target, iter=gen.iter, body=[body], orelse=[],
                           type_comment=None)
        fdef = ast.FunctionDef(name='<genexpr@%d>' % node.lineno,
                               args=ast.arguments(posonlyargs=[], args=[], vararg=None,
                                                  kwonlyargs=[], kw_defaults=[], kwarg=None,
                                                  defaults=[]),
                               body=[body], decorator_list=[], returns=None, type_comment=None)
        ast.copy_location(fdef, node)
        for n in ast.walk(fdef):
            if not hasattr(n, 'lineno'):
                ast.copy_location(n, node)
        ast.fix_missing_locations(fdef)
        clo = self.make_closure(fdef, 'genexpr@%d' % node.lineno, st)
        return GenV(clo.fn, clo.fn.qualname, (), (), None,
                    (tuple(sorted(clo.captured)), ()))

    def ev_Call(self, node, st):
        if isinstance(node.func, ast.Name) and node.func.id == 'next' and node.args and \
                isinstance(node.args[0], ast.GeneratorExp) and 'next' not in st.env and \
                not node.keywords and len(node.args) <= 2:
            g = self.lazy_genexp(node.args[0], st)
            for rest, s in self.ev_seq(list(node.args[1:]), st):
                if s.raised:
                    yield None, s
                    continue
                yield from self._call_with_generators(ExtRef('builtins.next'), [g] + list(rest),
                                                      {}, s, node)
            return
        if any(isinstance(a, ast.Starred) for a in node.args):
            yield from self._ev_call_starred(node, st)
            return
        f = node.func
        if isinstance(f, ast.Attribute) and isinstance(f.value, ast.Name) \
                and f.attr in self.LIST_MUTATORS and isinstance(st.env.get(f.value.id), Tup) \
                and st.env[f.value.id].kind == 'list' and not node.keywords:
            yield from self._list_mutation(node, f.value.id, f.attr, st)
            return
        if isinstance(f, ast.Attribute) and isinstance(f.value, ast.Name) \
                and isinstance(st.env.get(f.value.id), (Tup, DictV)) \
                and f.attr in self.OTHER_MUTATORS:
            yield from self._container_mutation(node, f.value.id, f.attr, st)
            return
        if isinstance(f, ast.Attribute) and isinstance(f.value, ast.Attribute) \
                and isinstance(f.value.value, ast.Name) and f.value.value.id == 'self' \
                and isinstance(st.env.get('self'), ObjRef) \
                and isinstance(st.fields.get(('self', f.value.attr)), (Tup, DictV)) \
                and f.attr in self.OTHER_MUTATORS and not node.keywords \
                and not any(isinstance(a, ast.Starred) for a in node.args) \
                and self.hooks.field(st.env['self'], f.value.attr, st) is None:
            # self.table.append(x) on a container the analysis has followed so far: the field
            # holds the updated container afterwards (forgotten when the update is not modelled)
            key = ('self', f.value.attr)
            for args, s2 in self.ev_seq(list(node.args), st):
                if s2.raised:
                    yield None, s2
                    continue
                cur = s2.fields[key]
                res, new = self._mutated(cur, f.attr, args, {})
                if res == 'raise':
                    yield None, s2.raising(new)
                    continue
                eff = Effect('call', Bound(Opaque('self.' + f.value.attr, (), 'list'), f.attr),
                             tuple(args), node.lineno, self.cur.qualname)
                if new is None:
                    ty = 'dict' if isinstance(cur, DictV) else 'list'
                    yield Opaque('m:' + f.attr, (cur,) + tuple(args)), s2.setfield(
                        key, Opaque('havoc:self.%s@%d' % (f.value.attr, node.lineno), (), ty)
                    ).effect(eff)
                    continue
                yield res, s2.setfield(key, new).effect(eff)
            return
        if isinstance(f, ast.Attribute) and isinstance(f.value, ast.Subscript) \
                and isinstance(f.value.value, ast.Attribute) \
                and isinstance(f.value.value.value, ast.Name) and f.value.value.value.id == 'self' \
                and isinstance(st.env.get('self'), ObjRef) \
                and isinstance(st.fields.get(('self', f.value.value.attr)), (Tup, DictV)) \
                and f.attr in self.OTHER_MUTATORS and not node.keywords \
                and not any(isinstance(a, ast.Starred) for a in node.args) \
                and self.hooks.field(st.env['self'], f.value.value.attr, st) is None:
            # self.table[k].append(x): the inner container of a field-held container changes in
            # place; exact for a known position, otherwise the field is forgotten (never stale)
            key = ('self', f.value.value.attr)
            for idx, s1 in self.ev(f.value.slice, st):
                if s1.raised:
                    yield None, s1
                    continue
                for args, s2 in self.ev_seq(list(node.args), s1):
                    if s2.raised:
                        yield None, s2
                        continue
                    outer = s2.fields[key]
                    idx_ = num_of(idx)
                    new_outer, res = None, NONE
                    if isinstance(outer, Tup) and isinstance(idx_, Sym) and idx_.is_const() and \
                            idx_.const_value().denominator == 1 and \
                            -len(outer.items) <= int(idx_.const_value()) < len(outer.items) and \
                            isinstance(outer.items[int(idx_.const_value())], (Tup, DictV)):
                        k_ = int(idx_.const_value())
                        res, new_inner = self._mutated(outer.items[k_], f.attr, args, {})
                        if res == 'raise':
                            yield None, s2.raising(new_inner)
                            continue
                        if new_inner is not None:
                            items = list(outer.items)
                            items[k_] = new_inner
                            new_outer = Tup(tuple(items), outer.kind)
                    eff = Effect('call', Bound(Opaque('item', (Opaque('self.' + key[1], (), 'list'),
                                                                idx), 'list'), f.attr),
                                 tuple(args), node.lineno, self.cur.qualname)
                    if new_outer is None:
                        ty = 'dict' if isinstance(outer, DictV) else 'list'
                        yield Opaque('m:' + f.attr, (outer, idx) + tuple(args)), s2.setfield(
                            key, Opaque('havoc:self.%s@%d' % (key[1], node.lineno), (), ty)
                        ).effect(eff)
                        continue
                    yield res, s2.setfield(key, new_outer).effect(eff)
            return
        if isinstance(f, ast.Attribute) and isinstance(f.value, ast.Subscript) \
                and isinstance(f.value.value, ast.Name) \
                and isinstance(st.env.get(f.value.value.id), (Tup, DictV)) \
                and f.attr in self.OTHER_MUTATORS and not node.keywords \
                and not any(isinstance(a, ast.Starred) for a in node.args):
            yield from self._nested_mutation(node, f.value.value.id, f.value.slice, f.attr, st)
            return
        for f, s in self.ev(node.func, st):
            if s.raised:
                yield None, s
                continue
            for args, s2 in self.ev_seq(list(node.args), s):
                if s2.raised:
                    yield None, s2
                    continue
                for kvals, s3 in self.ev_seq([k.value for k in node.keywords], s2):
                    if s3.raised:
                        yield None, s3
                        continue
                    kwargs = self._kwargs_of(node, kvals)
                    if not getattr(self.hooks, 'list_writeback', False):
                        yield from self.do_call(f, args, kwargs, s3, node)
                        continue
                    self._writeback = None
                    for res, s4 in self.do_call(f, args, kwargs, s3, node):
                        wb, self._writeback = self._writeback, None
                        if wb and isinstance(f, FuncRef) and wb[0] is f.fn:
                            off = 0
                            for k_, (a0, a1) in wb[1].items():
                                an = node.args[k_ + off] if k_ + off < len(node.args) else None
                                if isinstance(an, ast.Name) and s4.env.get(an.id) == a0:
                                    s4 = s4.bind(an.id, a1)
                        yield res, s4

    def _nested_mutation(self, node, name, index_node, meth, st):
        """`table[k].append(x)` and the like on a container held in a local variable: the inner
        container is updated in place, so the outer value changes too.  Exact for a constant
        position holding a known inner container, otherwise the variable is forgotten."""
        for idx, s in self.ev(index_node, st):
            if s.raised:
                yield None, s
                continue
            for args, s2 in self.ev_seq(list(node.args), s):
                if s2.raised:
                    yield None, s2
                    continue
                outer = s2.env[name]
                idx_ = num_of(idx)
                new_outer, res = None, NONE
                if isinstance(outer, Tup) and isinstance(idx_, Sym) and idx_.is_const() and \
                        idx_.const_value().denominator == 1 and \
                        -len(outer.items) <= int(idx_.const_value()) < len(outer.items):
                    k = int(idx_.const_value())
                    inner = outer.items[k]
                    if isinstance(inner, (Tup, DictV)):
                        res, new_inner = self._mutated(inner, meth, args, {})
                        if res == 'raise':
                            yield None, s2.raising(new_inner)
                            continue
                        if new_inner is not None:
                            items = list(outer.items)
                            items[k] = new_inner
                            new_outer = Tup(tuple(items), outer.kind)
                elif isinstance(outer, DictV) and self._const_key(idx) and \
                        all(self._const_key(kk) for kk, _ in outer.items):
                    hit = [w for kk, w in outer.items if kk == idx]
                    if hit and isinstance(hit[0], (Tup, DictV)):
                        res, new_inner = self._mutated(hit[0], meth, args, {})
                        if res == 'raise':
                            yield None, s2.raising(new_inner)
                            continue
                        if new_inner is not None:
                            new_outer = DictV(tuple((kk, new_inner if kk == idx else w)
                                                    for kk, w in outer.items))
                if new_outer is None:
                    ty = 'dict' if isinstance(outer, DictV) else 'list'
                    yield Opaque('m:' + meth, (outer, idx) + tuple(args)), s2.bind(
                        name, Opaque('havoc:%s@%d' % (name, node.lineno), (), ty))
                    continue
                yield res, s2.bind(name, new_outer)

    def _ev_call_starred(self, node, st):
        """f(a, *seq, b): the starred value must be a sequence with known elements."""
        for f, s in self.ev(node.func, st):
            if s.raised:
                yield None, s
                continue
            plain = [a.value if isinstance(a, ast.Starred) else a for a in node.args]
            for vals, s2 in self.ev_seq(plain, s):
                if s2.raised:
                    yield None, s2
                    continue
                args = []
                for a, v in zip(node.args, vals):
                    if isinstance(a, ast.Starred):
                        seq = self.literal_items(v)
                        if seq is None:
                            raise Unsupported('star-args of an unknown sequence at %s'
                                              % self.cur.loc(node))
                        args.extend(seq)
                    else:
                        args.append(v)
                for kvals, s3 in self.ev_seq([k.value for k in node.keywords], s2):
                    if s3.raised:
                        yield None, s3
                        continue
                    kwargs = self._kwargs_of(node, kvals)
                    if not getattr(self.hooks, 'list_writeback', False):
                        yield from self.do_call(f, args, kwargs, s3, node)
                        continue
                    self._writeback = None
                    for res, s4 in self.do_call(f, args, kwargs, s3, node):
                        wb, self._writeback = self._writeback, None
                        if wb and isinstance(f, FuncRef) and wb[0] is f.fn:
                            off = 0
                            for k_, (a0, a1) in wb[1].items():
                                an = node.args[k_ + off] if k_ + off < len(node.args) else None
                                if isinstance(an, ast.Name) and s4.env.get(an.id) == a0:
                                    s4 = s4.bind(an.id, a1)
                        yield res, s4

    OTHER_MUTATORS = ('update', 'setdefault', 'popitem', 'add', 'discard', 'remove', 'sort',
                      'reverse', 'popleft', 'appendleft', 'extendleft', 'pop', 'clear',
                      'append', 'extend', 'insert', 'intersection_update', 'difference_update',
                      'symmetric_difference_update', 'rotate')

    def _container_mutation(self, node, name, meth, st):
        """In-place mutation of a dict / set / list held in a local variable: modelled exactly for
        the common shapes, otherwise the variable's contents are forgotten (never kept stale)."""
        starred = any(isinstance(a, ast.Starred) for a in node.args)
        plain = [a.value if isinstance(a, ast.Starred) else a for a in node.args]
        for args, s in self.ev_seq(plain, st):
            if s.raised:
                yield None, s
                continue
            for kvals, s in self.ev_seq([k.value for k in node.keywords], s):
                if s.raised:
                    yield None, s
                    continue
                try:
                    kwargs = self._kwargs_of(node, kvals)
                except Unsupported:
                    kwargs = None
                cur = s.env[name]
                res, new = NONE, None
                if not starred and kwargs is not None:
                    res, new = self._mutated(cur, meth, args, kwargs)
                    if res == 'raise':
                        yield None, s.raising(new)
                        continue
                if new is None:
                    ty = 'dict' if isinstance(cur, DictV) else 'list'
                    yield Opaque('m:' + meth, (cur,) + tuple(args)), s.bind(
                        name, Opaque('havoc:%s@%d' % (name, node.lineno), (), ty))
                    continue
                yield res, s.bind(name, new)

    @staticmethod
    def _const_key(k):
        return (isinstance(k, Str) and k.is_lit()) or (isinstance(k, Sym) and k.is_const()) or \
            isinstance(k, Const)

    def _mutated(self, cur, meth, args, kwargs):
        """(result, new container) of cur.meth(*args, **kwargs), or (NONE, None) if not modelled."""
        ck = self._const_key
        res, new = NONE, None
        if isinstance(cur, DictV):
            d = list(cur.items)

            def put(k, v):
                for i_, (kk, _) in enumerate(d):
                    if kk == k:
                        d[i_] = (k, v)
                        return
                d.append((k, v))
            keys_const = all(ck(k) for k, _ in d)
            if meth == 'update' and len(args) <= 1 and keys_const and (
                    not args or (isinstance(args[0], DictV) and all(
                        ck(k) for k, _ in args[0].items))):
                for k, v in (args[0].items if args else ()):
                    put(k, v)
                for k, v in kwargs.items():
                    put(Str.lit(k), v)
                new = DictV(tuple(d))
            elif meth == 'setdefault' and len(args) in (1, 2) and keys_const and ck(args[0]) \
                    and not kwargs:
                hit = [v for k, v in d if k == args[0]]
                if hit:
                    res, new = hit[0], cur
                else:
                    res = args[1] if len(args) == 2 else NONE
                    put(args[0], res)
                    new = DictV(tuple(d))
            elif meth == 'pop' and len(args) in (1, 2) and keys_const and ck(args[0]) \
                    and not kwargs:
                hit = [v for k, v in d if k == args[0]]
                if hit:
                    res, new = hit[0], DictV(tuple((k, v) for k, v in d if k != args[0]))
                elif len(args) == 2:
                    res, new = args[1], cur
                else:
                    return 'raise', 'KeyError'
            elif meth == 'clear' and not args and not kwargs:
                new = DictV(())
        elif isinstance(cur, Tup) and cur.kind == 'set' and not kwargs:
            items = list(cur.items)
            allc = all(ck(x) for x in items)
            if meth == 'add' and len(args) == 1 and ck(args[0]) and allc:
                new = cur if args[0] in items else Tup(tuple(items + [args[0]]), 'set')
            elif meth == 'discard' and len(args) == 1 and ck(args[0]) and allc:
                new = Tup(tuple(x for x in items if x != args[0]), 'set')
            elif meth == 'clear' and not args:
                new = Tup((), 'set')
            elif meth == 'update' and allc and all(
                    isinstance(a, Tup) and all(ck(x) for x in a.items) for a in args):
                for a in args:
                    for x in a.items:
                        if x not in items:
                            items.append(x)
                new = Tup(tuple(items), 'set')
        elif isinstance(cur, Tup) and not kwargs:
            items = list(cur.items)
            if meth == 'reverse' and not args:
                new = Tup(tuple(reversed(items)), cur.kind)
            elif meth == 'popleft' and not args and items:
                res, new = items[0], Tup(tuple(items[1:]), cur.kind)
            elif meth == 'appendleft' and len(args) == 1:
                new = Tup(tuple([args[0]] + items), cur.kind)
            elif meth == 'append' and len(args) == 1:
                new = Tup(tuple(items + [args[0]]), cur.kind)
            elif meth == 'extend' and len(args) == 1 and self.literal_items(args[0]) is not None:
                new = Tup(tuple(items + list(self.literal_items(args[0]))), cur.kind)
            elif meth == 'pop' and not args and items:
                res, new = items[-1], Tup(tuple(items[:-1]), cur.kind)
            elif meth == 'clear' and not args:
                new = Tup((), cur.kind)
            elif meth == 'sort' and not args and all(
                    isinstance(x, Sym) and x.is_const() for x in items):
                new = Tup(tuple(sorted(items, key=lambda x: x.const_value())), cur.kind)
        return res, new

    def _list_mutation(self, node, name, meth, st):
        """In-place mutation of a list held in a local variable whose elements are known."""
        for args, s in self.ev_seq(list(node.args), st):
            if s.raised:
                yield None, s
                continue
            cur = s.env[name]
            items = list(cur.items)
            const_int = lambda a: isinstance(a, Sym) and a.is_const() and \
                a.const_value().denominator == 1
            res = NONE
            if meth == 'append' and len(args) == 1:
                items.append(args[0])
            elif meth == 'clear' and not args:
                items = []
            elif meth == 'extend' and len(args) == 1 and isinstance(args[0], Tup):
                items.extend(args[0].items)
            elif meth == 'pop' and (not args or const_int(args[0])):
                k = int(args[0].const_value()) if args else -1
                if not -len(items) <= k < len(items):
                    yield None, s.raising('IndexError')
                    continue
                res = items.pop(k)
            elif meth == 'insert' and len(args) == 2 and const_int(args[0]):
                items.insert(int(args[0].const_value()), args[1])
            else:
                # unknown shape: forget the contents
                yield Opaque('m:' + meth, (cur,) + tuple(args)), s.bind(
                    name, Opaque('havoc:%s@%d' % (name, node.lineno), (), 'list'))
                continue
            yield res, s.bind(name, Tup(tuple(items), 'list'))

    def do_call(self, f, args, kwargs, st, node):
        if isinstance(f, ExtRef) and f.dotted.startswith('mpmath.'):
            st = st.note(('mp-op', f.dotted, node.lineno, self.cur.qualname))
        # exceptions the check says this call may raise
        for exc in self.hooks.may_raise(f, args, st, node) or ():
            yield None, st.raising(exc).note(('raised-by', describe(f), node.lineno))
        r = self.hooks.call(self, f, args, kwargs, st, node)
        if r is not None:
            yield from r
            return
        if isinstance(f, Closure):
            if f.fn in self.stack or len(self.stack) > 24:
                note_gap('callee', f.label, self.cur.loc(node))
                yield Opaque('call:' + f.label, tuple(args)), st.effect(
                    Effect('call', f, tuple(args), node.lineno, self.cur.qualname))
                return
            if self.cur.qualname == f.definer:
                for n_, v_ in f.captured:
                    if n_ in st.env and st.env[n_] != v_:
                        raise Unsupported('closure %s reads %r, which was rebound after the '
                                          'closure was created (%s)' % (f.label, n_,
                                                                       self.cur.loc(node)))
            yield from self.call_function(f.fn, args, kwargs, st, closure_env=dict(f.captured),
                                          closure_defaults=dict(f.defaults))
            return
        if isinstance(f, FuncRef) and not f.qual.endswith('#raw') and \
                self.unknown_decorators(f.fn):
            yield from self.call_decorated(f.fn, None, args, kwargs, st, node)
            return
        if isinstance(f, Bound) and isinstance(f.obj, ObjRef):
            m_ = (self.self_cls or f.obj.cls).lookup(f.name) if (self.self_cls or f.obj.cls) \
                else None
            if m_ is not None and self.unknown_decorators(m_) and m_ not in self.stack:
                yield from self.call_decorated(m_, f.obj, args, kwargs, st, node)
                return
        if isinstance(f, FuncRef):
            fn = f.fn
            if fn in self.stack or not self.hooks.inline(fn, len(self.stack)):
                bound = self.bind_positional(fn, args, kwargs)
                yield Opaque('call:' + fn.qualname, bound), st.effect(
                    Effect('call', f, bound, node.lineno, self.cur.qualname))
                return
            if fn.cls is not None and fn.params and fn.params[0] == 'self' and args and \
                    isinstance(args[0], (ObjRef, Inst, EnumV)):
                yield from self.call_function(fn, args[1:], kwargs, st, args[0])
            else:
                yield from self.call_function(fn, args, kwargs, st)
            return
        if isinstance(f, Bound) and isinstance(f.obj, ObjRef):
            cls = self.self_cls or f.obj.cls
            m = cls.lookup(f.name) if cls else None
            if m is not None:
                if m in self.stack or not self.hooks.inline(m, len(self.stack)):
                    yield Opaque('call:' + m.qualname, tuple(args)), st.effect(
                        Effect('call', FuncRef(m, m.qualname), tuple(args), node.lineno,
                               self.cur.qualname))
                    return
                yield from self.call_function(m, args, kwargs, st, f.obj)
                return
        if isinstance(f, ExtRef) and any(isinstance(a, GenV) for a in args):
            yield from self._call_with_generators(f, args, kwargs, st, node)
            return
        if isinstance(f, Bound) and f.name == 'join' and len(args) == 1 and \
                isinstance(args[0], GenV):
            for items, s1 in self.run_generator(args[0], st, node):
                if items is None:
                    yield None, s1
                else:
                    yield from self.do_call(f, [Tup(tuple(items), 'list')], kwargs, s1, node)
            return
        if isinstance(f, ExtRef):
            r = self.call_ext(f.dotted, args, kwargs, st, node)
            if r is not None:
                yield from r
                return
        if isinstance(f, Bound) and isinstance(f.obj, (Inst, EnumV)):
            r = self.call_value_method(f.obj, f.name, args, kwargs, st, node)
            if r is not None:
                yield from r
                return
            note_gap('method', '%s.%s' % (describe(f.obj), f.name), self.cur.loc(node))
        if isinstance(f, Bound):
            r = self.call_method(f.obj, f.name, args, kwargs, st, node)
            if r is not None:
                yield from r
                return
        if isinstance(f, ClassRef):
            made = self.instantiate(f, args, kwargs, st, node)
            if made is not None:
                yield from made
                return
            note_gap('instance', f.qual, self.cur.loc(node))
            yield Opaque('new:' + f.qual, tuple(args), 'obj'), st
            return
        if isinstance(f, Bound) and isinstance(f.obj, ClassRef):
            m = f.obj.cls.lookup(f.name)
            if m is not None and m not in self.stack and self.hooks.inline(m, len(self.stack)):
                yield from self.call_function(m, args, kwargs, st)
                return
        # unknown callee: opaque result, recorded as an effect
        if _gap_callee(f):
            note_gap('callee', describe(f), self.cur.loc(node))
        elif isinstance(f, ExtRef) and f.dotted.split('.')[0] in (
                'builtins', 'itertools', 'functools', 'operator', 'collections') and \
                f.dotted not in ('builtins.print', 'builtins.open', 'builtins.input',
                                 'builtins.id', 'builtins.hash', 'builtins.repr'):
            # a pure library function the interpreter has no model for
            note_gap('library', f.dotted, self.cur.loc(node))
        yield Opaque('call:' + describe(f), tuple(args)), st.effect(
            Effect('call', f, tuple(args), node.lineno, self.cur.qualname))

    def _call_with_generators(self, f, args, kwargs, st, node):
        """A library call with generator-object arguments: next() takes the first item only,
        everything else consumes the generator completely (short-circuiting consumers only when
        the generator has no side effects)."""
        name = f.dotted[9:] if f.dotted.startswith('builtins.') else f.dotted
        if name == 'next' and isinstance(args[0], GenV) and len(args) in (1, 2):
            for items, s1 in self.run_generator(args[0], st, node, first_only=True):
                if items is None:
                    yield None, s1
                elif items:
                    yield items[0], s1
                elif len(args) == 2:
                    yield args[1], s1
                else:
                    yield None, s1.raising('StopIteration')
            return

        def rec(k, acc, s):
            if k == len(args):
                yield from self.do_call(f, acc, kwargs, s, node)
                return
            a = args[k]
            if not isinstance(a, GenV):
                yield from rec(k + 1, acc + [a], s)
                return
            n_eff = len(s.effects)
            for items, s1 in self.run_generator(a, s, node):
                if items is None:
                    yield None, s1
                    continue
                if name in ('any', 'all', 'itertools.takewhile', 'itertools.islice', 'zip') \
                        and len(s1.effects) != n_eff:
                    raise Unsupported('%s() over a generator with side effects at %s'
                                      % (name, self.cur.loc(node)))
                yield from rec(k + 1, acc + [Tup(tuple(items), 'list')], s1)
        yield from rec(0, [], st)

    # ------------------------------------------------------------------ decorators
    PLAIN_DECORATORS = {'property', 'staticmethod', 'classmethod', 'wraps', 'abstractmethod',
                        'lru_cache', 'cache', 'cached_property', 'override', 'final',
                        'setter', 'getter', 'deleter'}

    def unknown_decorators(self, fn):
        return [d for d in getattr(fn.node, 'decorator_list', [])
                if ast.unparse(d.func if isinstance(d, ast.Call) else d).split('.')[-1]
                not in self.PLAIN_DECORATORS]

    def call_decorated(self, fn, self_obj, args, kwargs, st, node):
        """Call a function through its (repo-defined) decorators: each decorator expression is
        evaluated in the defining module and applied to the function, innermost first."""
        val = FuncRef(fn, fn.qualname + '#raw')
        frame = ModuleFrame(fn.module, fn.cls)
        for d in reversed(fn.node.decorator_list):
            if ast.unparse(d.func if isinstance(d, ast.Call) else d).split('.')[-1] in \
                    self.PLAIN_DECORATORS:
                continue
            self.stack.append(frame)
            try:
                got = [(v, s_) for v, s_ in self.ev(d, State())]
            finally:
                self.stack.pop()
            if len(got) != 1 or got[0][1].raised or got[0][1].effects:
                raise Unsupported('decorator %s of %s is not a plain value'
                                  % (ast.unparse(d), fn.qualname))
            applied = list(self.do_call(got[0][0], [val], {}, State(), node))
            if len(applied) != 1 or applied[0][1].raised or applied[0][1].effects or \
                    applied[0][1].path:
                raise Unsupported('decorator %s of %s does not return one callable'
                                  % (ast.unparse(d), fn.qualname))
            val = applied[0][0]
            if not isinstance(val, (Closure, FuncRef)):
                note_gap('decorator', ast.unparse(d), fn.loc())
        full = ([self_obj] if self_obj is not None else []) + list(args)
        yield from self.do_call(val, full, kwargs, st, node)

    # ------------------------------------------------------------------ value classes
    def enum_members(self, cls):
        """[(name, value)] of an Enum class in definition order (auto() counts from 1)."""
        out, auto = [], 0
        for c in reversed(cls.mro()):
            for name in c.member_order:
                if name.startswith('_'):
                    continue
                expr = c.class_attrs[name]
                if isinstance(expr, ast.Call) and ast.unparse(expr.func).split('.')[-1] == 'auto':
                    auto += 1
                    val = Sym.const(auto)
                else:
                    val = self.eval_constant_expr(expr, c.module, c)
                    if val is None:
                        return None
                    if isinstance(val, Sym) and val.is_const() and \
                            val.const_value().denominator == 1:
                        auto = int(val.const_value())
                out.append((name, val))
        return out

    def enum_member(self, cref, name):
        ms = self.enum_members(cref.cls)
        if ms is None:
            return None
        for n, v in ms:
            if n == name:
                return EnumV(cref.cls, cref.qual, n, v, cref.cls.kind == 'intenum')
        return None

    def instantiate(self, f, args, kwargs, st, node):
        cls = f.cls
        kind = cls.kind
        if kind in ('enum', 'intenum'):
            ms = self.enum_members(cls)
            if ms is None or len(args) != 1 or kwargs:
                return None
            want = num_of(args[0])
            hits = [EnumV(cls, f.qual, n, v, kind == 'intenum') for n, v in ms if v == want]
            if hits:
                return [(hits[0], st)]
            if is_constant_value(want):
                return [(None, st.raising('ValueError'))]
            return None
        if kind not in ('namedtuple', 'dataclass'):
            return None
        if cls.lookup('__init__') or cls.lookup('__new__') or cls.lookup('__post_init__'):
            return None
        fields = cls.all_fields()
        names = [n for n, _ in fields]
        if len(args) > len(names) or any(k not in names for k in kwargs):
            return [(None, st.raising('TypeError'))]
        vals = dict(zip(names, args))
        for k, v in kwargs.items():
            if k in vals:
                return [(None, st.raising('TypeError'))]
            vals[k] = v
        for n, d in fields:
            if n not in vals:
                if d is None:
                    return [(None, st.raising('TypeError'))]
                if isinstance(d, ast.Call) and ast.unparse(d.func).split('.')[-1] == 'field':
                    return None
                owner = next(c for c in cls.mro() if any(m == n for m, _ in c.ann_fields))
                dv = self.eval_constant_expr(d, owner.module, owner)
                if dv is None:
                    return None
                vals[n] = dv
        return [(Inst(cls, f.qual, tuple((n, vals[n]) for n in names)), st)]

    def call_value_method(self, obj, name, args, kwargs, st, node):
        cls = obj.cls
        m = cls.lookup(name)
        if m is not None:
            deco = {ast.unparse(d).split('.')[-1] for d in m.node.decorator_list}
            if m in self.stack or len(self.stack) > 24:
                return None
            if 'staticmethod' in deco or 'classmethod' in deco:
                return self.call_function(m, args, kwargs, st)
            return self.call_function(m, args, kwargs, st, obj)
        if isinstance(obj, Inst) and cls.kind == 'namedtuple':
            if name == '_replace' and not args and all(obj.has(k) for k in kwargs):
                return [(Inst(cls, obj.qual, tuple((n, kwargs.get(n, v)) for n, v in obj.fields)),
                         st)]
            if name == '_asdict' and not args and not kwargs:
                return [(DictV(tuple((Str.lit(n), v) for n, v in obj.fields)), st)]
            if name in ('index', 'count') and len(args) == 1:
                return self.call_method(Tup(tuple(v for _, v in obj.fields)), name, args, kwargs,
                                        st, node)
        return None

    def value_attr(self, o, attr, s, node):
        """Attribute of an Inst / EnumV: field, property (inlined), bound method, class constant."""
        if isinstance(o, EnumV):
            if attr == 'value':
                yield o.value, s
                return
            if attr == 'name':
                yield Str.lit(o.name), s
                return
        if isinstance(o, Inst):
            if o.has(attr):
                yield o.get(attr), s
                return
            if attr == '_fields' and o.cls.kind == 'namedtuple':
                yield Tup(tuple(Str.lit(n) for n, _ in o.fields)), s
                return
        m = o.cls.lookup(attr)
        if m is not None:
            deco = {ast.unparse(d).split('.')[-1] for d in m.node.decorator_list}
            if deco & {'property', 'cached_property'}:
                if m in self.stack or len(self.stack) > 24:
                    note_gap('callee', m.qualname, self.cur.loc(node))
                    yield Opaque('call:' + m.qualname, (o,)), s
                    return
                yield from self.call_function(m, [], {}, s, o)
                return
            yield Bound(o, attr), s
            return
        expr, owner = o.cls.lookup_attr(attr)
        if expr is not None:
            if o.cls.kind in ('enum', 'intenum') and attr in owner.member_order and \
                    not attr.startswith('_'):
                mem = self.enum_member(ClassRef(o.cls, o.qual), attr)
                if mem is not None:
                    yield mem, s
                    return
            cv = self.eval_constant_expr(expr, owner.module, owner)
            if cv is not None:
                yield cv, s
                return
        note_gap('attribute', '%s.%s' % (o.qual, attr), self.cur.loc(node))
        yield Opaque('attr:%s.%s' % (o.qual, attr)), s

    def call_ext(self, dotted, args, kwargs, st, node):
        name = dotted
        if name.startswith('builtins.'):
            name = name[9:]
        num = lambda i=0: isinstance(args[i], Sym) if len(args) > i else False
        if name in ('int', 'math.trunc') and len(args) == 1:
            a = args[0]
            if isinstance(a, Sym):
                return [(mk_func('TRUNC', a), st)]
            if a == NONE:
                return [(None, st.raising('TypeError').note(('none-deref', 'int()', node.lineno)))]
            return [(Opaque('int', (a,), 'int'), st)]
        if name == 'int' and len(args) == 2:
            return [(Opaque('int', tuple(args), 'int'), st)]
        if name in ('float', 'mpmath.mpf', 'mpmath.mpmathify') and len(args) == 1:
            a = args[0]
            if isinstance(a, Sym):
                return [(a, st)]
            if isinstance(a, Str) and a.is_lit():
                try:
                    return [(Sym.const(exact_fraction(a.text().strip())), st)]
                except ValueError:
                    return [(None, st.raising('ValueError'))]
            if a == NONE:
                return [(None, st.raising('TypeError').note(('none-deref', 'float()', node.lineno)))]
            return [(Opaque('float', (a,), 'float'), st)]
        if name in ('math.floor', 'mpmath.floor') and num():
            return [(mk_func('FLOOR', args[0]), st)]
        if name in ('math.ceil', 'mpmath.ceil') and num():
            return [(mk_func('CEIL', args[0]), st)]
        if name in ('math.sqrt', 'mpmath.sqrt') and num():
            return [(mk_func('SQRT', args[0]), st)]
        if name in ('abs', 'math.fabs', 'mpmath.fabs') and num():
            return [(mk_func('ABS', args[0]), st)]
        if name in ('mpmath.sign', 'numpy.sign') and len(args) == 1 and num():
            # -1, 0 or +1: one case per sign (sign(0) = 0 is its own case)
            res = []
            for neg_, s2 in self.branch(norm_cmp('<', args[0], Sym.const(0)), st):
                if neg_:
                    res.append((Sym.const(-1), s2))
                    continue
                for zero_, s3 in self.branch(norm_cmp('==', args[0], Sym.const(0)), s2):
                    res.append((Sym.const(0) if zero_ else Sym.const(1), s3))
            return res
        if name == 'math.copysign' and len(args) == 2 and num(0) and num(1):
            # |x| with the sign of y (y = 0 counts as positive: integer zero has no sign bit)
            res = []
            for t, s2 in self.branch(norm_cmp('<', args[1], Sym.const(0)), st):
                res.append((-mk_func('ABS', args[0]) if t else mk_func('ABS', args[0]), s2))
            return res
        if name == 'round' and len(args) == 1 and num():
            return [(mk_func('ROUND', args[0]), st)]
        if name == 'round' and len(args) == 2 and num(0) and num(1) and args[1].is_const() \
                and args[1].const_value().denominator == 1 and 0 <= args[1].const_value() <= 12:
            scale = 10 ** int(args[1].const_value())
            return [(mk_func('ROUND', args[0] * scale) / scale, st)]
        if name in ('max', 'min') and len(args) == 2 and not kwargs and \
                getattr(self.hooks, 'minmax_by_selection', False) and \
                all(isinstance(a, Sym) for a in args):
            # which *operand* comes back matters (object identity): min(a, b) is b if b < a
            # else a, max(a, b) is b if b > a else a - ties return the first argument
            a_, b_ = args
            res = []
            for t, s2 in self.branch(norm_cmp('<' if name == 'min' else '>', b_, a_), st):
                res.append((b_ if t else a_, s2))
            return res
        if name in ('max', 'min') and len(args) >= 2 and all(isinstance(a, Sym) for a in args):
            return [(mk_func(name.upper(), *args), st)]
        if name in ('max', 'min') and len(args) == 1 and set(kwargs) <= {'default'} and \
                self.literal_items(args[0]) is not None:
            items = [num_of(x) for x in self.literal_items(args[0])]
            if not items:
                if 'default' in kwargs:
                    return [(kwargs['default'], st)]
                return [(None, st.raising('ValueError'))]
            if all(isinstance(x, Sym) for x in items):
                return [(mk_func(name.upper(), *items) if len(items) > 1 else items[0], st)]
        if name in ('max', 'min'):
            return [(Opaque(name, tuple(args), 'num'), st)]
        if name == 'len' and len(args) == 1:
            a = args[0]
            if isinstance(a, Tup):
                return [(Sym.const(len(a.items)), st)]
            if isinstance(a, Str) and a.is_lit():
                return [(Sym.const(len(a.text())), st)]
            if a == NONE:
                return [(None, st.raising('TypeError').note(('none-deref', 'len()', node.lineno)))]
            return [(Sym.func('LEN', _wrap(a)), st)]
        if name in ('str', 'format') and len(args) == 1 and isinstance(args[0], (Inst, EnumV)) \
                and not (isinstance(args[0], EnumV) and args[0].intlike and name == 'str'):
            return ((vs[0], s_) if vs is not None else (None, s_)
                    for vs, s_ in self.text_of_value([args[0]], st, node))
        if name == 'str' and len(args) == 1:
            a = args[0]
            if isinstance(a, Str) or type_of(a) == 'str':
                return [(a, st)]
            return [(Str.make(fmt_parts(a, '')), st)]
        if name in ('functools.wraps', 'functools.lru_cache', 'functools.cache'):
            return [(ExtRef('builtins.<identity>'), st)]
        if name == '<identity>' and len(args) == 1:
            return [(args[0], st)]
        if name == 'format' and len(args) in (1, 2) and (len(args) == 1 or (
                isinstance(args[1], Str) and args[1].is_lit())):
            return [(Str.make(fmt_parts(args[0], args[1].text() if len(args) == 2 else '')), st)]
        if name == 'bool' and len(args) == 1:
            return [(to_cond(args[0]), st)]
        if name in ('re.compile', 'frozenset', 'logging.getLogger') and name != 'frozenset':
            return [(Opaque('call:' + name, tuple(args)), st)]
        if name == 'ord' and len(args) == 1 and isinstance(args[0], Str) and args[0].is_lit() \
                and len(args[0].text()) == 1:
            return [(Sym.const(ord(args[0].text())), st)]
        if name == 'chr' and len(args) == 1 and num() and args[0].is_const() and \
                args[0].const_value().denominator == 1 and 0 <= args[0].const_value() < 0x110000:
            return [(Str.lit(chr(int(args[0].const_value()))), st)]
        if name == 'str.maketrans' and len(args) == 1 and isinstance(args[0], DictV):
            return [(args[0], st)]
        if name == 'range':
            return [(Opaque('range', tuple(args), 'list'), st)]
        if name in ('list', 'tuple') and len(args) <= 1:
            if not args:
                return [(Tup((), name), st)]
            if isinstance(args[0], Tup):
                return [(Tup(args[0].items, name), st)]
            return [(Opaque(name, tuple(args), name), st)]
        if name == 'set' and not args:
            return [(Tup((), 'set'), st)]
        if name == 'divmod' and len(args) == 2 and num(0) and num(1):
            q = mk_func('FLOOR', args[0] / args[1])
            return [(Tup((q, args[0] - args[1] * q)), st)]
        if name == 'enumerate' and args and isinstance(args[0], Tup):
            start = 0
            extra = args[1] if len(args) > 1 else kwargs.get('start')
            if isinstance(extra, Sym) and extra.is_const():
                start = int(extra.const_value())
            return [(Tup(tuple(Tup((Sym.const(i + start), x)) for i, x in enumerate(args[0].items)),
                         'list'), st)]
        if name == 'itertools.count' and len(args) <= 2 and all(isinstance(a, Sym) for a in args):
            return [(Opaque('count', (args[0] if args else Sym.const(0),
                                      args[1] if len(args) > 1 else Sym.const(1)), 'list'), st)]
        is_count = lambda a: isinstance(a, Opaque) and a.label == 'count' and len(a.args) == 2
        if name == 'zip' and args and any(isinstance(a, Tup) for a in args) and all(
                self.literal_items(a) is not None or is_count(a) for a in args):
            n = min(len(self.literal_items(a)) for a in args if not is_count(a))
            cols = [[a.args[0] + a.args[1] * k for k in range(n)] if is_count(a)
                    else list(self.literal_items(a))[:n] for a in args]
            return [(Tup(tuple(Tup(tuple(xs)) for xs in zip(*cols)), 'list'), st)]
        if name == 'zip' and args and all(isinstance(a, Tup) for a in args):
            return [(Tup(tuple(Tup(tuple(xs)) for xs in zip(*[a.items for a in args])), 'list'), st)]
        if name == 'reversed' and len(args) == 1 and isinstance(args[0], Tup):
            return [(Tup(tuple(reversed(args[0].items)), 'list'), st)]
        if name.startswith('operator.') and len(args) == 2 and not kwargs:
            ops = {'add': ast.Add, 'sub': ast.Sub, 'mul': ast.Mult, 'truediv': ast.Div,
                   'floordiv': ast.FloorDiv, 'mod': ast.Mod, 'pow': ast.Pow, 'and_': ast.BitAnd,
                   'or_': ast.BitOr, 'xor': ast.BitXor, 'lshift': ast.LShift,
                   'rshift': ast.RShift}
            cmps = {'lt': ast.Lt, 'le': ast.LtE, 'gt': ast.Gt, 'ge': ast.GtE, 'eq': ast.Eq,
                    'ne': ast.NotEq, 'is_': ast.Is, 'is_not': ast.IsNot, 'contains': None}
            short = name[9:]
            if short in ops:
                return self.binop(ops[short](), num_of(args[0]), num_of(args[1]), st, node)
            if short == 'contains':
                return [(In(args[1], args[0]), st)]
            if short in cmps:
                return [(self.compare(cmps[short](), args[0], args[1]), st)]
            if short == 'getitem':
                return [(self.item_of(args[0], args[1]), st)]
        if name.startswith('operator.') and len(args) == 1 and not kwargs:
            short = name[9:]
            if short == 'neg' and isinstance(num_of(args[0]), Sym):
                return [(-num_of(args[0]), st)]
            if short == 'abs' and isinstance(num_of(args[0]), Sym):
                return [(mk_func('ABS', num_of(args[0])), st)]
            if short == 'not_':
                return [(neg(to_cond(args[0])), st)]
            if short == 'truth':
                return [(to_cond(args[0]), st)]
        if name == 'getattr' and len(args) in (2, 3) and isinstance(args[1], Str) and \
                args[1].is_lit() and args[1].text().isidentifier():
            if len(args) == 2 or isinstance(args[0], (Inst, EnumV, ObjRef, ClassRef, PkgMod)):
                return self.get_attr(args[0], args[1].text(), st, node)
            # getattr(x, name, default) on an opaque object: the attribute or the default
            return [(Opaque('getattr', (args[0], args[1], args[2])), st)]
        if name == 'iter' and len(args) == 1 and self.literal_items(args[0]) is not None:
            return [(Tup(tuple(self.literal_items(args[0])), 'list'), st)]
        if name == 'next' and args and isinstance(args[0], Tup):
            if args[0].items:
                return [(args[0].items[0], st)]
            if len(args) > 1:
                return [(args[1], st)]
            return [(None, st.raising('StopIteration'))]
        if name in ('any', 'all') and len(args) == 1 and isinstance(args[0], Tup):
            conds = [to_cond(x) for x in args[0].items]
            if not conds:
                return [(Const(name == 'all'), st)]
            c = (OrC if name == 'any' else AndC)(tuple(conds)) if len(conds) > 1 else conds[0]
            t = fold_cond(c)
            return [(Const(t) if t is not None else c, st)]
        if name == 'sum' and len(args) == 1 and isinstance(args[0], Tup) and all(
                isinstance(x, Sym) for x in args[0].items):
            tot = Sym.const(0)
            for x in args[0].items:
                tot = tot + x
            return [(tot, st)]
        if name in ('max', 'min') and len(args) == 1 and isinstance(args[0], Tup) and \
                args[0].items and all(isinstance(x, Sym) for x in args[0].items):
            return [(mk_func(name.upper(), *args[0].items) if len(args[0].items) > 1
                     else args[0].items[0], st)]
        if name in ('dict',) and len(args) == 1 and isinstance(args[0], DictV) and not kwargs:
            return [(args[0], st)]
        if name == 'frozenset' and len(args) == 1 and isinstance(args[0], Tup):
            return [(Tup(args[0].items, 'set'), st)]
        if name == 'set' and len(args) == 1 and isinstance(args[0], Tup):
            return [(Tup(args[0].items, 'set'), st)]
        if name in ('mpmath.ldexp', 'math.ldexp') and len(args) == 2 and num(0) and num(1) \
                and args[1].is_const() and args[1].const_value().denominator == 1:
            k = int(args[1].const_value())
            return [(args[0] * (Sym.const(2) ** k) if k >= 0 else args[0] / (Sym.const(2) ** (-k)), st)]
        callable_ = lambda f: isinstance(f, (FuncRef, Closure, Bound, ExtRef, ClassRef))
        if name == 'map' and len(args) >= 2 and callable_(args[0]) and all(
                self.literal_items(a) is not None for a in args[1:]):
            rows = list(zip(*[self.literal_items(a) for a in args[1:]]))
            return self._map_call(args[0], rows, st, node)
        if name in ('filter', 'itertools.filterfalse') and len(args) == 2 and \
                self.literal_items(args[1]) is not None and (callable_(args[0]) or args[0] == NONE):
            return self._filter_call(args[0], self.literal_items(args[1]), st, node,
                                     keep=(name == 'filter'))
        if name == 'functools.reduce' and len(args) in (2, 3) and callable_(args[0]) and \
                self.literal_items(args[1]) is not None:
            seq = list(self.literal_items(args[1]))
            if len(args) == 3:
                seq = [args[2]] + seq
            if not seq:
                return [(None, st.raising('TypeError'))]
            return self._reduce_call(args[0], seq, st, node)
        if name == 'itertools.chain' and all(self.literal_items(a) is not None for a in args):
            out = []
            for a in args:
                out.extend(self.literal_items(a))
            return [(Tup(tuple(out), 'list'), st)]
        if name == 'itertools.chain.from_iterable' and len(args) == 1 and \
                self.literal_items(args[0]) is not None and all(
                    self.literal_items(a) is not None for a in self.literal_items(args[0])):
            out = []
            for a in self.literal_items(args[0]):
                out.extend(self.literal_items(a))
            return [(Tup(tuple(out), 'list'), st)]
        if name == 'itertools.compress' and len(args) == 2 and all(
                self.literal_items(a) is not None for a in args):
            pairs = list(zip(self.literal_items(args[0]), self.literal_items(args[1])))
            return self._compress(pairs, st)
        if name == 'sorted' and len(args) == 1 and not kwargs and \
                self.literal_items(args[0]) is not None:
            items = list(self.literal_items(args[0]))
            if len(items) <= 1:
                return [(Tup(tuple(items), 'list'), st)]
            if all(isinstance(x, Sym) for x in items):
                if all(x.is_const() for x in items):
                    return [(Tup(tuple(sorted(items, key=lambda x: x.const_value())), 'list'), st)]
                if len(items) == 2:
                    return [(Tup((mk_func('MIN', *items), mk_func('MAX', *items)), 'list'), st)]
                if len(items) == 3:
                    lo, hi = mk_func('MIN', *items), mk_func('MAX', *items)
                    return [(Tup((lo, items[0] + items[1] + items[2] - lo - hi, hi), 'list'), st)]
            if all(isinstance(x, Str) and x.is_lit() for x in items):
                return [(Tup(tuple(sorted(items, key=lambda x: x.text())), 'list'), st)]
        if name in ('enumerate', 'reversed', 'zip', 'map', 'sorted'):
            return [(Opaque(name, tuple(args)), st)]
        if name == 'isinstance':
            return [(Opaque(name, tuple(args)), st)]
        if name in ('packaging.version.parse',) and len(args) == 1:
            return [(Opaque('parse', tuple(args), 'version'), st)]
        if name == 'math.isclose':
            return [(Pred('isclose', tuple(args)), st)]
        if name == 'int.from_bytes':
            return [(Opaque('int.from_bytes', tuple(args) + tuple(sorted(kwargs.items())), 'int'),
                     st)]
        return None

    def _map_call(self, f, rows, st, node):
        def rec(k, acc, s):
            if k == len(rows):
                yield Tup(tuple(acc), 'list'), s
                return
            for v, s2 in self.do_call(f, list(rows[k]), {}, s, node):
                if s2.raised:
                    yield None, s2
                else:
                    yield from rec(k + 1, acc + [v], s2)
        yield from rec(0, [], st)

    def _filter_call(self, f, items, st, node, keep=True):
        def rec(k, acc, s):
            if k == len(items):
                yield Tup(tuple(acc), 'list'), s
                return
            results = [(items[k], s)] if f == NONE else self.do_call(f, [items[k]], {}, s, node)
            for v, s2 in results:
                if s2.raised:
                    yield None, s2
                    continue
                for b, s3 in self.branch(to_cond(v), s2):
                    yield from rec(k + 1, acc + [items[k]] if b == keep else acc, s3)
        yield from rec(0, [], st)

    def _reduce_call(self, f, seq, st, node):
        def rec(k, acc, s):
            if k == len(seq):
                yield acc, s
                return
            for v, s2 in self.do_call(f, [acc, seq[k]], {}, s, node):
                if s2.raised:
                    yield None, s2
                else:
                    yield from rec(k + 1, v, s2)
        yield from rec(1, seq[0], st)

    def _compress(self, pairs, st):
        def rec(k, acc, s):
            if k == len(pairs):
                yield Tup(tuple(acc), 'list'), s
                return
            for b, s2 in self.branch(to_cond(pairs[k][1]), s):
                yield from rec(k + 1, acc + [pairs[k][0]] if b else acc, s2)
        yield from rec(0, [], st)

    def call_method(self, obj, name, args, kwargs, st, node):
        """Method call on an abstract value (strings, lists, opaque objects)."""
        if obj == NONE:
            return [(None, st.raising('AttributeError').note(('none-deref', name, node.lineno)))]
        if isinstance(obj, Str) or type_of(obj) == 'str':
            r = self.str_method(obj, name, args, kwargs, st, node)
            if r is not None:
                return r
        if type_of(obj) == 'bytes' and name == 'decode':
            if isinstance(obj, Opaque) and obj.label == 'encode':
                return [(obj.args[0], st)]
            return [(Opaque('decode', (obj,), 'str'), st)]
        if isinstance(obj, Tup) and name == 'copy':
            return [(obj, st)]
        if name == 'to_bytes' and isinstance(obj, Sym) and args and isinstance(args[0], Sym) \
                and args[0].is_const() and 0 < args[0].const_value() <= 16:
            # n abstract bytes byte#k of one conversion: a sequence with known length, so loops,
            # enumerate(), len() and indexing over it are exact
            conv = Opaque('m:to_bytes', (obj,) + tuple(args) + tuple(sorted(kwargs.items())), 'bytes')
            n = int(args[0].const_value())
            return [(Tup(tuple(Opaque('byte#%d' % k, (conv,), 'int') for k in range(n)), 'tuple'), st)]
        if isinstance(obj, DictV):
            if name == 'get' and 1 <= len(args) <= 2:
                key = args[0]
                lit_keys = all(is_constant_value(k) for k, _ in obj.items)
                for k, v in obj.items:
                    if k == key:
                        return [(v, st)]
                if lit_keys and is_constant_value(key):
                    return [(args[1] if len(args) > 1 else NONE, st)]
            if name == 'items' and not args:
                return [(Tup(tuple(Tup((k, v)) for k, v in obj.items), 'list'), st)]
            if name == 'keys' and not args:
                return [(Tup(tuple(k for k, _ in obj.items), 'list'), st)]
            if name == 'values' and not args:
                return [(Tup(tuple(v for _, v in obj.items), 'list'), st)]
            if name == 'copy' and not args:
                return [(obj, st)]
        if isinstance(obj, Tup) and name == 'index' and len(args) == 1 and args[0] in obj.items:
            return [(Sym.const(obj.items.index(args[0])), st)]
        if isinstance(obj, Tup) and name == 'count' and len(args) == 1 and all(
                is_constant_value(x) for x in obj.items) and is_constant_value(args[0]):
            return [(Sym.const(sum(1 for x in obj.items if x == args[0])), st)]
        ty = METHOD_TY.get(name, 'unknown')
        res = Opaque('m:' + name, (obj,) + tuple(args) + tuple(sorted(kwargs.items())), ty)
        if name in PURE_METHODS:
            return [(res, st)]
        return [(res, st.effect(Effect('call', Bound(obj, name), tuple(args), node.lineno,
                                       self.cur.qualname)))]

    def str_method(self, obj, name, args, kwargs, st, node):
        lit = isinstance(obj, Str) and obj.is_lit()
        if name == 'format' and isinstance(obj, Str) and lit:
            parts, auto = [], 0
            try:
                parsed = list(string.Formatter().parse(obj.text()))
            except ValueError:
                return [(None, st.raising('ValueError'))]
            for text, fld, spec, conv in parsed:
                if text:
                    parts.append(text)
                if fld is None:
                    continue
                if fld == '':
                    idx = auto
                    auto += 1
                    val = args[idx] if idx < len(args) else None
                elif fld.isdigit():
                    val = args[int(fld)] if int(fld) < len(args) else None
                else:
                    val = kwargs.get(fld)
                if val is None:
                    return [(None, st.raising('IndexError'))]
                sp = (spec or '') if not conv else '!%s:%s' % (conv, spec or '')
                parts.extend(fmt_parts(val, sp))
            return [(Str.make(parts), st)]
        if name in ('strip', 'lstrip', 'rstrip', 'lower', 'upper') and not args:
            if lit:
                return [(Str.lit(getattr(obj.text(), name)()), st)]
            if isinstance(obj, Opaque) and obj.label == 'm:' + name:
                return [(obj, st)]  # idempotent
            if name in ('strip', 'lstrip', 'rstrip') and isinstance(obj, Opaque) and \
                    len(obj.args) == 1 and obj.label in ('m:strip', 'm:lstrip', 'm:rstrip'):
                # whitespace trimming composes: either side of a strip()ped text is trimmed
                # already, and trimming the other side of an lstrip()/rstrip() completes it
                if obj.label == 'm:strip':
                    return [(obj, st)]
                return [(Opaque('m:strip', obj.args, 'str'), st)]
            return [(Opaque('m:' + name, (obj,), 'str'), st)]
        if name == 'encode':
            return [(Opaque('encode', (obj,), 'bytes'), st)]
        if name in ('startswith', 'endswith') and len(args) == 1:
            if lit and isinstance(args[0], Str) and args[0].is_lit():
                return [(Const(getattr(obj.text(), name)(args[0].text())), st)]
            return [(Pred(name, (obj, args[0])), st)]
        if name == 'isspace' and not args:
            if lit:
                return [(Const(obj.text().isspace()), st)]
            return [(Pred('isspace', (obj,)), st)]
        if name == 'join' and lit and len(args) == 1 and isinstance(args[0], Tup):
            parts = []
            for i, it in enumerate(args[0].items):
                if i:
                    parts.append(obj.text())
                parts.extend(it.parts if isinstance(it, Str) else (Slot(it),))
            return [(Str.make(parts), st)]
        if name == 'replace' and len(args) == 2:
            if lit and all(isinstance(a, Str) and a.is_lit() for a in args):
                return [(Str.lit(obj.text().replace(args[0].text(), args[1].text())), st)]
            return [(Opaque('m:replace', (obj,) + tuple(args), 'str'), st)]
        if name == 'split':
            if lit and all(isinstance(a, Str) and a.is_lit() for a in args[:1]) and len(args) <= 1:
                parts = obj.text().split(*[a.text() for a in args])
                return [(Tup(tuple(Str.lit(p) for p in parts), 'list'), st)]
            return [(Opaque('m:split', (obj,) + tuple(args), 'list'), st)]
        return None


# ====================================================================== helpers
def describe(f):
    if isinstance(f, FuncRef):
        return f.qual
    if isinstance(f, ExtRef):
        return f.dotted
    if isinstance(f, Bound):
        return '%s.%s' % (describe(f.obj), f.name)
    if isinstance(f, ObjRef):
        return f.label
    if isinstance(f, Opaque):
        return f.label
    if isinstance(f, Sym):
        return repr(f)
    if isinstance(f, GenV):
        return 'generator:' + f.qual
    if isinstance(f, Inst):
        return 'inst:' + f.qual
    if isinstance(f, EnumV):
        return '%s.%s' % (f.qual, f.name)
    if isinstance(f, Closure):
        return f.label
    return type(f).__name__


def _has_fraction(a):
    """True if the normal form has a denominator or fractional coefficients (so int() truncates)."""
    if not a.is_poly():
        return True
    return any(c.denominator != 1 for c in a.num.terms.values()) or not is_intvalued(a) and any(
        at[0] == 'f' and at[1] not in ('FLOOR', 'CEIL', 'TRUNC', 'ROUND', 'ABS', 'MAX', 'MIN',
                                       'LEN', 'BITAND', 'BITOR')
        for at in a.atoms())


def _wrap(v):
    """Embed a non-numeric value as a variable-like Sym so it can sit inside a function atom."""
    if isinstance(v, Sym):
        return v
    return Sym.var('<%s>' % (describe(v) if not isinstance(v, Opaque) else _opaque_text(v)))


def _opaque_text(v):
    if isinstance(v, Opaque):
        return v.label + ('(' + ','.join(_opaque_text(a) for a in v.args) + ')' if v.args else '')
    if isinstance(v, Str):
        return repr(v.text()) if v.is_lit() else 'tmpl'
    if isinstance(v, Sym):
        return repr(v)
    if isinstance(v, Const):
        return repr(v.v)
    if isinstance(v, tuple):
        return '(' + ','.join(_opaque_text(a) for a in v) + ')'
    return type(v).__name__


def fmt_parts(val, spec):
    """Parts contributed by formatting `val` with format spec `spec` into a template."""
    if isinstance(val, Str) and not spec:
        return list(val.parts)
    if isinstance(val, Sym) and val.is_const() and not spec and val.const_value().denominator == 1:
        return [str(int(val.const_value()))]
    return [Slot(val, spec)]


def _as_load(node):
    new = ast.copy_location(type(node)(**{f: getattr(node, f) for f in node._fields}), node)
    if hasattr(new, 'ctx'):
        new.ctx = ast.Load()
    return new


def assigned_names(loop):
    """Names and self-fields assigned anywhere inside a loop statement (incl. its target)."""
    names, fields = set(), set()

    def tgt(t):
        if isinstance(t, ast.Name):
            names.add(t.id)
        elif isinstance(t, (ast.Tuple, ast.List)):
            for e in t.elts:
                tgt(e)
        elif isinstance(t, ast.Attribute) and isinstance(t.value, ast.Name) and t.value.id == 'self':
            fields.add(t.attr)
        elif isinstance(t, ast.Subscript):
            if isinstance(t.value, ast.Name):
                names.add(t.value.id)
        elif isinstance(t, ast.Starred):
            tgt(t.value)

    for n in ast.walk(loop):
        if isinstance(n, ast.Assign):
            for t in n.targets:
                tgt(t)
        elif isinstance(n, (ast.AugAssign, ast.AnnAssign)):
            tgt(n.target)
        elif isinstance(n, ast.For):
            tgt(n.target)
        elif isinstance(n, ast.ExceptHandler) and n.name:
            names.add(n.name)
        elif isinstance(n, ast.Call) and isinstance(n.func, ast.Attribute) and \
                isinstance(n.func.value, ast.Name) and n.func.attr in (
                    'append', 'extend', 'insert', 'pop', 'remove', 'clear', 'sort', 'reverse',
                    'add', 'update', 'discard'):
            names.add(n.func.value.id)
    return names, fields


def type_of_hint(v):
    t = type_of(v)
    return t if t in ('str', 'bytes', 'list', 'tuple', 'num') else 'unknown'


def to_cond(v):
    v = num_of(v)
    if isinstance(v, COND_TYPES) or isinstance(v, Const):
        return v if not (isinstance(v, Const) and v.v is None) else FALSE
    if isinstance(v, Sym):
        return norm_cmp('!=', v, Sym.const(0))
    return Truthy(v)


def neg(c):
    if isinstance(c, Const):
        return Const(not c.v)
    if isinstance(c, NotC):
        return c.c
    if isinstance(c, Cmp):
        inv = {'<': '>=', '<=': '>', '>': '<=', '>=': '<', '==': '!=', '!=': '=='}
        if c.op in inv and isinstance(c.a, Sym) and isinstance(c.b, Sym):
            return Cmp(inv[c.op], c.a, c.b)
    return NotC(c)


def lexicographic(op, xs, ys):
    """(x0, x1, ...) op (y0, y1, ...) for tuples of numbers, as a condition over the components."""
    strict = {'<': '<', '<=': '<', '>': '>', '>=': '>'}[op]
    if len(xs) == 1:
        return norm_cmp(op, xs[0], ys[0])
    first = norm_cmp(strict, xs[0], ys[0])
    eq = norm_cmp('==', xs[0], ys[0])
    rest = lexicographic(op, xs[1:], ys[1:])
    return OrC((first, AndC((eq, rest))))


def norm_cmp(op, a, b):
    """Numeric comparisons are normalised to `(a - b) op 0` so that spelling does not matter."""
    if isinstance(a, Sym) and isinstance(b, Sym):
        d = a - b
        if d.is_const():
            v = d.const_value()
            return Const({'<': v < 0, '<=': v <= 0, '>': v > 0, '>=': v >= 0, '==': v == 0,
                          '!=': v != 0}[op])
        return Cmp(op, d, Sym.const(0))
    return Cmp(op, a, b)


def fold_cond(c):
    """Decide a condition from its own structure when possible."""
    if isinstance(c, Const):
        return bool(c.v)
    if isinstance(c, IsNone):
        v = c.v
        if v == NONE:
            return True
        if isinstance(v, (Sym, Str, Tup, DictV, ObjRef, Inst, EnumV, Closure, FuncRef, ClassRef,
                          ExtRef)) or isinstance(v, COND_TYPES):
            return False
        if isinstance(v, Const):
            return False
        if isinstance(v, Opaque) and v.ty in ('str', 'bytes', 'int', 'float', 'list', 'tuple',
                                                'num', 'version', 'bool'):
            return False
        return None
    if isinstance(c, Truthy):
        v = c.v
        if isinstance(v, Const):
            return bool(v.v)
        if isinstance(v, Sym) and v.is_const():
            return v.const_value() != 0
        if isinstance(v, Str):
            if v.is_lit():
                return bool(v.text())
            if any(isinstance(p, str) and p for p in v.parts):
                return True
        if isinstance(v, Tup):
            return bool(v.items)
        if isinstance(v, (ObjRef, FuncRef, Closure, ExtRef, ClassRef)):
            return True
        if isinstance(v, EnumV) and not v.intlike:
            return True
        if isinstance(v, Inst) and not v.cls.lookup('__bool__') and not v.cls.lookup('__len__'):
            return bool(v.fields) if v.cls.kind == 'namedtuple' else True
        if isinstance(v, DictV):
            return bool(v.items)
        return None
    if isinstance(c, NotC):
        t = fold_cond(c.c)
        return None if t is None else not t
    if isinstance(c, Cmp):
        a, b = c.a, c.b
        if c.op == 'is':
            if isinstance(a, Const) and isinstance(b, Const):
                return a.v is b.v
            if isinstance(a, Sym) and isinstance(b, Sym):
                # identity of numbers: the same variable is the same object; two different
                # variables are taken to hold distinct objects (equal values included - a
                # caller's parsed or computed float is not the bound object)
                aa, ab = a.as_atom(), b.as_atom()
                if aa is not None and ab is not None and aa[0] == 'v' and ab[0] == 'v':
                    return aa == ab
                return None
            if (isinstance(a, Const) and isinstance(b, (Sym, Str, Tup, DictV))) or \
                    (isinstance(b, Const) and isinstance(a, (Sym, Str, Tup, DictV))):
                return False
            return None
        if isinstance(a, Sym) and isinstance(b, Sym):
            d = a - b
            if d.is_const():
                v = d.const_value()
                return {'<': v < 0, '<=': v <= 0, '>': v > 0, '>=': v >= 0, '==': v == 0,
                        '!=': v != 0}.get(c.op)
            return None
        if c.op in ('==', '!='):
            if isinstance(a, Const) and isinstance(b, Const):
                return (a.v == b.v) == (c.op == '==')
            if isinstance(a, Str) and isinstance(b, Str) and a.is_lit() and b.is_lit():
                return (a.text() == b.text()) == (c.op == '==')
            # str(number), stripped / case-folded, against a literal that cannot be the text of
            # a number ("clear"): never equal
            for x, y in ((a, b), (b, a)):
                if isinstance(y, Str) and y.is_lit() and is_number_text(x) and any(
                        ch not in '0123456789+-.eEinfINFaA_ ' for ch in y.text()):
                    return c.op == '!='
            if isinstance(a, Tup) and isinstance(b, Tup) and a.kind == b.kind:
                if len(a.items) != len(b.items):
                    return c.op == '!='
                subs = [fold_cond(Cmp('==', x, y)) if not (isinstance(x, Sym) and isinstance(y, Sym))
                        else ((x - y).const_value() == 0 if (x - y).is_const() else None)
                        for x, y in zip(a.items, b.items)]
                if any(v is False for v in subs):
                    return c.op == '!='
                if all(v is True for v in subs):
                    return c.op == '=='
                return None
            ta, tb = type_of(a), type_of(b)
            known = ('num', 'str', 'none', 'tuple', 'list')
            if ta in known and tb in known and ta != tb:
                return c.op == '!='
            if a == b and not isinstance(a, Opaque):
                return c.op == '=='
        return None
    if isinstance(c, In):
        item, cont = c.item, c.container
        if isinstance(cont, Tup) and isinstance(item, Str) and item.is_lit() and all(
                isinstance(x, Str) and x.is_lit() for x in cont.items):
            return item.text() in {x.text() for x in cont.items}
        if isinstance(cont, Str) and cont.is_lit() and isinstance(item, Str) and item.is_lit():
            return item.text() in cont.text()
        if isinstance(cont, Tup) and not cont.items:
            return False
        if isinstance(cont, DictV):
            cont = Tup(tuple(k for k, _ in cont.items))
            if not cont.items:
                return False
        if isinstance(cont, Tup) and is_constant_value(item) and all(
                is_constant_value(x) for x in cont.items):
            return any(x == item for x in cont.items)
        if isinstance(cont, Tup) and any(x == item for x in cont.items) and not isinstance(item, Opaque):
            return True
        return None
    if isinstance(c, AndC):
        vals = [fold_cond(x) for x in c.items]
        if any(v is False for v in vals):
            return False
        if all(v is True for v in vals):
            return True
        return None
    if isinstance(c, OrC):
        vals = [fold_cond(x) for x in c.items]
        if any(v is True for v in vals):
            return True
        if all(v is False for v in vals):
            return False
        return None
    return None


def is_number_text(v):
    """v is str(<numeric term>) possibly passed through strip()/lower()/upper()."""
    while isinstance(v, Opaque) and v.label in ('m:strip', 'm:lower', 'm:upper', 'm:lstrip',
                                                'm:rstrip', 'm:casefold') and len(v.args) == 1:
        v = v.args[0]
    if isinstance(v, Opaque) and v.label in ('str', 'call:builtins.str') and len(v.args) == 1:
        v = v.args[0]
        return isinstance(v, Sym)
    if isinstance(v, Str) and len(v.parts) == 1 and isinstance(v.parts[0], Slot) and \
            not getattr(v.parts[0], 'spec', None):
        return isinstance(v.parts[0].value, Sym)
    return False


def implied_by_path(c, path):
    """Decide numeric sign comparisons `E op 0` from earlier assumptions about the same E
    (three-way sign reasoning: E<0, E==0, E>0 are exclusive and exhaustive)."""
    if not (isinstance(c, Cmp) and isinstance(c.a, Sym) and isinstance(c.b, Sym)
            and c.b == Sym.const(0) and c.op in ('<', '<=', '>', '>=', '==', '!=')):
        return None
    possible = {'-', '0', '+'}
    sat = {'<': {'-'}, '<=': {'-', '0'}, '>': {'+'}, '>=': {'0', '+'}, '==': {'0'},
           '!=': {'-', '+'}}
    for pc, truth in path:
        if isinstance(pc, Cmp) and isinstance(pc.a, Sym) and isinstance(pc.b, Sym) \
                and pc.b == Sym.const(0) and pc.op in sat:
            if pc.a == c.a:
                s = sat[pc.op]
            elif pc.a == -c.a:
                flip = {'-': '+', '+': '-', '0': '0'}
                s = {flip[x] for x in sat[pc.op]}
            else:
                continue
            possible &= (s if truth else ({'-', '0', '+'} - s))
    want = sat[c.op]
    if possible <= want:
        return True
    if not (possible & want):
        return False
    return None
