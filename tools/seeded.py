#!/usr/bin/env python3
"""Seeded-change bookkeeping (developer tool).

  tools/seeded.py import <out_dir> <PID>   verify every <out_dir>/<k>/ and keep it as seeded/<PID>-<k>/
  tools/seeded.py eval [ids...]            run ./check against every kept change (scratch copy of /repo)

Verification (done here, independently of whoever wrote the change), in a scratch git worktree of
/repo outside /repo and /verif, removed afterwards:
  1. the patch applies to /repo HEAD and touches only plotink/*.py
  2. with the patch the pinned test suite passes (33 tests)
  3. demo.py exits non-zero with the patch and 0 without it
"""
import json
import os
import shutil
import subprocess
import sys
import tempfile

VERIF = os.path.dirname(os.path.dirname(os.path.abspath(__file__)))
REPO = '/repo'
PY = '/venv/bin/python'
SEEDED = os.path.join(VERIF, 'seeded')


def sh(cmd, cwd=None, env=None, timeout=900):
    r = subprocess.run(cmd, cwd=cwd, env=env, capture_output=True, text=True, timeout=timeout)
    return r.returncode, (r.stdout + r.stderr)


def scratch_worktree():
    d = tempfile.mkdtemp(prefix='vf_seed_')
    os.rmdir(d)
    rc, out = sh(['git', '-C', REPO, 'worktree', 'add', '-q', '--detach', d,
                  os.environ.get('SEED_BASE', 'HEAD')])   # SEED_BASE: the commit the change was written against
    if rc:
        raise RuntimeError(out)
    return d


def drop_worktree(d):
    sh(['git', '-C', REPO, 'worktree', 'remove', '--force', d])
    shutil.rmtree(d, ignore_errors=True)


def run_tests(wt):
    env = dict(os.environ, PYTHONDONTWRITEBYTECODE='1')
    rc, out = sh([PY, '-m', 'pytest', '-q', '-p', 'no:cacheprovider', '--timeout=900'], cwd=wt, env=env)
    last = [l for l in out.strip().splitlines() if l.strip()][-1] if out.strip() else ''
    return rc == 0 and '33 passed' in last, last


def run_demo(demo, root):
    env = dict(os.environ, PLOTINK_ROOT=root, PYTHONDONTWRITEBYTECODE='1')
    rc, out = sh([PY, demo], cwd=os.path.dirname(demo), env=env, timeout=600)
    return rc, out[-600:]


def verify(src_dir):
    patch = os.path.join(src_dir, 'patch.diff')
    demo = os.path.join(src_dir, 'demo.py')
    rec = {}
    files = [l[6:].strip() for l in open(patch) if l.startswith('+++ b/')]
    rec['files'] = files
    if not files or any(not f.startswith('plotink/') for f in files):
        rec['ok'] = False
        rec['why'] = 'patch touches files outside plotink/: %s' % files
        return rec
    wt = scratch_worktree()
    try:
        rc0, out0 = run_demo(demo, wt)
        rec['demo_clean_exit'] = rc0
        rc, out = sh(['git', '-C', wt, 'apply', patch])
        if rc:
            rec['ok'] = False
            rec['why'] = 'patch does not apply: ' + out[-300:]
            return rec
        # make sure the worktree copy (not the editable install) is what pytest imports
        rc, out = sh([PY, '-c', 'import plotink, os; print(os.path.dirname(plotink.__file__))'], cwd=wt)
        rec['tests_import_from'] = out.strip()
        ok_t, last = run_tests(wt)
        rec['tests_with_patch'] = last
        rc1, out1 = run_demo(demo, wt)
        rec['demo_patched_exit'] = rc1
        rec['demo_patched_output'] = out1
        rec['ok'] = bool(ok_t and rc0 == 0 and rc1 != 0 and rec['tests_import_from'].startswith(wt))
        if not rec['ok']:
            rec['why'] = 'tests_ok=%s demo_clean=%s demo_patched=%s import_from=%s' % (
                ok_t, rc0, rc1, rec['tests_import_from'])
    finally:
        drop_worktree(wt)
    return rec


def cmd_import(out_dir, pid):
    os.makedirs(SEEDED, exist_ok=True)
    for k in sorted(os.listdir(out_dir)):
        src = os.path.join(out_dir, k)
        if not os.path.isfile(os.path.join(src, 'patch.diff')):
            continue
        rec = verify(src)
        name = '%s-%s' % (pid, k)
        print('%s: %s %s' % (name, 'VERIFIED' if rec['ok'] else 'REJECTED', rec.get('why', '')))
        if not rec['ok']:
            continue
        dst = os.path.join(SEEDED, name)
        os.makedirs(dst, exist_ok=True)
        shutil.copy(os.path.join(src, 'patch.diff'), dst)
        shutil.copy(os.path.join(src, 'demo.py'), dst)
        try:
            meta = json.load(open(os.path.join(src, 'meta.json')))
        except (OSError, ValueError):
            meta = {}
        meta['property'] = pid
        meta['origin'] = 'independent sub-agent given only the property text and a private worktree'
        meta['verified_by_me'] = {
            'base_commit': sh(['git', '-C', REPO, 'rev-parse',
                               os.environ.get('SEED_BASE', 'HEAD')])[1].strip(),
            'ran': ['git apply patch.diff in a scratch worktree of /repo HEAD',
                    '/venv/bin/python -m pytest -q -p no:cacheprovider  -> ' + rec['tests_with_patch'],
                    'PLOTINK_ROOT=<patched worktree> /venv/bin/python demo.py -> exit %d'
                    % rec['demo_patched_exit'],
                    'PLOTINK_ROOT=<clean worktree> /venv/bin/python demo.py -> exit %d'
                    % rec['demo_clean_exit']],
            'demo_output_with_patch': rec['demo_patched_output'],
        }
        json.dump(meta, open(os.path.join(dst, 'meta.json'), 'w'), indent=1)


def patched_tree(patch, meta, tmp, pre_patches=()):
    """<tmp>/repo/plotink = the entry's patch applied to /repo HEAD; if the patch no longer applies
    there (a later `fix:` commit touched the same lines), to the commit the entry was written
    against.  Returns (repo dir or None, base label, message)."""
    bases = [('HEAD', None)]
    old = (meta.get('verified_by_me') or {}).get('base_commit')
    if old:
        # newest first: the latest commit the patch still applies to contains the most repairs
        r = subprocess.run(['git', '-C', REPO, 'rev-list', '--first-parent', 'HEAD', '^' + old],
                           capture_output=True, text=True)
        between = [c for c in r.stdout.split()][1:] if r.returncode == 0 else []
        bases += [(c[:7], c) for c in between]
        bases.append((old[:7], old))
    if old and meta.get('needs_base'):
        bases = bases[-1:]      # breaking only on the code it was written against (see meta)
    msg = ''
    for label, commit in bases:
        repo = os.path.join(tmp, 'repo_' + label)
        os.makedirs(repo)
        p1 = subprocess.Popen(['git', '-C', REPO, 'archive', commit or 'HEAD', 'plotink'],
                              stdout=subprocess.PIPE)
        subprocess.run(['tar', '-x', '-C', repo], stdin=p1.stdout, check=True)
        p1.wait()
        ok = True
        for pt in list(pre_patches) + [patch]:
            rc, out = sh(['patch', '-p1', '-s', '-i', pt], cwd=repo)
            if rc:
                ok, msg = False, out[-200:]
                break
        if ok:
            return repo, label, ''
    return None, None, msg


def inherited_reports(base_label, pid=None):
    """(rule, key) pairs of defects fixed in /repo after the commit a corpus entry is based on."""
    if base_label == 'HEAD':
        return set()
    try:
        data = json.load(open(os.path.join(VERIF, 'known_findings.json')))
    except (OSError, ValueError):
        return set()
    def inherited(f):
        # a defect is inherited only by a base that does not contain its repair
        c = f.get('commit')
        if not c:
            return True
        r = subprocess.run(['git', '-C', REPO, 'merge-base', '--is-ancestor', c, base_label],
                           capture_output=True)
        return r.returncode != 0
    rules = [f for f in data.get('fixed_rules', []) if inherited(f)]
    got = {(f['rule'], f['key']) for f in rules if pid is None or f.get('property') == pid}
    if pid in (None, 'C04'):
        # C04-D7 takes over verdicts of the C05 exchange analysis, keyed by the C05 construct
        got |= {('C04-D7-faults-are-recorded', 'via:%s:%s' % (f['rule'], f['key']))
                for f in rules if f.get('property') == 'C05'}
    return got


def stopped_early(out):
    """The run reported violations but could not finish its other rules."""
    return 'analysis stopped early' in out


def reported(out):
    """[(rule, key)] of the violation lines of a ./check run."""
    got = []
    for l in out.splitlines():
        if ': [' in l and ']' in l:
            rule = l.split(': [', 1)[1].split(']', 1)[0]
            key = l.split('] ', 1)[1].split(': ', 1)[0] if '] ' in l else ''
            got.append((rule, key))
    return got


def eval_one(name, tier='quick'):
    d = os.path.join(SEEDED, name)
    meta = json.load(open(os.path.join(d, 'meta.json')))
    pid = meta['property']
    tmp = tempfile.mkdtemp(prefix='vf_seedeval_')
    try:
        repo, base, msg = patched_tree(os.path.join(d, 'patch.diff'), meta, tmp)
        if repo is None:
            return name, pid, 'PATCH-FAILED', msg
        rc, out = sh([os.path.join(VERIF, 'check'), pid, tier, '--repo', repo, '--out',
                      os.path.join(tmp, 'ev')], cwd=VERIF)
        inherited = inherited_reports(base, pid)
        rules = sorted({r for r, k in reported(out) if (r, k) not in inherited})
        if rc == 1 and not rules:
            # only the defect inherited from the older base was reported
            rc = 2 if stopped_early(out) else 0
        verdict = {0: 'MISSED', 1: 'CAUGHT', 2: 'ANALYSIS-ERROR'}.get(rc, 'rc=%d' % rc)
        note = ', '.join(rules) if rules else out.strip().splitlines()[-1][:160]
        if base != 'HEAD':
            note += ' (on base %s)' % base
        return name, pid, verdict, note
    finally:
        shutil.rmtree(tmp, ignore_errors=True)


def cmd_eval(names, tier='quick'):
    from concurrent.futures import ThreadPoolExecutor
    if not names:
        names = sorted(n for n in os.listdir(SEEDED)
                       if os.path.isfile(os.path.join(SEEDED, n, 'meta.json')))
        partial = False
    else:
        partial = True
    with ThreadPoolExecutor(max_workers=12) as ex:
        res = list(ex.map(lambda n: eval_one(n, tier), names))
    table = {}
    if partial:
        try:
            table = json.load(open(os.path.join(SEEDED, 'RESULTS.json')))
        except (OSError, ValueError):
            table = {}
    for name, pid, verdict, info in res:
        print('%-8s %-14s %s' % (name, verdict, info))
        table[name] = {'property': pid, 'verdict': verdict, 'rules_or_note': info}
    json.dump(table, open(os.path.join(SEEDED, 'RESULTS.json'), 'w'), indent=1, sort_keys=True)
    n = len(res)
    c = sum(1 for r in res if r[2] == 'CAUGHT')
    print('seeded: %d changes, %d caught, %d missed, %d analysis-error' % (
        n, c, sum(1 for r in res if r[2] == 'MISSED'),
        sum(1 for r in res if r[2] == 'ANALYSIS-ERROR')))


if __name__ == '__main__':
    if len(sys.argv) >= 4 and sys.argv[1] == 'import':
        cmd_import(sys.argv[2], sys.argv[3])
    elif len(sys.argv) >= 2 and sys.argv[1] == 'eval':
        tier = 'quick'
        args = sys.argv[2:]
        if '--thorough' in args:
            tier = 'thorough'
            args.remove('--thorough')
        cmd_eval(args, tier)
    else:
        print(__doc__)
