#!/usr/bin/env python3
"""Seeded changes on top of a behaviour-preserving refactoring (developer tool).

The question this corpus answers: once the code no longer looks like today's tree (helpers
extracted, tables, value classes, decorators, generators ...), do the checks still *detect* a
breaking change - or do they merely stay silent / inconclusive?

  tools/rb.py import <out_dir> <PID> <equiv-variant>   verify <out_dir>/<k>/ and keep it as
                                                       seeded_rb/<PID>-<variant>-b<k>/
  tools/rb.py eval [ids...]                            run ./check on base refactoring + change

Each kept change holds patch.diff (relative to /repo HEAD + equiv/<PID>-<variant>/patch.diff),
demo.py and meta.json.  Verification here, in a scratch copy outside /repo and /verif: the base
patch and the change apply in that order, the pinned tests pass, the demo exits 0 on the base and
non-zero with the change.
"""
import json
import os
import shutil
import subprocess
import sys
import tempfile

VERIF = os.path.dirname(os.path.dirname(os.path.abspath(__file__)))
REPO = '/repo'
PY = '/venv/bin/python'
KEEP = os.path.join(VERIF, 'seeded_rb')
EQUIV = os.path.join(VERIF, 'equiv')


def sh(cmd, cwd=None, env=None, timeout=900):
    r = subprocess.run(cmd, cwd=cwd, env=env, capture_output=True, text=True, timeout=timeout)
    return r.returncode, (r.stdout + r.stderr)


def scratch_tree(base_variant):
    """Plain copy of /repo (no git metadata involved) with the refactoring applied: /repo HEAD if
    the refactoring still applies there, else the commit it was written against.  Returns
    (directory, base label)."""
    sys.path.insert(0, os.path.dirname(os.path.abspath(__file__)))
    import seeded as S
    meta = json.load(open(os.path.join(EQUIV, base_variant, 'meta.json')))
    tmp = tempfile.mkdtemp(prefix='vf_rb_')
    repo, label, msg = S.patched_tree(os.path.join(EQUIV, base_variant, 'patch.diff'), meta, tmp)
    if repo is None:
        shutil.rmtree(tmp, ignore_errors=True)
        raise RuntimeError('base refactoring does not apply: ' + msg)
    # the test suite lives outside plotink/: add it for verification runs
    p1 = subprocess.Popen(['git', '-C', REPO, 'archive', 'HEAD', 'test', 'setup.py'],
                          stdout=subprocess.PIPE)
    subprocess.run(['tar', '-x', '-C', repo], stdin=p1.stdout, check=False)
    p1.wait()
    return repo, label


def run_tests(wt):
    env = dict(os.environ, PYTHONDONTWRITEBYTECODE='1')
    rc, out = sh([PY, '-m', 'pytest', '-q', '-p', 'no:cacheprovider'], cwd=wt, env=env)
    last = [l for l in out.strip().splitlines() if l.strip()][-1] if out.strip() else ''
    return rc == 0 and '33 passed' in last, last


def run_demo(demo, root):
    env = dict(os.environ, PLOTINK_ROOT=root, PYTHONDONTWRITEBYTECODE='1')
    rc, out = sh([PY, demo], cwd=os.path.dirname(demo), env=env, timeout=600)
    return rc, out[-600:]


def verify(src_dir, base_variant):
    patch = os.path.join(src_dir, 'patch.diff')
    demo = os.path.join(src_dir, 'demo.py')
    rec = {}
    files = [l[6:].strip() for l in open(patch) if l.startswith('+++ b/')]
    if not files or any(not f.startswith('plotink/') for f in files):
        return {'ok': False, 'why': 'patch touches files outside plotink/: %s' % files}
    wt, _label = scratch_tree(base_variant)
    try:
        rc0, _ = run_demo(demo, wt)
        rec['demo_base_exit'] = rc0
        rc, out = sh(['patch', '-p1', '-s', '-i', patch], cwd=wt)
        if rc:
            return {'ok': False, 'why': 'change does not apply on the base: ' + out[-300:]}
        ok_t, last = run_tests(wt)
        rec['tests_with_change'] = last
        rc1, out1 = run_demo(demo, wt)
        rec['demo_changed_exit'] = rc1
        rec['demo_changed_output'] = out1
        rec['ok'] = bool(ok_t and rc0 == 0 and rc1 != 0)
        if not rec['ok']:
            rec['why'] = 'tests_ok=%s demo_base=%s demo_changed=%s' % (ok_t, rc0, rc1)
    finally:
        shutil.rmtree(os.path.dirname(wt), ignore_errors=True)
    return rec


def cmd_import(out_dir, pid, variant):
    base_variant = '%s-%s' % (pid, variant)
    os.makedirs(KEEP, exist_ok=True)
    for k in sorted(os.listdir(out_dir)):
        src = os.path.join(out_dir, k)
        if not os.path.isfile(os.path.join(src, 'patch.diff')):
            continue
        rec = verify(src, base_variant)
        name = '%s-b%s' % (base_variant, k)
        print('%s: %s %s' % (name, 'VERIFIED' if rec['ok'] else 'REJECTED', rec.get('why', '')))
        if not rec['ok']:
            continue
        dst = os.path.join(KEEP, name)
        os.makedirs(dst, exist_ok=True)
        shutil.copy(os.path.join(src, 'patch.diff'), dst)
        shutil.copy(os.path.join(src, 'demo.py'), dst)
        try:
            meta = json.load(open(os.path.join(src, 'meta.json')))
        except (OSError, ValueError):
            meta = {}
        meta.update({'property': pid, 'base': 'equiv/' + base_variant,
                     'origin': 'independent sub-agent given only the property text and a private '
                               'scratch repository holding the refactored library',
                     'verified_by_me': {
                         'ran': ['patch base refactoring, then patch.diff, on a copy of /repo HEAD',
                                 'pytest -> ' + rec['tests_with_change'],
                                 'demo.py on base -> exit %d' % rec['demo_base_exit'],
                                 'demo.py with change -> exit %d' % rec['demo_changed_exit']],
                         'demo_output_with_change': rec['demo_changed_output']}})
        json.dump(meta, open(os.path.join(dst, 'meta.json'), 'w'), indent=1)


def eval_one(name, tier='quick'):
    d = os.path.join(KEEP, name)
    meta = json.load(open(os.path.join(d, 'meta.json')))
    pid = meta['property']
    base_variant = meta['base'].split('/', 1)[1]
    wt, label = scratch_tree(base_variant)
    ev = tempfile.mkdtemp(prefix='vf_rbev_')
    import seeded as S
    try:
        rc, out = sh(['patch', '-p1', '-s', '-i', os.path.join(d, 'patch.diff')], cwd=wt)
        if rc:
            return name, pid, 'PATCH-FAILED', out[-200:]
        try:
            rc, out = sh([os.path.join(VERIF, 'check'), pid, tier, '--repo', wt, '--out', ev],
                         cwd=VERIF, timeout=400)
        except subprocess.TimeoutExpired:
            return name, pid, 'TIMEOUT', 'check did not finish within 400 s'
        inherited = S.inherited_reports(label, pid)
        rules = sorted({r for r, k in S.reported(out) if (r, k) not in inherited})
        if rc == 1 and not rules:
            rc = 2 if S.stopped_early(out) else 0
        verdict = {0: 'MISSED', 1: 'CAUGHT', 2: 'CANNOT-CONCLUDE'}.get(rc, 'rc=%d' % rc)
        lines = [l for l in out.strip().splitlines() if 'conda' not in l]
        note = ', '.join(rules) if rules else (lines[-1][:200] if lines else '')
        if label != 'HEAD':
            note += ' (on base %s)' % label
        return name, pid, verdict, note
    finally:
        shutil.rmtree(os.path.dirname(wt), ignore_errors=True)
        shutil.rmtree(ev, ignore_errors=True)


def cmd_eval(names, tier='quick'):
    from concurrent.futures import ThreadPoolExecutor
    partial = bool(names)
    if not names:
        names = sorted(n for n in os.listdir(KEEP)
                       if os.path.isfile(os.path.join(KEEP, n, 'meta.json')))
    with ThreadPoolExecutor(max_workers=12) as ex:
        res = list(ex.map(lambda n: eval_one(n, tier), names))
    table = {}
    if partial:
        try:
            table = json.load(open(os.path.join(KEEP, 'RESULTS.json')))
        except (OSError, ValueError):
            table = {}
    for name, pid, verdict, info in res:
        print('%-14s %-16s %s' % (name, verdict, info))
        table[name] = {'property': pid, 'verdict': verdict, 'rules_or_note': info}
    json.dump(table, open(os.path.join(KEEP, 'RESULTS.json'), 'w'), indent=1, sort_keys=True)
    print('refactored+changed: %d changes, %d caught, %d missed, %d cannot-conclude' % (
        len(res), sum(1 for r in res if r[2] == 'CAUGHT'), sum(1 for r in res if r[2] == 'MISSED'),
        sum(1 for r in res if r[2] == 'CANNOT-CONCLUDE')))


if __name__ == '__main__':
    if len(sys.argv) >= 5 and sys.argv[1] == 'import':
        cmd_import(sys.argv[2], sys.argv[3], sys.argv[4])
    elif len(sys.argv) >= 2 and sys.argv[1] == 'eval':
        args = sys.argv[2:]
        tier = 'quick'
        if '--thorough' in args:
            tier = 'thorough'
            args.remove('--thorough')
        cmd_eval(args, tier)
    else:
        print(__doc__)
