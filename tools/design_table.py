#!/usr/bin/env python3
"""Regenerates the seeded-change table of DESIGN.md (between the SEEDED-TABLE markers) from
seeded/*/meta.json and seeded/RESULTS.json."""
import json
import os
import re

VERIF = os.path.dirname(os.path.dirname(os.path.abspath(__file__)))
res = json.load(open(os.path.join(VERIF, 'seeded', 'RESULTS.json')))
rows = []
for name in sorted(res):
    meta = json.load(open(os.path.join(VERIF, 'seeded', name, 'meta.json')))
    summ = re.sub(r'\s+', ' ', meta.get('summary', '')).strip()
    if len(summ) > 230:
        summ = summ[:227] + '...'
    r = res[name]
    rules = r['rules_or_note'] if r['verdict'] == 'CAUGHT' else ''
    rules = ', '.join(x for x in rules.split(', ') if re.match(r'^C\d\d-', x))
    rows.append('| %s | %s | %s | %s |' % (name, summ.replace('|', '/'), r['verdict'], rules))
table = ['| change | what it does (author\'s summary) | verdict | reporting rules |',
         '|---|---|---|---|'] + rows
n = len(rows)
c = sum(1 for r in res.values() if r['verdict'] == 'CAUGHT')
table.append('')
table.append('%d changes, %d caught, %d missed, %d cannot-conclude.' % (
    n, c, sum(1 for r in res.values() if r['verdict'] == 'MISSED'),
    sum(1 for r in res.values() if r['verdict'] == 'ANALYSIS-ERROR')))
p = os.path.join(VERIF, 'DESIGN.md')
s = open(p).read()
a, b = '<!-- SEEDED-TABLE-BEGIN -->', '<!-- SEEDED-TABLE-END -->'
if a in s and b in s:
    s = s[:s.index(a) + len(a)] + '\n' + '\n'.join(table) + '\n' + s[s.index(b):]
    open(p, 'w').write(s)
    print('DESIGN.md table updated: %d rows' % n)
else:
    print('\n'.join(table))
