#!/usr/bin/env python3
"""Regenerates the behaviour-preserving-refactoring table of DESIGN.md (EQUIV-TABLE markers)."""
import json
import os
import re

VERIF = os.path.dirname(os.path.dirname(os.path.abspath(__file__)))
res = json.load(open(os.path.join(VERIF, 'equiv', 'RESULTS.json')))
rows = []
for name in sorted(res):
    meta = json.load(open(os.path.join(VERIF, 'equiv', name, 'meta.json')))
    summ = re.sub(r'\s+', ' ', meta.get('summary', '')).strip()
    if len(summ) > 200:
        summ = summ[:197] + '...'
    r = res[name]
    note = re.sub(r'\s+', ' ', r.get('note', ''))
    note = note.replace('ANALYSIS-ERROR property=%s ' % r['property'], '')[:110]
    rows.append('| %s | %s | %s | %s |' % (name, summ.replace('|', '/'), r['verdict'],
                                          note.replace('|', '/')))
table = ['| refactoring | what it does (author\'s summary) | verdict of the property\'s check | why it cannot conclude |',
         '|---|---|---|---|'] + rows
n = len(rows)
table.append('')
table.append('%d refactorings: %d silent (exit 0), %d cannot-conclude (exit 2), %d false alarms (exit 1).' % (
    n, sum(1 for r in res.values() if r['verdict'] == 'SILENT'),
    sum(1 for r in res.values() if r['verdict'] == 'CANNOT-CONCLUDE'),
    sum(1 for r in res.values() if r['verdict'] == 'FALSE-ALARM')))
p = os.path.join(VERIF, 'DESIGN.md')
s = open(p).read()
a, b = '<!-- EQUIV-TABLE-BEGIN -->', '<!-- EQUIV-TABLE-END -->'
if a in s and b in s:
    s = s[:s.index(a) + len(a)] + '\n' + '\n'.join(table) + '\n' + s[s.index(b):]
    open(p, 'w').write(s)
    print('DESIGN.md equiv table updated: %d rows' % n)
else:
    print('\n'.join(table))
